"""CLI: ./check <id> [--tier quick|thorough] [--replay path]"""
import importlib
import json
import os
import sys
import traceback

from . import ir, engine


def main(argv):
    if not argv:
        print('usage: check <property id> [--tier quick|thorough] [--replay path]')
        return 2
    pid = argv[0].upper()
    tier = os.environ.get('VERIF_TIER') or 'quick'
    replay = None
    i = 1
    while i < len(argv):
        if argv[i] == '--tier':
            tier = argv[i + 1]
            i += 2
        elif argv[i] == '--replay':
            replay = argv[i + 1]
            i += 2
        else:
            i += 1
    if tier not in ('quick', 'thorough'):
        tier = 'quick'
    try:
        mod = importlib.import_module('sa.rules.' + pid.lower())
    except ImportError as e:
        print('ANALYSIS-BROKEN no rules for %s (%s)' % (pid, e))
        return 2
    ck = engine.Checker(pid, tier)
    try:
        units = [os.path.join(ir.REPO, u) for u in mod.UNITS]
        missing = [u for u in units if not os.path.exists(u)]
        if missing:
            raise ir.AnalysisBroken('anchored unit(s) vanished: %s' % ', '.join(missing))
        units += [os.path.join(ir.VERIF, 'tu', u) for u in getattr(mod, 'DRIVERS', [])]
        units += [os.path.join(ir.VERIF, 'canaries', u) for u in getattr(mod, 'CANARIES', [])]
        if tier == 'thorough' and getattr(mod, 'THOROUGH_ALL_UNITS', True):
            units += ir.build_units()
        prog = ir.load_program(units)
        extra = mod.run(ck, prog) or {}
        rc = engine.finish(ck, prog, mod.EXPLANATION, mod.NOT_DECIDED, extra)
        if replay:
            try:
                with open(replay) as fh:
                    r = json.load(fh)
                print('replay of %s: re-evaluated on the current tree; instance was %s' % (replay, json.dumps(r.get('instance'))))
            except OSError:
                pass
        return rc
    except ir.AnalysisBroken as e:
        print('ANALYSIS-BROKEN %s' % e)
        return 2
    except Exception:
        traceback.print_exc()
        print('ANALYSIS-BROKEN internal error in the checker')
        return 2


if __name__ == '__main__':
    sys.exit(main(sys.argv[1:]))
