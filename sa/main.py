"""CLI: ./check <id> [--tier quick|thorough] [--replay path] [--variant name]"""
import concurrent.futures
import glob
import importlib
import json
import os
import re
import shutil
import subprocess
import sys
import tempfile
import traceback

from . import ir, engine

VARIANTS = {
    'abi2': ['-DOPENTELEMETRY_ABI_VERSION_NO=2'],
    'thread-instrumentation': ['-DENABLE_THREAD_INSTRUMENTATION_PREVIEW'],
    'exemplars': ['-DENABLE_METRICS_EXEMPLAR_PREVIEW'],
    'stl': ['-DOPENTELEMETRY_STL_VERSION=2017'],
}


def _selftest_one(pid, patch, benign):
    """apply one corpus patch to a scratch copy and run the quick check on it"""
    name = os.path.basename(patch)
    m = re.match(r'(c\d+)_(r\d+[a-z]?)?', name)
    rule = (pid + '.' + m.group(2).upper()) if (m and m.group(2) and not benign) else None
    s = tempfile.mkdtemp(prefix='otel-scratch.')
    try:
        subprocess.check_call('cd %s && tar cf - --exclude=third_party api sdk exporters ext | tar xf - -C %s' % (ir.REPO, s), shell=True)
        p = subprocess.run(['patch', '-p1', '-s', '--no-backup-if-mismatch', '-i', patch], cwd=s, capture_output=True, text=True)
        if p.returncode != 0:
            return name, None, 'patch no longer applies to the current tree (skipped)'
        os.makedirs(os.path.join(s, '.evidence'))
        env = dict(os.environ, OTEL_REPO=s, VERIF_EVIDENCE_DIR=os.path.join(s, '.evidence'), VERIF_TIER='quick')
        r = subprocess.run([os.path.join(ir.VERIF, 'check'), pid, '--tier', 'quick'], env=env, capture_output=True, text=True)
        if benign:
            return name, r.returncode == 0, 'benign variant: exit %d' % r.returncode
        hit = [l for l in r.stdout.splitlines() if l.strip().startswith('violation:') and (rule is None or ('rule=' + rule + ' ') in l)]
        return name, (r.returncode == 1 and bool(hit)), 'exit %d, %d report(s) of %s' % (r.returncode, len(hit), rule)
    finally:
        shutil.rmtree(s, ignore_errors=True)


def run_selftests(pid):
    jobs = [(p, False) for p in sorted(glob.glob(os.path.join(ir.VERIF, 'selftest', 'mutants', pid.lower() + '_*.patch')))]
    jobs += [(p, True) for p in sorted(glob.glob(os.path.join(ir.VERIF, 'selftest', 'benign', pid.lower() + '_*.patch')))]
    res = []
    with concurrent.futures.ThreadPoolExecutor(max_workers=int(os.environ.get('VERIF_SELFTEST_WORKERS') or 6)) as ex:
        for name, ok, msg in ex.map(lambda j: _selftest_one(pid, j[0], j[1]), jobs):
            res.append({'patch': name, 'ok': ok, 'detail': msg})
    return res


def run_variants(pid):
    out = []
    for vname in VARIANTS:
        d = tempfile.mkdtemp(prefix='otel-variant.')
        try:
            env = dict(os.environ, VERIF_EVIDENCE_DIR=d, VERIF_TIER='quick')
            r = subprocess.run([os.path.join(ir.VERIF, 'check'), pid, '--tier', 'quick', '--variant', vname], env=env, capture_output=True, text=True)
            viol = [l.strip() for l in r.stdout.splitlines() if l.strip().startswith('violation:')]
            broken = [l.strip() for l in r.stdout.splitlines() if l.startswith('ANALYSIS-BROKEN') or l.startswith('ANALYSIS-INCOMPLETE')]
            last = r.stdout.strip().splitlines()[-1] if r.stdout.strip() else ''
            out.append({'variant': vname, 'flags': VARIANTS[vname], 'exit': r.returncode, 'summary': last,
                        'observations': viol[:10], 'not_analysable': broken[:5]})
        finally:
            shutil.rmtree(d, ignore_errors=True)
    return out


def main(argv):
    if not argv:
        print('usage: check <property id> [--tier quick|thorough] [--replay path] [--variant name]')
        return 2
    pid = argv[0].upper()
    tier = os.environ.get('VERIF_TIER') or 'quick'
    replay = None
    variant = None
    i = 1
    while i < len(argv):
        if argv[i] == '--tier':
            tier = argv[i + 1]
            i += 2
        elif argv[i] == '--replay':
            replay = argv[i + 1]
            i += 2
        elif argv[i] == '--variant':
            variant = argv[i + 1]
            i += 2
        else:
            i += 1
    if tier not in ('quick', 'thorough'):
        tier = 'quick'
    try:
        mod = importlib.import_module('sa.rules.' + pid.lower())
    except ImportError as e:
        print('ANALYSIS-BROKEN no rules for %s (%s)' % (pid, e))
        return 2
    ck = engine.Checker(pid, tier)
    try:
        units = [os.path.join(ir.REPO, u) for u in mod.UNITS]
        missing = [u for u in units if not os.path.exists(u)]
        if missing:
            raise ir.AnalysisBroken('anchored unit(s) vanished: %s' % ', '.join(missing))
        units += [os.path.join(ir.VERIF, 'tu', u) for u in getattr(mod, 'DRIVERS', [])]
        units += [os.path.join(ir.VERIF, 'canaries', u) for u in getattr(mod, 'CANARIES', [])]
        if tier == 'thorough' and getattr(mod, 'THOROUGH_ALL_UNITS', True):
            # the whole build: every library unit of the compile database takes part in call-graph / call-site rules
            units += ir.build_units()
        prog = ir.load_program(units, variant=tuple(VARIANTS[variant]) if variant else ())
        from . import charclass as _cc
        _cc.PROG = prog
        try:
            extra = mod.run(ck, prog) or {}
        except ir.AnalysisBroken as e:
            # an anchor vanished half-way: what was decided before it is still reported (a violation found earlier keeps exit 1);
            # the run as a whole is analysis-broken otherwise
            extra = {}
            ck.aborted = str(e)
        if variant:
            extra['variant'] = variant
        broken_self = []
        if tier == 'thorough' and not variant and not os.environ.get('OTEL_REPO'):
            st = run_selftests(pid)
            extra['selftest_corpus'] = st
            extra['selftests_run'] = len(st)
            extra['selftests_passed'] = sum(1 for x in st if x['ok'])
            for x in st:
                if x['ok'] is False:
                    broken_self.append('self-test %s failed: %s' % (x['patch'], x['detail']))
            vs = run_variants(pid)
            extra['preprocessor_variants'] = vs
            for v in vs:
                for o in v['observations']:
                    ck.note('VARIANT-OBSERVATION [%s] %s' % (v['variant'], o[:300]))
                print('  variant %-24s %s' % (v['variant'], v['summary'] or ('exit %d' % v['exit'])))
            print('  self-test corpus: %d/%d patches behave as expected' % (extra['selftests_passed'], extra['selftests_run']))
        rc = engine.finish(ck, prog, mod.EXPLANATION, mod.NOT_DECIDED, extra)
        if broken_self and rc == 0:
            for b in broken_self:
                print('ANALYSIS-BROKEN ' + b)
            rc = 2
        if replay:
            try:
                with open(replay) as fh:
                    r = json.load(fh)
                print('replay of %s: re-evaluated on the current tree; instance was %s' % (replay, json.dumps(r.get('instance'))))
            except OSError:
                pass
        return rc
    except ir.AnalysisBroken as e:
        print('ANALYSIS-BROKEN %s' % e)
        return 2
    except Exception:
        traceback.print_exc()
        print('ANALYSIS-BROKEN internal error in the checker')
        return 2


if __name__ == '__main__':
    sys.exit(main(sys.argv[1:]))
