"""Extraction driver and IR loader.

Runs the libTooling extractor (tools/otel-ir) over translation units of /repo with the flags of the
real build (compile database of /repo/_build when present, the pinned flag set otherwise), caches the
result keyed by a hash of *every* source file in scope, and merges the per-unit IRs into one Program.
Nothing here judges anything.
"""
import glob
import hashlib
import json
import os
import pickle
import shutil
import subprocess
import sys
import time
from concurrent.futures import ThreadPoolExecutor

VERIF = os.path.dirname(os.path.dirname(os.path.abspath(__file__)))
REPO = os.environ.get('OTEL_REPO', '/repo')
EXTRACTOR = os.path.join(VERIF, 'tools', 'otel-ir', 'otel-ir')
CACHE = os.path.join(VERIF, '.cache')
SRC_DIRS = ['api', 'sdk', 'exporters', 'ext']
# The configured build uses g++ 12, which has no __has_feature: there OPENTELEMETRY_HAVE_FEATURE(f) is 0
# (api/include/opentelemetry/common/macros.h).  clang would answer 1 for many features and so parse a different
# preprocessor variant than the one that is built and tested; the macro is pinned to what g++ 12 computes.
BASE_FLAGS = ['-std=gnu++17', '-UNDEBUG', '-w', '-ferror-limit=0', '-DOPENTELEMETRY_HAVE_FEATURE(f)=0']
FALLBACK_FLAGS = ['-DOPENTELEMETRY_ABI_VERSION_NO=1', '-I%s/api/include' % REPO, '-I%s/sdk/include' % REPO,
                  '-I%s/sdk' % REPO, '-I%s/ext/include' % REPO]
EXTRA_INC = ['-I%s/exporters/ostream/include' % REPO, '-I%s/exporters/memory/include' % REPO,
             '-I%s/api/include' % REPO, '-I%s/sdk/include' % REPO, '-I%s/sdk' % REPO, '-I%s/ext/include' % REPO]
EXCLUDES = ['/test/', '/internal/absl/', '/benchmark/']

STR_KEYS = ('t', 'c', 'ck', 'cls', 'op', 'name', 'owner', 'qn', 'to', 'ty', 's', 'param', 'field', 'fn', 'it',
            'vname')
_STR_KEYS_SET = frozenset(STR_KEYS)


class AnalysisBroken(Exception):
    """The analysis cannot be carried out (parse failure, vanished anchor, too few instances)."""


def _sha(b):
    return hashlib.sha256(b).hexdigest()


_tree_hash_cache = {}


def tree_hash(repo=None):
    repo = repo or REPO
    if repo in _tree_hash_cache:
        return _tree_hash_cache[repo]
    h = hashlib.sha256()
    files = []
    for d in SRC_DIRS:
        for root, dirs, fs in os.walk(os.path.join(repo, d)):
            dirs[:] = [x for x in dirs if x not in ('third_party', '.git')]
            for f in fs:
                if f.endswith(('.h', '.cc', '.hpp', '.cpp', '.inc')):
                    files.append(os.path.join(root, f))
    files.sort()
    for f in files:
        h.update(f.encode())
        try:
            with open(f, 'rb') as fh:
                h.update(fh.read())
        except OSError:
            pass
    for d in ('tu', 'canaries'):
        for f in sorted(glob.glob(os.path.join(VERIF, d, '*'))):
            h.update(f.encode())
            with open(f, 'rb') as fh:
                h.update(fh.read())
    with open(EXTRACTOR, 'rb') as fh:
        h.update(fh.read())
    _tree_hash_cache[repo] = h.hexdigest()[:24]
    return _tree_hash_cache[repo]


_compdb = None


def compdb(repo=None):
    """file -> list of -D/-I flags from the build's compile database (empty dict when there is none)."""
    global _compdb
    repo = repo or REPO
    if _compdb is not None:
        return _compdb
    _compdb = {}
    bn = os.path.join(repo, '_build', 'build.ninja')
    if os.path.exists(bn):
        try:
            out = subprocess.run(['ninja', '-C', os.path.join(repo, '_build'), '-t', 'compdb'],
                                 capture_output=True, text=True, timeout=60).stdout
            for e in json.loads(out):
                f = os.path.normpath(e['file'])
                if not f.endswith(('.cc', '.cpp')):
                    continue
                toks = e.get('command', '').split()
                fl = [t for t in toks if (t.startswith('-D') and t != '-DNDEBUG') or t.startswith('-I')]
                if f not in _compdb:
                    _compdb[f] = fl
        except Exception:
            _compdb = {}
    return _compdb


def unit_flags(path, variant=()):
    db = compdb()
    fl = db.get(os.path.normpath(path))
    if fl is None:
        fl = list(FALLBACK_FLAGS)
    fl = list(fl)
    if variant:
        # a variant replaces conflicting -D
        names = {v.split('=')[0] for v in variant if v.startswith('-D')}
        fl = [f for f in fl if f.split('=')[0] not in names]
        fl += list(variant)
    for i in EXTRA_INC:
        if i not in fl:
            fl.append(i)
    fl.append('-I' + os.path.join(VERIF, 'tu'))
    return BASE_FLAGS + fl


def build_units(repo=None):
    """All library units the build compiles (sdk/src, exporters ostream+memory, ext/src), from the
    compile database when present, else from the source tree."""
    repo = repo or REPO
    db = compdb(repo)
    pref = [os.path.join(repo, p) for p in ('sdk/src/', 'exporters/ostream/src/', 'exporters/memory/src/', 'ext/src/')]
    if db:
        us = [f for f in db if any(f.startswith(p) for p in pref)]
    else:
        us = []
        for p in pref:
            us += glob.glob(p + '**/*.cc', recursive=True)
    return sorted(set(us))


def _resolve(obj, strs):
    """Replace interned string indexes by the strings, in place."""
    for f in obj['functions']:
        for k in ('qn', 'key', 'name', 'file', 'ret', 'cls', 'parent', 'targs'):
            if k in f:
                f[k] = strs[f[k]]
        if 'over' in f:
            f['over'] = [strs[x] for x in f['over']]
        for p in f['params']:
            p['name'] = strs[p['name']]
            p['t'] = strs[p['t']]
        for i, n in enumerate(f['nodes']):
            n['i'] = i
            if n.get('kx'):
                n['k'] = strs[n['k']]
                del n['kx']
            for k in n.keys() & _STR_KEYS_SET:
                v = n[k]
                if isinstance(v, int) and not isinstance(v, bool):
                    n[k] = strs[v]
            if n['k'] == 'declstmt':
                for d in n['decls']:
                    d['name'] = strs[d['name']]
                    d['t'] = strs[d['t']]
            elif n['k'] == 'lambda':
                for c in n['caps']:
                    if 'name' in c:
                        c['name'] = strs[c['name']]
                    if 't' in c:
                        c['t'] = strs[c['t']]
        for b in f.get('blocks', ()):
            for e in b['el']:
                if isinstance(e, dict):
                    for k in ('init', 'baseinit', 't', 'tmpdtor', 'memberdtor'):
                        if k in e:
                            e[k] = strs[e[k]]
            if 't' in b:
                b['t']['k'] = strs[b['t']['k']]
            if 'label' in b and 'qn' in b['label']:
                b['label']['qn'] = strs[b['label']['qn']]
    for r in obj['records']:
        r['qn'] = strs[r['qn']]
        r['file'] = strs[r['file']]
        for b in r['bases']:
            b['t'] = strs[b['t']]
        for fd in r['fields']:
            for k in ('name', 't', 'tw'):
                fd[k] = strs[fd[k]]
        for m in r['methods']:
            for k in ('name', 'key', 'ret'):
                if k in m:
                    m[k] = strs[m[k]]
            if 'params' in m:
                m['params'] = [strs[x] for x in m['params']]
            if 'over' in m:
                m['over'] = [strs[x] for x in m['over']]
    for g in obj['globals']:
        for k in ('qn', 'name', 't', 'file', 'in_fn', 'str'):
            if k in g:
                g[k] = strs[g[k]]
    for a in obj['aliases']:
        a['qn'] = strs[a['qn']]
        a['t'] = strs[a['t']]
        if 'targs' in a:
            a['targs'] = [strs[x] for x in a['targs']]
    del obj['strs']
    return obj


def extract_unit(path, variant=(), roots=None, cache_tag=None):
    """Extract one unit (cached). Returns the resolved IR dict."""
    th = cache_tag or tree_hash()
    flags = unit_flags(path, variant)
    ukey = _sha((path + '\0' + ' '.join(flags)).encode())[:20]
    cdir = os.path.join(CACHE, th)
    os.makedirs(cdir, exist_ok=True)
    try:
        os.utime(cdir, None)
    except OSError:
        pass
    pk = os.path.join(cdir, ukey + '.pkl')
    if os.path.exists(pk):
        try:
            with open(pk, 'rb') as fh:
                return pickle.load(fh)
        except Exception:
            pass
    tmpjson = os.path.join(cdir, '%s.%d.json' % (ukey, os.getpid()))
    roots = roots or ([os.path.join(REPO, d) for d in SRC_DIRS] + [os.path.join(VERIF, 'tu'), os.path.join(VERIF, 'canaries')])
    cmd = [EXTRACTOR, '-o', tmpjson]
    for r in roots:
        cmd += ['-root', r]
    for e in EXCLUDES:
        cmd += ['-exclude', e]
    cmd += [path, '--'] + flags
    p = subprocess.run(cmd, capture_output=True, text=True)
    if p.returncode != 0 or not os.path.exists(tmpjson):
        raise AnalysisBroken('extractor failed on %s: %s' % (path, (p.stderr or '')[-2000:]))
    with open(tmpjson) as fh:
        obj = json.load(fh)
    os.unlink(tmpjson)
    obj = _resolve(obj, obj['strs'])
    obj['unit'] = path
    tmp = pk + '.%d.tmp' % os.getpid()
    with open(tmp, 'wb') as fh:
        pickle.dump(obj, fh, protocol=pickle.HIGHEST_PROTOCOL)
    os.replace(tmp, pk)
    return obj


def prune_cache(keep=4, min_age_s=3600):
    """drop cache directories of older trees; never one used in the last hour (checks may run in parallel)"""
    try:
        now = time.time()
        ds = [os.path.join(CACHE, d) for d in os.listdir(CACHE)]
        ds = [d for d in ds if os.path.isdir(d)]
        ds.sort(key=os.path.getmtime, reverse=True)
        for d in ds[keep:]:
            if now - os.path.getmtime(d) > min_age_s:
                shutil.rmtree(d, ignore_errors=True)
    except OSError:
        pass


class Func:
    __slots__ = ('d', 'key', 'qn', 'name', 'file', 'line', 'cls', 'nodes', 'blocks', 'entry', 'exit', 'params',
                 'unit', '_parent', '_bmap')

    def __init__(self, d, unit):
        self.d = d
        self.key = d['key']
        self.qn = d['qn']
        self.name = d['name']
        self.file = d['file']
        self.line = d['line']
        self.cls = d.get('cls')
        self.nodes = d['nodes']
        self.blocks = d.get('blocks', [])
        self.entry = d.get('entry')
        self.exit = d.get('exit')
        self.params = d['params']
        self.unit = unit
        self._parent = None
        self._bmap = None

    def __repr__(self):
        return '<Func %s>' % self.qn

    @property
    def kind(self):
        return self.d.get('kind')

    def loc(self, n=None):
        f = self.file
        if f.startswith(REPO + '/'):
            f = f[len(REPO) + 1:]
        if n is None:
            return '%s:%d' % (f, self.line)
        if isinstance(n, int):
            n = self.nodes[n]
        return '%s:%d' % (f, n.get('l', self.line))

    def block(self, bid):
        if self._bmap is None:
            self._bmap = {b['id']: b for b in self.blocks}
        return self._bmap[bid]

    def children(self, n):
        """child node indexes of node n (dict)"""
        k = n['k']
        out = []
        for key in ('obj', 'fx', 'base', 'index', 'lhs', 'rhs', 'cnd', 'a', 'b', 'e', 'init', 'size', 'cv', 'th', 'el',
                    'inc', 'range', 'body'):
            v = n.get(key)
            if isinstance(v, int) and not isinstance(v, bool) and v >= 0:
                if key == 'init' and k not in ('new', 'if', 'for'):
                    continue
                if key in ('el',) and k != 'if':
                    continue
                if key == 'body' and k not in ('while', 'do', 'for', 'forrange'):
                    continue
                out.append(v)
        for key in ('args', 'ch', 'placement'):
            v = n.get(key)
            if isinstance(v, list) and key != 'ch' or (key == 'ch' and isinstance(v, list)):
                out.extend(x for x in v if isinstance(x, int) and x >= 0)
        if k == 'declstmt':
            for d in n['decls']:
                if 'init' in d:
                    out.append(d['init'])
        if k == 'lambda':
            for c in n['caps']:
                if 'init' in c:
                    out.append(c['init'])
        return out

    def parent_map(self):
        if self._parent is None:
            pm = {}
            for n in self.nodes:
                for c in self.children(n):
                    pm.setdefault(c, n['i'])
            self._parent = pm
        return self._parent

    def subtree(self, i):
        """all node indexes in the subtree rooted at i (including i)"""
        out = []
        st = [i]
        seen = set()
        while st:
            x = st.pop()
            if x in seen or x < 0:
                continue
            seen.add(x)
            out.append(x)
            st.extend(self.children(self.nodes[x]))
        return out

    def find(self, pred):
        return [n for n in self.nodes if pred(n)]

    def calls(self, name_suffix=None, pred=None):
        out = []
        for n in self.nodes:
            if n['k'] in ('call', 'construct'):
                c = n.get('c', '')
                if name_suffix is not None and not qmatch(c, name_suffix):
                    continue
                if pred and not pred(n):
                    continue
                out.append(n)
        return out


def strip_targs(s):
    """remove template argument lists from a qualified name: a::B<x,y>::f -> a::B::f"""
    out = []
    depth = 0
    i = 0
    while i < len(s):
        ch = s[i]
        if ch == '<':
            # 'operator<' / 'operator<<' / 'operator<=' are not template brackets
            if s[:i].endswith('operator') or s[:i].endswith('operator<'):
                out.append(ch)
            else:
                depth += 1
        elif ch == '>':
            if depth > 0:
                depth -= 1
            else:
                out.append(ch)
        elif depth == 0:
            out.append(ch)
        i += 1
    return ''.join(out)


_qcache = {}


def qmatch(qn, suffix):
    """True if the qualified name (template args ignored) equals suffix or ends with '::'+suffix."""
    if not qn:
        return False
    b = _qcache.get(qn)
    if b is None:
        b = strip_targs(qn)
        _qcache[qn] = b
    return b == suffix or b.endswith('::' + suffix)


class Program:
    def __init__(self):
        self.funcs = {}      # key -> Func
        self.by_qn = {}      # stripped qualified name -> [Func]
        self.records = {}    # qn -> record dict
        self.globals = {}    # qn -> dict
        self.aliases = {}    # qn -> dict
        self.units = []
        self.over_index = None

    def add_unit(self, obj):
        self.units.append(obj['unit'])
        for fd in obj['functions']:
            if fd['key'] in self.funcs:
                continue
            if 'blocks' not in fd:
                continue
            f = Func(fd, obj['unit'])
            self.funcs[f.key] = f
            self.by_qn.setdefault(strip_targs(f.qn), []).append(f)
        for r in obj['records']:
            self.records.setdefault(r['qn'], r)
        for g in obj['globals']:
            self.globals.setdefault(g['qn'], g)
        for a in obj['aliases']:
            self.aliases.setdefault(a['qn'], a)

    # ---- lookups
    def functions(self, suffix, file_contains=None):
        """functions whose stripped qualified name ends with suffix"""
        out = []
        for qn, fs in self.by_qn.items():
            if qn == suffix or qn.endswith('::' + suffix):
                for f in fs:
                    if file_contains and file_contains not in f.file:
                        continue
                    out.append(f)
        return out

    def function(self, suffix, **kw):
        fs = self.functions(suffix, **kw)
        if not fs:
            raise AnalysisBroken('anchor vanished: no definition of %s in the analysed units' % suffix)
        return fs[0]

    def record(self, suffix):
        for qn, r in self.records.items():
            b = strip_targs(qn)
            if b == suffix or b.endswith('::' + suffix):
                return r
        raise AnalysisBroken('anchor vanished: no class %s in the analysed units' % suffix)

    def records_matching(self, suffix):
        out = []
        for qn, r in self.records.items():
            b = strip_targs(qn)
            if b == suffix or b.endswith('::' + suffix):
                out.append(r)
        return out

    def methods_of(self, cls_qn):
        return [f for f in self.funcs.values() if f.cls == cls_qn]

    def derived_from(self, base_suffix, transitive=True):
        """records that (transitively) derive from a class whose stripped name ends with base_suffix"""
        def is_base(t):
            b = strip_targs(t)
            return b == base_suffix or b.endswith('::' + base_suffix)
        out = []
        memo = {}

        def derives(r, depth=0):
            q = r['qn']
            if q in memo:
                return memo[q]
            memo[q] = False
            res = False
            for b in r['bases']:
                if is_base(b['t']):
                    res = True
                    break
                if transitive and b['t'] in self.records and derives(self.records[b['t']], depth + 1):
                    res = True
                    break
            memo[q] = res
            return res
        for r in self.records.values():
            if derives(r):
                out.append(r)
        return out

    def overriders(self, method_key):
        """keys of methods that (transitively) override method_key, from record method tables"""
        if self.over_index is None:
            idx = {}
            for r in self.records.values():
                for m in r['methods']:
                    for o in m.get('over', ()):
                        idx.setdefault(o, set()).add(m['key'])
            for f in self.funcs.values():
                for o in f.d.get('over', ()):
                    idx.setdefault(o, set()).add(f.key)
            self.over_index = idx
        out = set()
        st = [method_key]
        while st:
            k = st.pop()
            for o in self.over_index.get(k, ()):
                if o not in out:
                    out.add(o)
                    st.append(o)
        return out


def load_program(units, variant=(), jobs=None, quiet=True):
    """Extract (in parallel, cached) and merge the given units."""
    jobs = jobs or int(os.environ.get('VERIF_JOBS') or 16)
    t0 = time.time()
    th = tree_hash()
    prog = Program()
    units = list(dict.fromkeys(units))
    with ThreadPoolExecutor(max_workers=jobs) as ex:
        objs = list(ex.map(lambda u: extract_unit(u, variant, cache_tag=th), units))
    for o in objs:
        prog.add_unit(o)
    prog.extract_s = time.time() - t0
    prune_cache()
    return prog
