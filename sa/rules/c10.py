"""C10 - contexts are immutable values and the runtime context is a per-thread stack."""
from ..ir import AnalysisBroken, strip_targs, qmatch
from ..graph import Graph
from ..expr import access_path, path_str, reaching_defs, norm_cond, origins, leaves, defs_in_node, is_transparent_call
from ..linear import linear, relation, fmt
from .common import strip_casts, short, comparison, same_class_inline, deparam, once_init

UNITS = []
DRIVERS = ['api_context.cc']
CANARIES = ['c10_canary.cc']

EXPLANATION = (
    'C10.R1 (who-may-write, root-of-access-path analysis): outside constructors, destructors and assignment operators of '
    'Context / its list node, no function of the context API writes a Context or a list node that is not rooted in a '
    'fresh local (constructed in the same call): no write through this, a parameter or a global, and no such object is '
    'handed to std::move (a move assignment empties its source). C10.R2 (storage facts): the stack object behind '
    'ThreadLocalContextStorage has thread storage duration in the preprocessor variant of the configured compiler '
    '(OPENTELEMETRY_HAVE_FEATURE pinned to what g++ 12 computes). C10.R3 (typestate/guards of the stack): Detach never pops '
    'on a path that returns false and pops on every path that returns true; the unwinding loop is driven by comparing the '
    'token with the current top; every search loop over the frames runs from the top down (most recent attachment first); '
    'Push increments, grows when size > capacity and writes slot size-1; Pop and Top are behind the not-empty edge; '
    'Resize copies min(old size, new capacity) frames into an array of the new capacity. C10.R4 (dominance): the token '
    'destructor detaches itself; Attach pushes the very context it builds the token from; Scope attaches '
    'GetCurrent().SetValue(span key, span).')
EXPLANATION += " C10.R3 also checks every caller of Stack::Resize (which keeps size_-1 frames) to come after the size_ increment. C10.R4: when the token destructor's Detach is conditional on token state, that state is only written behind a successful storage Detach. C10.R5: Context::GetValue returns a stored value only behind key.size() == key_length_ and memcmp(...) == 0 over that length."
EXPLANATION += ' C10.R3 treats the membership test (bool result) direction-agnostically - every attached frame must be examined, by a loop bounded by size_ or a standard algorithm over [base_, base_+size_) - and resolves slot writes through reference locals and copy bounds through once-initialised locals. C10.R4 follows the Scope constructor through private helpers.'
ROUND2_EXPLANATION = (' C10.R3 also: typestate of a successful Detach over the edge on which the token equals the current top: exactly one Pop follows it before return true. C10.R5 also: in every list walk of Context (GetValue; HasKey when it does not delegate) the next node is unreachable once the key comparison is pinned to equal.')
ROUND2_EXPLANATION += (" C10.R3 also: the slot Pop clears is the frame it removes (the index is read against the counter as it stands where the subscript is evaluated). C10.R6: Context::SetValue / SetValues store this context's head_ into the next_ link of the tail of the new chain on every path (a cursor is the tail behind the exit edge of its walk; a helper that returns such a cursor is summarised), and RuntimeContext::SetValue / GetValue work on *context behind the not-null outcome and on GetCurrent() behind the null outcome, never on an empty context. C10.R7: in the DataList constructors the allocated, recorded and copied key lengths are the same linear form. C10.R8: in the container constructor a cursor through which a node is linked is advanced to that node before the next link (template instantiated by the driver unit tu/api_context.cc).")
EXPLANATION += ROUND2_EXPLANATION
NOT_DECIDED = 'stack behaviour over arbitrary attach/detach sequences and depths; GetValue lookup order beyond the list shape.'

CTX = 'opentelemetry::context::Context'
NODE = 'opentelemetry::context::Context::DataList'


def _ctx_like(t):
    t = t or ''
    return 'context::Context' in t or 'Context::DataList' in t


def _fresh_locals(f, fresh_params=()):
    """locals of Context/list-node type whose every definition is a fresh construction, a copy of a fresh local's
    member, or a step along the link of a fresh local"""
    fresh = set()
    cand = {}
    for n in f.nodes:
        if n['k'] == 'declstmt':
            for d in n['decls']:
                if _ctx_like(d['t']):
                    cand[d['id']] = d
    changed = True
    while changed:
        changed = False
        for vid, d in cand.items():
            if vid in fresh:
                continue
            defs = []
            for n in f.nodes:
                for (v, strong, vx) in defs_in_node(f, n):
                    if v == vid:
                        defs.append((n, vx))
            ok = bool(defs)
            for (n, vx) in defs:
                if vx is None:
                    continue
                if vx == n['i'] and n['k'] != 'declstmt':
                    # modified through a call / by reference: still the same fresh object
                    continue
                x = strip_casts(f, vx)
                if x['k'] == 'construct':
                    if x.get('copymove') and x.get('args'):
                        p = access_path(f, x['args'][0])
                        if not (p[0].startswith('local:') and int(p[0].split(':')[1]) in fresh):
                            ok = False
                    # a non-copy construction is fresh
                elif x['k'] in ('member', 'call', 'ref'):
                    p = access_path(f, x['i'])
                    if p[0].startswith('param:') and p[0][6:] in fresh_params:
                        pass      # rooted in a by-value parameter that every caller fills with a fresh context
                    elif not (p[0].startswith('local:') and int(p[0].split(':')[1]) in (fresh | {vid})):
                        ok = False
                elif x['k'] == 'new':
                    pass
                else:
                    ok = False
            if ok:
                fresh.add(vid)
                changed = True
    return fresh


def rule_r1(ck, prog, scope_prefixes=('opentelemetry::context::', 'opentelemetry::trace::Scope', 'opentelemetry::trace::SetSpan',
                                      'opentelemetry::trace::GetSpan', 'opentelemetry::baggage::SetBaggage'),
            rule='C10.R1', only=None):
    cnt = 0
    for f in sorted(prog.funcs.values(), key=lambda x: (x.file, x.line)):
        q = strip_targs(f.qn)
        if only is not None:
            if not q.startswith(only):
                continue
        elif not any(q.startswith(p) for p in scope_prefixes) or q.startswith('canary::'):
            continue
        if f.kind in ('ctor', 'dtor', 'copyassign', 'moveassign'):
            continue
        if 'ThreadLocalContextStorage::Stack' in q:
            continue  # the stack owns its frames (array of Context values), checked by R3
        touches = any(_ctx_like(n.get('t')) for n in f.nodes)
        if not touches:
            continue
        cnt += 1
        # a by-value Context parameter of a private helper is a fresh context when every call site hands it a newly constructed
        # temporary (`Shadow(Context(values))`): the helper then completes the construction of that context
        fresh_params = set()
        if f.d.get('access') in ('private', 'protected'):
            for pi, prm in enumerate(f.params):
                if not _ctx_like(prm['t']) or prm['t'].rstrip().endswith(('&', '*')):
                    continue
                sites = [(cf, n) for cf in prog.funcs.values() for n in cf.nodes if n['k'] == 'call' and n.get('ck') == f.key]
                def fresh_arg(cf, n):
                    args = n.get('args', [])
                    if pi >= len(args) or args[pi] is None or args[pi] < 0:
                        return False
                    x = strip_casts(cf, args[pi])
                    for _ in range(3):
                        if x['k'] == 'construct' and x.get('copymove') and len(x.get('args', [])) == 1:
                            x = strip_casts(cf, x['args'][0])       # the move into the parameter
                    return x['k'] == 'construct' and not x.get('copymove')
                if sites and all(fresh_arg(cf, n) for (cf, n) in sites):
                    fresh_params.add(prm['name'])
        fresh = _fresh_locals(f, fresh_params)
        bad = None

        def rooted_ok(path):
            r = path[0]
            if r.startswith('local:'):
                return int(r.split(':')[1]) in fresh or not True
            if r.startswith('fresh:') or r.startswith('call:'):
                return True
            return False
        for n in f.nodes:
            tgt = None
            what = None
            if n['k'] == 'binop' and n['op'] == '=' or (n['k'] == 'call' and n.get('op') == '=' and n.get('obj') is not None):
                lhs = n['lhs'] if n['k'] == 'binop' else n['obj']
                ln = f.nodes[lhs]
                p = access_path(f, lhs)
                lt = ln.get('t') or ''
                involves = _ctx_like(lt) or (len(p) >= 2 and p[-1] in ('head_', 'next_', 'value_', 'key_', 'key_length_'))
                if involves and ln['k'] != 'ref':
                    tgt, what = p, 'writes %s' % path_str(p)
                elif involves and ln['k'] == 'ref' and ln.get('sk') == 'param' and \
                        any(pp['id'] == ln.get('id') and pp['t'].rstrip().endswith('&') for pp in f.params):
                    # (a by-value parameter is a local of the callee: re-pointing it changes no context)
                    tgt, what = p, 'assigns to parameter %s' % ln['name']
            elif n['k'] == 'call' and is_transparent_call(n) and strip_targs(n.get('c', '')) == 'std::move' and n.get('args'):
                a = f.nodes[n['args'][0]]
                if _ctx_like(a.get('t')):
                    p = access_path(f, n['args'][0])
                    tgt, what = p, 'hands %s to std::move (the move empties its source)' % path_str(p)
            elif n['k'] == 'call' and n.get('obj') is not None and not n.get('cconst'):
                last = strip_targs(n.get('c', '')).rsplit('::', 1)[-1]
                if last in ('reset', 'swap', 'release') and _ctx_like(f.nodes[n['obj']].get('t')):
                    p = access_path(f, n['obj'])
                    tgt, what = p, 'calls %s on %s' % (last, path_str(p))
            if tgt is None:
                continue
            root = tgt[0]
            ok = False
            if root.startswith('local:'):
                vid = int(root.split(':')[1])
                # a plain local of Context type that is only a copy target is fine when the write is to the local itself
                ok = vid in fresh or len(tgt) == 1
            elif root.startswith('fresh:') or root.startswith('call:'):
                ok = True
            elif root.startswith('param:') and root[6:] in fresh_params:
                ok = True
            if not ok:
                bad = (n, what)
                break
        if bad:
            ck.violation(rule, f, 'no-write-to-existing-context', bad[0],
                         '%s %s, which is not rooted in a context created in this call: a Context that was handed out earlier changes after creation' % (short(f), bad[1]))
        else:
            ck.holds(rule, f, 'no-write-to-existing-context', None, 'all Context/list-node writes are rooted in fresh locals (%d)' % len(fresh))
    return cnt


def rule_r2(ck, prog, rule='C10.R2'):
    st = [g for g in prog.globals.values() if g.get('in_fn', '').startswith('opentelemetry::context::ThreadLocalContextStorage::GetStack')]
    if not st:
        raise AnalysisBroken('storage behind ThreadLocalContextStorage::GetStack not found')

    class _G:
        qn = st[0]['qn']
        def loc(self, n=None):
            return '%s:%d' % (st[0]['file'].replace('/repo/', ''), st[0]['line'])
    ok = all(g['storage'] == 'thread' for g in st)
    ck.verdict(ok, rule, _G(), 'stack-thread-local', None,
               'the context stack has thread storage duration' if ok else
               'in the configured compiler variant the runtime context stack is a process-wide static: what one thread attaches is visible to (and raced by) every other thread')
    # GetStack returns that object
    f = prog.function('ThreadLocalContextStorage::GetStack')
    g = Graph(prog, f, inline=None, sync_lambdas=False)
    rets = g.returns()
    ok = bool(rets) and all(strip_casts(f, r.n['e']).get('sk') in ('tls',) for r in rets)
    ck.verdict(ok, rule, f, 'getstack-returns-thread-local', rets[0].n if rets else None,
               'GetStack returns the thread-local object' if ok else 'GetStack can return an object that is not thread-local')


def rule_r3(ck, prog, rule='C10.R3', cls='opentelemetry::context::ThreadLocalContextStorage'):
    # ---- Detach
    f = prog.function(cls.split('opentelemetry::')[-1] + '::Detach')
    g = Graph(prog, f, inline=None, sync_lambdas=False)
    pops = g.calls('Stack::Pop')
    rets = g.returns()
    if not pops or not rets:
        raise AnalysisBroken('Detach: Pop/returns not found')
    for rp in rets:
        v = strip_casts(f, rp.n['e']).get('v')
        after_pop = any(rp.id in g.reachable_from([q for (q, _l) in p.succ]) for p in pops)
        if v == 0:
            ck.verdict(not after_pop, rule, f, 'detach-false-pops-nothing', rp.n,
                       'no Pop on any path that returns false' if not after_pop else 'a foreign token (Detach returns false) can still pop frames')
        elif v == 1:
            ok = g.must_pass(rp, pops)
            if not ok:
                # frames may be removed through another mutating member of the stack (an index-based unwind helper): a different
                # algorithm than the one the rules model - say so instead of guessing
                other = [p for p in g.points if p.n is not None and p.n['k'] == 'call' and 'ThreadLocalContextStorage::Stack::' in strip_targs(p.n.get('c', '')) and
                         not p.n.get('cconst') and strip_targs(p.n['c']).rsplit('::', 1)[-1] not in ('Pop', 'Push', 'Top', 'Contains')]
                if other and g.must_pass(rp, pops + other):
                    ck.inconclusive(rule, f, 'detach-true-pops', rp.n, 'frames are removed through Stack::%s, a helper this rule does not model' % strip_targs(other[0].n['c']).rsplit('::', 1)[-1])
                    continue
            ck.verdict(ok, rule, f, 'detach-true-pops', rp.n, 'every path returning true pops' if ok else 'Detach can return true without restoring the previous context')
    # typestate of a successful Detach: the frame that is popped last is the token's own frame - after the comparison of the token with
    # the current top came out "equal", exactly one more Pop happens before `return true` (none: the released context stays current;
    # two: the context below is lost as well)
    def match_edge(a, b, lab):
        if not lab or not isinstance(lab[0], int):
            return False
        core, pol = norm_cond(lab[1], lab[0])
        cn = lab[1].nodes[core]
        if cn['k'] == 'call' and cn.get('op') in ('==', '!=') and any(lab[1].nodes[i]['k'] == 'call' and qmatch(lab[1].nodes[i].get('c', ''), 'Stack::Top') for i in lab[1].subtree(core)):
            truth = lab[2] if pol else (not lab[2])
            return truth is (cn['op'] == '==')
        return False
    matched = [q for p_ in g.points for (q, lab) in p_.succ if match_edge(p_, q, lab)]
    for rp in rets:
        if strip_casts(f, rp.n['e']).get('v') != 1:
            continue
        why = None
        helpers_ = [p_ for p_ in g.points if p_.n is not None and p_.n['k'] == 'call' and 'ThreadLocalContextStorage::Stack::' in strip_targs(p_.n.get('c', '')) and
                    not p_.n.get('cconst') and strip_targs(p_.n['c']).rsplit('::', 1)[-1] not in ('Pop', 'Push', 'Top', 'Contains')]
        if any(rp.id in g.reachable_from([q for (q, _l) in h_.succ]) for h_ in helpers_):
            # an index-based unwind (depth search, then "pop down to n frames") is another algorithm: there is no token == Top() edge to
            # hang the typestate on
            ck.inconclusive(rule, f, 'detach-pops-exactly-the-token-frame', rp.n, 'frames are removed through Stack::%s, a helper this rule does not model' %
                            strip_targs(helpers_[0].n['c']).rsplit('::', 1)[-1])
            continue
        if not matched or not g.must_pass_edge(rp, match_edge):
            why = 'Detach can return true without the token having been found on top of the stack'
        else:
            for b in matched:
                if rp.id in g.reachable_from([b], avoid=pops):
                    why = 'after the unwinding has brought the token\'s frame to the top, Detach returns true without popping it: the detached context stays current'
                    break
            if why is None:
                for b in matched:
                    first = [p_ for p_ in pops if p_.id in g.reachable_from([b], avoid=[x for x in pops if x is not p_])]
                    for p_ in first:
                        more = g.reachable_from([q for (q, _l) in p_.succ], avoid_edges=match_edge)
                        if any(x.id in more for x in pops) and rp.id in more:
                            why = 'more than one frame is popped after the token\'s frame was found on top: the context attached before it is lost as well'
        ck.verdict(why is None, rule, f, 'detach-pops-exactly-the-token-frame', rp.n,
                   'token found on top, then exactly one Pop, then return true' if why is None else why)
    # the unwinding loop is driven by token == Top()
    loops = [n for n in f.nodes if n['k'] in ('while', 'do', 'for')]
    for lp in loops:
        body_pops = [i for i in f.subtree(lp['body']) if f.nodes[i]['k'] == 'call' and qmatch(f.nodes[i].get('c', ''), 'Stack::Pop')]
        if not body_pops:
            continue
        core, pol = norm_cond(f, lp['cnd'])
        calls = {strip_targs(f.nodes[i].get('c', '')).rsplit('::', 1)[-1] for i in f.subtree(core) if f.nodes[i]['k'] == 'call'}
        ok = 'Top' in calls and ('operator==' in calls or 'operator!=' in calls) and (pol is False if 'operator==' in calls else pol is True)
        ck.verdict(ok, rule, f, 'unwind-until-top-matches', lp,
                   'unwinding pops while the token differs from the current top' if ok else
                   'the unwinding loop is not driven by comparing the token with the current top: it can stop at an older attachment of the same context or pop too much')
        # the unwinding only starts for a token known to be on the stack (membership test)
        def member_edge(a, b, lab):
            if not lab or not isinstance(lab[0], int):
                return False
            c2, p2 = norm_cond(lab[1], lab[0])
            cn = lab[1].nodes[c2]
            if cn['k'] == 'call' and strip_targs(cn.get('c', '')).rsplit('::', 1)[-1] in ('Contains', 'Find'):
                return (lab[2] if p2 else not lab[2]) is True
            return False
        lpts = [g.point_of.get((id(g.root_ctx), i)) for i in body_pops]
        ok = all(pt is not None and g.must_pass_edge(pt, member_edge) for pt in lpts)
        ck.verdict(ok, rule, f, 'unwind-only-member-token', lp,
                   'unwinding is behind the membership test' if ok else
                   'the unwinding loop can start for a token that is not on the stack (foreign token): it pops everything and never finds a match')
    # ---- frame search loops run from the top down
    srec = prog.record(cls.split('opentelemetry::')[-1] + '::Stack')
    for sf in [x for x in prog.funcs.values() if x.cls == srec['qn']]:
        for lp in [n for n in sf.nodes if n['k'] in ('for', 'while')]:
            body = sf.subtree(lp['body'])
            cmp_token = [i for i in body if sf.nodes[i]['k'] == 'call' and sf.nodes[i].get('op') in ('==', '!=') and
                         any('Token' in (sf.nodes[a].get('t') or '') for a in ([sf.nodes[i].get('obj')] if sf.nodes[i].get('obj') is not None else []) + sf.nodes[i].get('args', []))]
            if not cmp_token:
                continue
            if (sf.d.get('ret') or '') == 'bool':
                # a membership test: the direction is irrelevant, every attached frame has to be examined
                bounds = set()
                for part in ('init', 'cnd'):
                    if lp.get(part) is not None and lp[part] >= 0:
                        bounds |= {l[1] for l in leaves(sf, lp[part], follow_locals=True) if l[0] == 'field'}
                ok = any(b.endswith('size_') for b in bounds)
                ck.verdict(ok, rule, sf, 'search-most-recent-first', lp, 'the membership test examines all size_ frames' if ok else
                           'the membership test is not bounded by the number of attached frames: tokens of live attachments are not found (Detach refuses them)')
                continue
            inc = lp.get('inc')
            down = False
            start_top = False
            if inc is not None:
                inn = sf.nodes[inc]
                down = (inn['k'] == 'unop' and inn['op'] == '--') or (inn['k'] == 'binop' and inn['op'] == '-=')
            init = lp.get('init')
            if init is not None:
                lv = leaves(sf, init, follow_locals=False)
                start_top = any(l[0] == 'field' and l[1].endswith('size_') for l in lv)
            ok = down and start_top
            ck.verdict(ok, rule, sf, 'search-most-recent-first', lp,
                       'frame search runs from the top of the stack down' if ok else
                       'a frame search that compares the token runs from the bottom up: a context attached twice is matched at its oldest attachment')
        if (sf.d.get('ret') or '') == 'bool' and not [n for n in sf.nodes if n['k'] in ('for', 'while')]:
            # the same membership test written with a standard algorithm over [base_, base_ + size_)
            for n in sf.nodes:
                if n['k'] == 'call' and strip_targs(n.get('c', '')) in ('std::any_of', 'std::none_of', 'std::find', 'std::find_if', 'std::count', 'std::count_if') and len(n.get('args', [])) >= 3:
                    flds = {l[1].rsplit('.', 1)[-1] for a in n['args'][:2] for l in leaves(sf, a, follow_locals=True) if l[0] == 'field'}
                    tok = any('Token' in (m.get('t') or '') or 'Context' in (m.get('t') or '') for a in n['args'][2:] for m in
                              [x for i in sf.subtree(a) for x in ([sf.nodes[i]] + (prog.funcs[sf.nodes[i]['fn']].nodes if sf.nodes[i]['k'] == 'lambda' and sf.nodes[i].get('fn') in prog.funcs else []))])
                    if tok:
                        ok = 'size_' in flds and 'base_' in flds
                        ck.verdict(ok, rule, sf, 'search-most-recent-first', n, 'the membership test examines all size_ frames (%s)' % strip_targs(n['c']) if ok else
                                   'the membership test is not over [base_, base_ + size_): tokens of live attachments are not found (Detach refuses them)')
    # ---- Push / Pop / Top / Resize
    push = prog.function('ThreadLocalContextStorage::Stack::Push')
    g = Graph(prog, push, inline=None, sync_lambdas=False)
    rd = reaching_defs(g)
    incs = [p for p in g.points if p.n is not None and p.n['k'] == 'unop' and p.n['op'] == '++' and access_path(push, p.n['e']) == ('this', 'size_')] + \
           [p for p in g.points if p.n is not None and p.n['k'] == 'binop' and p.n['op'] == '+=' and access_path(push, p.n['lhs']) == ('this', 'size_')]
    writes = [p for p in g.points if p.n is not None and p.n['k'] == 'call' and p.n.get('op') == '=' and p.n.get('obj') is not None and
              once_init(push, p.n['obj'])['k'] == 'subscript']
    resz = g.calls('Stack::Resize')
    # Push stores into the first free slot and counts the frame exactly once. k(p) = how many increments of size_ have happened before
    # point p (0 or 1 on every path): the slot index has to be size_ - k(write) (the old size), the growth guard has to say
    # "old size reached the capacity" (size_ - k(guard) >= / == capacity_), and Resize - which keeps size_ - k_r frames - has to be
    # called with k(call) == k_r. Both the count-then-store and the store-then-count form satisfy this.
    def k_at(p):
        if g.must_pass(p, incs):
            return 1
        if not any(p.id in g.reachable_from([q for (q, _l) in i_.succ]) for i_ in incs):
            return 0
        return None
    ok = len(incs) >= 1 and len(writes) == 1 and len(resz) == 1
    why = 'increment / slot write / Resize not found'
    if ok:
        # exactly one increment on every path
        once = g.exit.id not in g.reachable_from(g.entry, avoid=incs) and \
            not any(b_.id in g.reachable_from([q for (q, _l) in a_.succ]) for a_ in incs for b_ in incs)
        w = writes[0]
        sub = once_init(push, w.n['obj'])
        lin = linear(g, rd, push, sub['index'], w.ctx)
        kw = k_at(g.point_of.get((id(g.root_ctx), sub['i']), w))   # the slot is selected where the subscript is evaluated
        ok = once and kw is not None and lin == ({'this.size_': 1, '1': -1} if kw == 1 else {'this.size_': 1})
        why = 'one increment per path: %s; slot index %s with %s increment(s) before the write' % (once, fmt(lin), kw)
        if ok:
            kc = k_at(resz[0])

            def grow_edge(a, b, lab):
                if not lab or not isinstance(lab[0], int):
                    return False
                rel = relation(g, rd, lab[1], lab[0], a.ctx, lab[2])
                want = frozenset({('this.size_', 1), ('this.capacity_', -1)} | ({('1', -1)} if kc == 1 else set()))
                return rel in (('>=0', want), ('==0', want), ('==0', frozenset((s_, -c_) for (s_, c_) in want)))
            ok = kc is not None and g.must_pass_edge(resz[0], grow_edge)
            # the write is not reachable around Resize except over the other outcome of that very guard
            def no_grow_edge(a, b, lab):
                if not lab or not isinstance(lab[0], int):
                    return False
                return grow_edge(a, b, (lab[0], lab[1], not lab[2]))
            r = g.reachable_from(g.entry, avoid=resz, avoid_edges=no_grow_edge)
            ok = ok and w.id not in r
            why = 'Resize guarded by "old size reached capacity" with %s increment(s) before it: %s' % (kc, ok)
    if not ok and not (len(incs) >= 1 and len(writes) == 1 and len(resz) == 1):
        # the counter is not advanced by ++ / += (e.g. `size_ = required;`), or slot write / Resize are arranged differently: the
        # relational model of this rule (number of pending increments) does not apply - not decided
        ck.inconclusive(rule, push, 'push-shape', writes[0].n if writes else None, 'Push does not advance size_ by an increment / has no single slot write and Resize call: the pending-increment model does not apply')
    else:
        ck.verdict(ok, rule, push, 'push-shape', writes[0].n if writes else None,
               'one increment per path; first free slot written; grows exactly when the old size reached the capacity' if ok else
               'Push does not count once, store into the first free slot and grow when the old size reached the capacity (%s): frames are overwritten or written out of bounds' % why)
    for name in ('Pop', 'Top'):
        sf = prog.function('ThreadLocalContextStorage::Stack::' + name)
        g = Graph(prog, sf, inline=None, sync_lambdas=False)
        rd = reaching_defs(g)
        subs = [p for p in g.points if p.n is not None and p.n['k'] == 'subscript']

        def nonempty_edge(a, b, lab):
            if not lab or not isinstance(lab[0], int):
                return False
            rel = relation(g, rd, lab[1], lab[0], a.ctx, lab[2])
            return rel in (('!=0', frozenset({('this.size_', 1)})), ('>=0', frozenset({('this.size_', 1), ('1', -1)})))
        ok = bool(subs) and all(g.must_pass_edge(p, nonempty_edge) for p in subs) and \
            (name == 'Pop' or all(linear(g, rd, sf, p.n['index'], p.ctx) == {'this.size_': 1, '1': -1} for p in subs))
        if name == 'Pop':
            decs = [p for p in g.points if p.n is not None and ((p.n['k'] == 'binop' and p.n['op'] == '-=') or (p.n['k'] == 'unop' and p.n['op'] == '--'))
                    and access_path(sf, p.n.get('lhs', p.n.get('e'))) == ('this', 'size_')]
            ok = ok and len(decs) == 1 and g.must_pass_edge(decs[0], nonempty_edge)
            if ok:
                # the slot that is cleared is the frame that is removed: the index is written in terms of the counter as it stands
                # where the subscript is evaluated, so a subscript behind the decrement has to read size_ (not size_ - 1)
                after = g.reachable_from([q for (q, _l) in decs[0].succ])
                for sp_ in subs:
                    lin = linear(g, rd, sf, sp_.n['index'], sp_.ctx)
                    if sp_.id in after:
                        ok = ok and g.must_pass(sp_, decs) and lin == {'this.size_': 1}
                    else:
                        ok = ok and lin == {'this.size_': 1, '1': -1}
        if not subs:
            ck.inconclusive(rule, sf, '%s-behind-not-empty' % name.lower(), None, '%s does not address the top frame by a subscript (a pointer / helper is used): not decided' % name)
            continue
        ck.verdict(ok, rule, sf, '%s-behind-not-empty' % name.lower(), subs[0].n if subs else None,
                   '%s touches slot size_-1 only behind the not-empty edge' % name if ok else
                   '%s can touch a slot of an empty stack or a slot other than size_-1' % name)
    rz = prog.function('ThreadLocalContextStorage::Stack::Resize')
    g = Graph(prog, rz, inline=None, sync_lambdas=False)
    rd = reaching_defs(g)
    news = [n for n in rz.nodes if n['k'] == 'new' and 'size' in n]
    lp, mn = _resize_copy_bound(rz)
    loops = [lp] if lp is not None else []
    ok = len(news) == 1 and mn is not None
    if ok:
        names = set()
        for a in mn['args'][:2]:
            names |= {rz.nodes[i]['name'] for i in rz.subtree(a) if rz.nodes[i]['k'] == 'ref' and rz.nodes[i].get('sk') in ('local', 'param')}
        cap = [p['name'] for p in rz.params]
        ok = len(names) == 2 and any(c in names for c in cap)
    ck.verdict(ok, rule, rz, 'resize-copies-min', loops[0] if loops else None,
               'copies min(old size, new capacity) frames' if ok else 'Resize does not copy min(old size, new capacity) frames into the new array: frames are lost or read out of bounds')


def rule_r4(ck, prog, rule='C10.R4'):
    f = prog.function('context::Token::~Token')
    calls = [n for n in f.nodes if n['k'] == 'call' and qmatch(n.get('c', ''), 'RuntimeContext::Detach')]
    ok = len(calls) == 1 and access_path(f, calls[0]['args'][0]) == ('this',)
    ck.verdict(ok, rule, f, 'token-dtor-detaches-itself', calls[0] if calls else None,
               'destructor detaches *this' if ok else 'the token destructor does not detach its own token: a released Scope leaves its span active')
    f = prog.function('ThreadLocalContextStorage::Attach')
    g = Graph(prog, f, inline=None, sync_lambdas=False)
    push = g.calls('Stack::Push')
    tok = g.calls('RuntimeContextStorage::CreateToken')
    ok = len(push) == 1 and len(tok) == 1 and strip_casts(f, push[0].n['args'][0]).get('id') == f.params[0]['id'] and \
        strip_casts(f, tok[0].n['args'][0]).get('id') == f.params[0]['id'] and g.exit.id not in g.reachable_from(g.entry, avoid=push)
    ck.verdict(ok, rule, f, 'attach-pushes-token-context', push[0].n if push else None,
               'Attach pushes the context it builds the token from' if ok else 'Attach does not push exactly the context recorded in the token: Detach can never match it')
    f = prog.function('trace::Scope::Scope')
    g = Graph(prog, f, inline=same_class_inline(prog, f.cls), sync_lambdas=False)
    rd = reaching_defs(g)
    attp = g.calls('RuntimeContext::Attach')
    att = [p.n for p in attp]
    ok = len(attp) == 1
    if ok:
        ap = attp[0]
        svs = [(sf, sn, sc) for (sf, sn, sc) in origins(g, rd, ap.f, ap.n['args'][0], ap.ctx) if sn['k'] == 'call' and qmatch(sn.get('c', ''), 'Context::SetValue')]
        srcs = origins(g, rd, ap.f, ap.n['args'][0], ap.ctx)
        ok = len(svs) == 1 and len(srcs) == 1
        if ok:
            sf, sn, sc = svs[0]
            base = origins(g, rd, sf, sn['obj'], sc) if sn.get('obj') is not None else []
            ok = bool(base) and all(bn['k'] == 'call' and strip_targs(bn.get('c', '')).endswith(('RuntimeContext::GetCurrent', 'RuntimeContextStorage::GetCurrent')) for (bf, bn, bc) in base)
            if ok:
                a0 = [sf.nodes[i] for i in sf.subtree(sn['args'][0])]
                vf, vi, vc = deparam(sf, sn['args'][1], sc)
                for _ in range(4):
                    vn = strip_casts(vf, vi)
                    if vn['k'] in ('construct', 'call') and len([a for a in vn.get('args', []) if a is not None and a >= 0]) == 1 and vn.get('obj') is None:
                        vf, vi, vc = deparam(vf, [a for a in vn['args'] if a is not None and a >= 0][0], vc)
                    else:
                        break
                vn = strip_casts(vf, vi)
                ok = any(n['k'] == 'ref' and n['name'] == 'kSpanKey' for n in a0) and vf is f and vn['k'] == 'ref' and vn.get('id') == f.params[0]['id']
    ck.verdict(ok, rule, f, 'scope-attaches-span-on-current', att[0] if att else None,
               'Scope attaches GetCurrent().SetValue(kSpanKey, span)' if ok else 'Scope does not attach the current context extended with the span under the span key')



def _resize_copy_bound(rz):
    """(copy loop, the std::min call that bounds it) of Resize: a for/while loop whose condition is `i < std::min(a, b)`, the bound
    possibly held in a local initialised once"""
    for lp in [n for n in rz.nodes if n['k'] in ('for', 'while') and n.get('cnd') is not None and n['cnd'] >= 0]:
        cond = comparison(rz, lp['cnd'])
        if not cond or cond[0] not in ('<', '!='):
            continue
        b = once_init(rz, cond[2])
        if b['k'] == 'call' and strip_targs(b.get('c', '')) == 'std::min' and len(b.get('args', [])) >= 2:
            return lp, b
    return None, None


def rule_r3_resize_callers(ck, prog, rule='C10.R3'):
    """Resize keeps size_-1 frames (it is written for Push, which has already counted the frame it is about to store): every call of
    Resize has to come after the size_ increment of the same function, with no decrement in between."""
    rz = prog.function('ThreadLocalContextStorage::Stack::Resize')
    g = Graph(prog, rz, inline=None, sync_lambdas=False)
    rd = reaching_defs(g)
    k_r = None
    lp, mn = _resize_copy_bound(rz)
    if mn is not None:
        for a in mn['args'][:2]:
            for j in [a] + list(rz.subtree(a)):
                lin = linear(g, rd, rz, j, g.root_ctx)
                if lin == {'this.size_': 1, '1': -1}:
                    k_r = 1
                elif lin == {'this.size_': 1} and k_r is None:
                    k_r = 0
    cnt = 0
    for f in sorted(prog.funcs.values(), key=lambda x: x.key):
        calls = [n for n in f.nodes if n['k'] == 'call' and qmatch(n.get('c', ''), 'ThreadLocalContextStorage::Stack::Resize')]
        if not calls:
            continue
        fg = Graph(prog, f, inline=None, sync_lambdas=False)
        incs = [p for p in fg.points if p.n is not None and ((p.n['k'] == 'unop' and p.n['op'] == '++' and access_path(f, p.n['e']) == ('this', 'size_')) or
                                                          (p.n['k'] == 'binop' and p.n['op'] == '+=' and access_path(f, p.n['lhs']) == ('this', 'size_')))]
        decs = [p for p in fg.points if p.n is not None and ((p.n['k'] == 'unop' and p.n['op'] == '--' and access_path(f, p.n['e']) == ('this', 'size_')) or
                                                          (p.n['k'] == 'binop' and p.n['op'] in ('-=', '=') and access_path(f, p.n['lhs']) == ('this', 'size_')))]
        for c in calls:
            cnt += 1
            cp = fg.point_of.get((id(fg.root_ctx), c['i']))
            if k_r is None:
                ck.inconclusive(rule, f, 'resize-caller-counts-new-frame@%s' % f.name, c, 'number of frames Resize keeps not recognised as size_ or size_-1')
                continue
            if k_r == 0:
                # Resize keeps size_ frames: size_ has to be the number of live frames at the call (no pending increment, and no
                # decrement whose frame is still stored is irrelevant here: fewer frames than stored are never kept)
                ok = cp is not None and not any(cp.id in fg.reachable_from([q for (q, _l) in i.succ]) for i in incs)
                ck.verdict(ok, rule, f, 'resize-caller-counts-new-frame@%s' % f.name, c,
                           'Resize (keeps size_ frames) is called where size_ is the number of stored frames' if ok else
                           'Resize keeps size_ frames, but %s calls it after having counted a frame that is not stored yet: an uninitialised slot is copied / the count is off by one' % f.name)
                continue
            ok = cp is not None and bool(incs) and fg.must_pass(cp, incs) and \
                not any(cp.id in fg.reachable_from([q for (q, _l) in d.succ]) and any(d.id in fg.reachable_from([q for (q, _l) in i.succ]) for i in incs) for d in decs) and \
                not (decs and not incs)
            ck.verdict(ok, rule, f, 'resize-caller-counts-new-frame@%s' % f.name, c,
                       'Resize (keeps size_-1 frames) is called after size_ was incremented for the frame being pushed' if ok else
                       'Resize keeps size_-1 frames, but %s calls it where size_ is the number of live frames: the frame that just became current is not copied and the current context becomes empty' % f.name)
    if not cnt:
        raise AnalysisBroken('no caller of Stack::Resize found')


def rule_r4_token_flag(ck, prog, rule='C10.R4'):
    """when the token destructor's detach is conditional on token state, that state is only set once the storage detached the token"""
    f = prog.function('context::Token::~Token')
    g = Graph(prog, f, inline=None, sync_lambdas=False)
    det = g.calls('RuntimeContext::Detach')
    if not det:
        return
    if g.exit.id not in g.reachable_from(g.entry, avoid=det):
        ck.holds(rule, f, 'token-dtor-detach-unconditional', det[0].n, 'every path through the destructor detaches')
        return
    fields = set()
    for p in g.points:
        for (q, lab) in p.succ:
            if lab and isinstance(lab[0], int) and lab[1] is f:
                for l in leaves(f, lab[0]):
                    if l[0] == 'field':
                        fields.add(l[1].split('.')[-1])
    if not fields:
        ck.violation(rule, f, 'token-dtor-detach-unconditional', det[0].n, 'the token destructor can skip Detach on a condition that is not token state')
        return
    trec = prog.record('context::Token')
    for fld in sorted(fields):
        bad = None
        nw = 0
        for wf in prog.funcs.values():
            for n in wf.nodes:
                tgt = None
                if n['k'] == 'binop' and n['op'] == '=':
                    tgt = wf.nodes[n['lhs']]
                if tgt is None or tgt['k'] != 'member' or tgt['name'] != fld or trec['qn'] not in (tgt.get('owner') or ''):
                    continue
                nw += 1
                wg = Graph(prog, wf, inline=None, sync_lambdas=False)
                wp = wg.point_of.get((id(wg.root_ctx), n['i']))

                def detached_ok(a, b, lab):
                    if not lab or not isinstance(lab[0], int):
                        return False
                    core, pol = norm_cond(lab[1], lab[0])
                    cn = lab[1].nodes[core]
                    names = {strip_targs(lab[1].nodes[j].get('c', '')).rsplit('::', 1)[-1] for j in lab[1].subtree(core) if lab[1].nodes[j]['k'] == 'call'}
                    if cn['k'] == 'ref' and cn.get('sk') == 'local':
                        for (sf, sn, sc) in origins(wg, reaching_defs(wg), lab[1], core, a.ctx):
                            names |= {strip_targs(sf.nodes[j].get('c', '')).rsplit('::', 1)[-1] for j in sf.subtree(sn['i']) if sf.nodes[j]['k'] == 'call'}
                    return 'Detach' in names and (lab[2] if pol else not lab[2]) is True
                if wp is None or not wg.must_pass_edge(wp, detached_ok):
                    bad = (wf, n)
        if bad:
            ck.violation(rule, bad[0], 'token-flag-set-only-after-detach:%s' % fld, bad[1],
                         'Token::%s makes the destructor skip Detach, and it is set without the storage having detached the token: a failed Detach (foreign thread) marks the token, its owner never pops the frame' % fld)
        elif nw:
            ck.holds(rule, f, 'token-flag-set-only-after-detach:%s' % fld, det[0].n, '%s is only set behind a successful storage Detach' % fld)
        else:
            ck.violation(rule, f, 'token-dtor-detach-unconditional', det[0].n, 'the token destructor skips Detach on %s, which nothing sets' % fld)


def rule_r5(ck, prog, rule='C10.R5'):
    """a lookup returns a node's value only for an exactly equal key: equal length and equal bytes over that length"""
    f = prog.function('context::Context::GetValue')
    g = Graph(prog, f, inline=None, sync_lambdas=False)
    key = f.params[0]
    hits = [r for r in g.returns() if any(f.nodes[j]['k'] == 'member' and f.nodes[j]['name'] == 'value_' for j in f.subtree(r.n['e']))]
    if not hits:
        raise AnalysisBroken('Context::GetValue: the return of a stored value was not found')

    def is_key_size(idx):
        n = strip_casts(f, idx)
        return n['k'] == 'call' and strip_targs(n.get('c', '')).rsplit('::', 1)[-1] in ('size', 'length') and n.get('obj') is not None and strip_casts(f, n['obj']).get('id') == key['id']

    def is_len_field(idx):
        n = strip_casts(f, idx)
        return n['k'] == 'member' and n['name'] == 'key_length_'

    def len_edge(a, b, lab):
        if not lab or not isinstance(lab[0], int):
            return False
        core, pol = norm_cond(lab[1], lab[0])
        c = comparison(f, core)
        if not c or c[0] not in ('==', '!='):
            return False
        if (is_key_size(c[1]) and is_len_field(c[2])) or (is_key_size(c[2]) and is_len_field(c[1])):
            return (lab[2] if pol else not lab[2]) is (c[0] == '==')
        return False
    kinds = {}

    def bytes_edge(a, b, lab):
        if not lab or not isinstance(lab[0], int):
            return False
        core, pol = norm_cond(lab[1], lab[0])
        c = comparison(f, core)
        truth = (lab[2] if pol else not lab[2])
        if c and c[0] in ('==', '!='):
            l, r = strip_casts(f, c[1]), strip_casts(f, c[2])
            if r['k'] == 'call':
                l, r = r, l
            if l['k'] == 'call' and r.get('v') == 0:
                name = strip_targs(l.get('c', '')).rsplit('::', 1)[-1]
                if name in ('memcmp', 'strncmp', 'strcmp') and truth is (c[0] == '=='):
                    kinds[name] = l
                    if name == 'memcmp' and len(l['args']) == 3 and (is_len_field(l['args'][2]) or is_key_size(l['args'][2])):
                        return True
        return False
    # the not-found answer is only given once the list is exhausted: the default return is behind the edge on which the node pointer
    # is null (a loop that also stops at a node without key hides every older binding below an empty SetValues)
    misses = [r for r in g.returns() if r not in hits]
    node_vars = {d['id'] for n in f.nodes if n['k'] == 'declstmt' for d in n['decls'] if 'DataList' in d['t'] and '*' in d['t']}

    def exhausted(a, b, lab):
        if not lab or not isinstance(lab[0], int):
            return False
        core, pol = norm_cond(lab[1], lab[0])
        truth = (lab[2] if pol else not lab[2])
        cn = strip_casts(f, core)
        if cn['k'] == 'ref' and cn.get('id') in node_vars:
            return truth is False
        c = comparison(f, core)
        if c and c[0] in ('==', '!='):
            l, r2 = strip_casts(f, c[1]), strip_casts(f, c[2])
            if r2['k'] == 'ref':
                l, r2 = r2, l
            if l['k'] == 'ref' and l.get('id') in node_vars and (r2.get('v') == 0 or r2['k'] in ('nullptr', 'CXXNullPtrLiteralExpr', 'lit')):
                return truth is (c[0] == '==')
        return False
    for r in misses:
        ok = bool(node_vars) and g.must_pass_edge(r, exhausted)
        ck.verdict(ok, rule, f, 'not-found-only-after-whole-list', r.n, 'the default value is returned only behind the edge on which the node pointer is null' if ok else
                   'the lookup can give up before the end of the list (a loop exit other than "node == nullptr"): bindings below that node are lost, e.g. everything bound before an empty SetValues')
    for r in hits:
        okl = g.must_pass_edge(r, len_edge)
        okb = g.must_pass_edge(r, bytes_edge)
        inexact = [k for k in kinds if k != 'memcmp']
        if okl and okb:
            ck.holds(rule, f, 'lookup-exact-key', r.n, 'a stored value is returned only behind key.size() == key_length_ and memcmp(...) == 0 over that length')
        elif not okb and not kinds:
            ck.inconclusive(rule, f, 'lookup-exact-key', r.n, 'key comparison idiom not recognised')
        else:
            ck.violation(rule, f, 'lookup-exact-key', r.n,
                         'a stored value is returned for a key that is not exactly equal: %s' %
                         ('the length test is missing, so a stored key matches every lookup key it is a prefix of (or vice versa)' if not okl else
                          'the bytes are compared with %s, which stops at a NUL / is not bounded by the key length' % ','.join(inexact or ['?'])))


def rule_r5_first_match(ck, prog, rule='C10.R5'):
    """the most recent binding of a key decides: in every list walk of Context (GetValue, and HasKey when it walks the list itself)
    no older node is visited once a node's key compared equal - decided by pinning the key comparison (length equality and byte
    comparison) to "equal" and asking whether the next iteration is still reachable. HasKey may instead delegate to GetValue."""
    from .common import body_entry
    from ..symb import feasible_reach
    cnt = 0
    for name in ('GetValue', 'HasKey'):
        f = prog.function('context::Context::' + name)
        key = f.params[0]
        loops = [n for n in f.nodes if n['k'] in ('for', 'while', 'do')]
        if not loops:
            if name == 'HasKey':
                dele = [n for n in f.nodes if n['k'] == 'call' and strip_targs(n.get('c', '')).endswith('Context::GetValue') and n.get('args') and
                        strip_casts(f, n['args'][0]).get('id') == key['id']]
                cnt += 1
                if dele:
                    ck.holds(rule, f, 'first-match-decides:HasKey', dele[0], 'HasKey asks GetValue for the same key (one lookup, one answer)')
                else:
                    ck.inconclusive(rule, f, 'first-match-decides:HasKey', None, 'HasKey neither walks the list nor delegates to GetValue(key)')
                continue
            # the walk may live in a private helper of Context that receives the key (`FindBinding(key)`)
            walk = None
            for n in f.nodes:
                h = prog.funcs.get(n.get('ck')) if n['k'] == 'call' else None
                if h is not None and h.cls == f.cls and h.blocks and any(m['k'] in ('for', 'while', 'do') for m in h.nodes):
                    for pi, a in enumerate(n.get('args', [])):
                        if a is not None and a >= 0 and strip_casts(f, a).get('id') == key['id'] and pi < len(h.params):
                            walk = (h, h.params[pi])
            if walk is None:
                cnt += 1
                ck.inconclusive(rule, f, 'first-match-decides:%s' % name, None, 'the list walk of Context::%s was not found (neither in the member nor in a helper that receives the key)' % name)
                continue
            f, key = walk
            loops = [n for n in f.nodes if n['k'] in ('for', 'while', 'do')]
        lp = loops[0]
        g = Graph(prog, f, inline=None, sync_lambdas=False)
        start = body_entry(g, f, lp)
        body = set(f.subtree(lp['body']))
        pins = {}
        for i in sorted(body):
            n = f.nodes[i]
            c = comparison(f, i)
            if not c or c[0] not in ('==', '!='):
                continue
            sub = [f.nodes[j] for j in f.subtree(i)]
            is_len = any(m['k'] == 'member' and m.get('name') == 'key_length_' for m in sub) and \
                any(m['k'] == 'call' and strip_targs(m.get('c', '')).rsplit('::', 1)[-1] in ('size', 'length') for m in sub)
            is_bytes = any(m['k'] == 'call' and strip_targs(m.get('c', '')).rsplit('::', 1)[-1] in ('memcmp', 'strncmp', 'strcmp', 'compare') for m in sub)
            is_view_eq = n['k'] == 'call' and n.get('op') in ('==', '!=') and any(m['k'] == 'ref' and m.get('id') == key['id'] for m in sub)
            if is_len or is_bytes or is_view_eq:
                pins[i] = (c[0] == '==')
        for i in sorted(body):
            n = f.nodes[i]
            # a predicate of the node that receives the key (`node->Binds(key)`): "this node has the key"
            if n['k'] == 'call' and (n.get('t') or '') == 'bool' and n.get('ck') in prog.funcs and \
                    any(a is not None and a >= 0 and strip_casts(f, a).get('id') == key['id'] for a in n.get('args', [])):
                pins[i] = True
        cnt += 1
        if start is None or not pins:
            ck.inconclusive(rule, f, 'first-match-decides:%s' % name, None, 'key comparison / iteration start of the list walk not recognised')
            continue
        nxt = [q for (q, _l) in start.succ] or [start]
        again = feasible_reach(g, nxt, [start], pins=pins)
        ck.verdict(again is None, rule, f, 'first-match-decides:%s' % name, lp,
                   'once a node\'s key compares equal the walk ends' if again is None else
                   'Context::%s keeps walking to older nodes after a node with the same key: an older, shadowed binding can answer - %s and GetValue disagree about the same key' % (name, name))
    return cnt


def _tail_edge(f, root):
    """edge predicate: this outcome of a condition says `<root>->next_` is null (root: first element of the cursor's access path)"""
    def pred(a, b, lab):
        if not lab or not isinstance(lab[0], int):
            return False
        core, pol = norm_cond(lab[1], lab[0])
        out = lab[2] if pol else not lab[2]
        c = comparison(f, core)
        if c and c[0] in ('!=', '=='):
            sides = [access_path(f, c[1]), access_path(f, c[2])]
            if not any(x == (root, 'next_') for x in sides):
                return False
            return out is (c[0] == '==')
        if access_path(f, core) == (root, 'next_'):
            return out is False
        return False
    return pred


def _returns_tail(prog, h):
    """every return of the helper hands back a cursor (parameter or local) behind the outcome `cursor->next_ == nullptr`"""
    g = Graph(prog, h, inline=None, sync_lambdas=False)
    rets = [r for r in g.returns() if r.n.get('e') is not None and r.n['e'] >= 0]
    if not rets:
        return False
    for r in rets:
        ap = access_path(h, r.n['e'])
        if len(ap) != 1 or not (ap[0].startswith('local:') or ap[0].startswith('param:')):
            return False
        if not g.must_pass_edge(r, _tail_edge(h, ap[0])):
            return False
    return True


def rule_r6(ck, prog, rule='C10.R6'):
    """a derived context keeps every older binding: SetValue / SetValues link the new nodes in front of this context's list (the
    tail of the new chain gets `head_` of *this on every path), and the RuntimeContext helpers derive from / look up in the context
    they were given, the current one only when none was given"""
    for name in ('SetValue', 'SetValues'):
        f = prog.function('context::Context::' + name)
        # (a private helper of Context that attaches the old list is inlined; constructors are not)
        g = Graph(prog, f, inline=lambda caller, call, callee, depth: callee.cls == f.cls and callee.kind not in ('ctor', 'dtor'), sync_lambdas=False, max_depth=2)
        rd = reaching_defs(g)
        links = [p for p in g.points if p.n is not None and p.n['k'] == 'call' and p.n.get('op') == '=' and p.n.get('obj') is not None and
                 access_path(p.f, p.n['obj'])[-1:] == ('next_',) and p.n.get('args') and access_path(p.f, p.n['args'][-1]) == ('this', 'head_')]
        site = 'new-chain-linked-to-old-list@' + name
        if not links:
            others = [p for p in g.points if p.n is not None and p.n['k'] == 'call' and p.n.get('ck') in prog.funcs and prog.funcs[p.n['ck']].cls != f.cls and
                      any(access_path(p.f, a_) == ('this', 'head_') for a_ in p.n.get('args', []))]
            if others:
                ck.inconclusive(rule, f, site, others[0].n, 'this context\'s head_ is handed to %s, which this rule does not follow' % strip_targs(others[0].n['c']))
            else:
                ck.violation(rule, f, site, None, 'Context::%s never stores this context\'s head_ into a next_ link of the new chain: the derived context has lost every older binding' % name)
            continue
        ok = g.exit.id not in g.reachable_from(g.entry, avoid=links)
        why = 'every path to the return passes the link' if ok else 'a path returns the new context without linking the old list behind it'
        if ok:
            for lk in links:
                lf = lk.f
                base = strip_casts(lf, lf.nodes[lk.n['obj']]['base']) if lf.nodes[lk.n['obj']]['k'] == 'member' else None
                # the shared_ptr's operator-> in between
                while base is not None and base['k'] == 'call' and base.get('obj') is not None and base.get('op') in ('->', '*'):
                    base = strip_casts(lf, base['obj'])
                if base is not None and base['k'] == 'call' and base.get('ck') in prog.funcs and _returns_tail(prog, prog.funcs[base['ck']]):
                    continue      # a helper that walks to the last node of the chain it is given
                if base is None or base['k'] not in ('ref', 'member'):
                    ok = None
                    why = 'the node whose next_ is linked was not resolved'
                    break
                ap = access_path(lf, base['i'])
                if ap[-1:] == ('head_',) and (ap[0].startswith('local:') or ap[0].startswith('param:')) and len(ap) == 2:
                    continue      # the single fresh node (of a local context, or of the by-value context an inlined helper was given)
                if base['k'] == 'ref' and base.get('sk') == 'local':
                    # a cursor: it has to stand on the tail of the fresh chain, i.e. the link is reached only over the exit edge of a
                    # walk `while (cursor->next_ != nullptr)`
                    if not g.must_pass_edge(lk, _tail_edge(lf, ap[0])):
                        ok = None
                        why = 'the link is stored through a cursor that is not shown to stand on the last node of the new chain'
                        break
                else:
                    ok = None
                    why = 'the node whose next_ is linked is neither the fresh head nor a local cursor'
                    break
        if ok is None:
            ck.inconclusive(rule, f, site, links[0].n, why)
        else:
            ck.verdict(ok, rule, f, site, links[0].n, why if ok else 'Context::%s: %s: older bindings are lost in the derived context' % (name, why))
    for name in ('SetValue', 'GetValue'):
        f = prog.function('context::RuntimeContext::' + name)
        # (a private helper that selects the context is inlined; GetCurrent itself stays a call: it is the "current" source)
        g = Graph(prog, f, inline=lambda caller, call, callee, depth: callee.cls == f.cls and callee.name != 'GetCurrent', sync_lambdas=False, max_depth=2)
        rd = reaching_defs(g)
        cparam = [p_ for p_ in f.params if 'Context' in p_['t'] and '*' in p_['t']]
        calls = [p for p in g.points if p.n is not None and p.n['k'] == 'call' and strip_targs(p.n.get('c', '')).endswith('context::Context::' + name) and p.n.get('obj') is not None]
        site = 'helper-uses-given-context@RuntimeContext::' + name
        if not cparam or not calls:
            ck.inconclusive(rule, f, site, None, 'optional context parameter / forwarded Context::%s call not found' % name)
            continue
        cid = cparam[0]['id']

        def is_cparam(sf, idx, sc):
            # the optional context parameter itself, also seen through the parameter of an inlined helper it was passed to
            x = strip_casts(sf, idx)
            if x.get('id') == cid:
                return True
            if x['k'] == 'ref' and x.get('sk') == 'param':
                return any(sn.get('id') == cid for (_sf, sn, _sc) in origins(g, rd, sf, idx, sc))
            return False

        def null_edge(want_null):
            def pred(a, b, lab):
                if not lab or not isinstance(lab[0], int):
                    return False
                core, pol = norm_cond(lab[1], lab[0])
                out = lab[2] if pol else not lab[2]
                cf = lab[1]
                c = comparison(cf, core)
                if c and c[0] in ('==', '!='):
                    sides = [c[1], c[2]]
                    mine = [x for x in sides if is_cparam(cf, x, a.ctx)]
                    if not mine:
                        return False
                    other = [strip_casts(cf, x) for x in sides if x not in mine]
                    if not other or not (other[0]['k'] in ('lit', 'nullptr') or other[0].get('v') == 0):
                        return False
                    says_null = out is (c[0] == '==')
                    return says_null is want_null
                if is_cparam(cf, core, a.ctx):
                    return (not out) is want_null
                return False
            return pred
        verdict = True
        why = ''
        seen_kinds = set()

        def kind_of(sf, sn, sc=None):
            if sn['k'] == 'unop' and sn.get('op') == '*' and is_cparam(sf, sn['e'], sc):
                return 'given'
            if sn['k'] == 'ref' and sn.get('id') == cid:
                return 'given'            # context->X(...)
            if sn['k'] == 'call' and strip_targs(sn.get('c', '')).endswith('RuntimeContext::GetCurrent'):
                return 'current'
            if sn['k'] == 'construct' and not sn.get('args') and 'Context' in (sn.get('cls') or sn.get('c') or ''):
                return 'empty'            # a default-constructed Context that nothing was assigned to
            return 'other:' + sn['k']

        def check_at(pt, kinds):
            # the point at which one source is selected has to lie behind the matching outcome of the null test
            if kinds == {'given'}:
                return (True, '') if g.must_pass_edge(pt, null_edge(False)) else (False, 'the given context is used without the not-null outcome of the test in front')
            if kinds == {'current'}:
                return (True, '') if g.must_pass_edge(pt, null_edge(True)) else (False, 'the current context replaces a context the caller passed in')
            if kinds == {'empty'} or kinds == {'empty', 'given'} or kinds == {'empty', 'current'}:
                return (False, 'an empty context stands in for %s' % ('the current one' if 'current' not in kinds else 'the given one'))
            return (None, 'the context the call works on derives from %s at one selection point' % sorted(kinds))
        def selections(pt, sf0, idx, sc0, depth=0):
            """[(point at which the source is selected, {kinds})]: a ?: is split into its two arms, each selected at its own point"""
            out, plain = [], set()
            for (sf, sn, sc) in origins(g, rd, sf0, idx, sc0):
                if sn['k'] == 'cond' and depth < 3:
                    for br in (sn.get('a'), sn.get('b')):
                        if br is None or br < 0:
                            continue
                        bp = None
                        for j in [br] + list(sf.subtree(br)):
                            bp = g.point_of.get((id(sc), j))
                            if bp is not None:
                                break
                        out += selections(bp or pt, sf, br, sc, depth + 1)
                else:
                    # the source is selected where it is evaluated (inside the arm / branch / inlined helper that chose it)
                    op_ = g.point_of.get((id(sc), sn['i']))
                    if op_ is not None:
                        out.append((op_, {kind_of(sf, sn, sc)}))
                    else:
                        plain.add(kind_of(sf, sn, sc))
            if plain:
                out.append((pt, plain))
            return out
        for cp in calls:
            ref = strip_casts(f, cp.n['obj'])
            if ref['k'] == 'call' and ref.get('op') in ('->', '*') and ref.get('obj') is not None:
                ref = strip_casts(f, ref['obj'])
            sel = []
            if ref['k'] == 'ref' and ref.get('sk') == 'local':
                pt = g.point_of.get((id(cp.ctx), ref['i'])) or cp
                for dp in [g.points[d] for (v, d) in rd.get(pt.id, ()) if v == ref.get('id')]:
                    got = []
                    for (vid, strong, vx) in defs_in_node(dp.f, dp.n):
                        if vid == ref.get('id') and vx is not None:
                            got += selections(dp, dp.f, vx, dp.ctx)
                    if not got and dp.n['k'] == 'declstmt':
                        got = [(dp, {'empty'})]
                    sel += got
            else:
                sel += selections(cp, f, cp.n['obj'], cp.ctx)
            # a declaration without initialiser that is overwritten on every path does not reach the call and is not in `sel`
            for (pt, o) in sel:
                seen_kinds |= o
                v_, w_ = check_at(pt, o)
                if v_ is False:
                    verdict, why = False, w_
                elif v_ is None and verdict is True:
                    verdict, why = None, w_
        if verdict is True and not {'given', 'current'} <= seen_kinds:
            verdict, why = False, 'only %s is ever used' % ('the given context' if 'given' in seen_kinds else 'the current context')
        if verdict is None:
            ck.inconclusive(rule, f, site, calls[0].n, why)
        else:
            ck.verdict(verdict, rule, f, site, calls[0].n, 'works on *context when one is given, on the current context otherwise' if verdict else
                       'RuntimeContext::%s: %s: the result does not derive from the context the caller named' % (name, why))


def rule_r7(ck, prog, rule='C10.R7'):
    """a node stores the whole key: allocation size, recorded length and copied byte count are the same expression (the length of
    the source key), so that the length-and-bytes comparison of the lookup sees the key the caller bound"""
    ctors = [f for f in prog.funcs.values() if strip_targs(f.qn).endswith('context::Context::DataList::DataList')]
    found = 0
    for f in sorted(ctors, key=lambda x: x.line):
        # (an allocate-and-copy helper of the node class is inlined; its parameters resolve to the constructor's expressions)
        g = Graph(prog, f, inline=lambda caller, call, callee, depth: callee.cls == f.cls and callee.kind not in ('ctor', 'dtor'), sync_lambdas=False, max_depth=2)
        rd = reaching_defs(g)
        news = [p for p in g.points if p.n is not None and p.n['k'] == 'new' and 'size' in p.n and (p.n.get('ty') or '') == 'char']
        if not news:
            continue
        found += 1

        def into_key(p):
            if access_path(p.f, p.n['args'][0], p.ctx) == ('this', 'key_') or access_path(p.f, p.n['args'][0]) == ('this', 'key_'):
                return True
            return any(sn['k'] == 'new' for (_sf, sn, _sc) in origins(g, rd, p.f, p.n['args'][0], p.ctx))
        cps = [p for p in g.points if p.n is not None and p.n['k'] == 'call' and strip_targs(p.n.get('c', '')).rsplit('::', 1)[-1] in ('memcpy', 'memmove', 'strncpy') and len(p.n.get('args', [])) == 3
               and into_key(p)]
        lens = [p for p in g.points if p.n is not None and p.n['k'] == 'binop' and p.n['op'] == '=' and access_path(p.f, p.n['lhs']) == ('this', 'key_length_') and p.f is f]
        site = 'key-stored-whole:%s' % ('copy' if any('DataList' in p_['t'] for p_ in f.params) else 'key-value')
        if not cps:
            ck.inconclusive(rule, f, site, news[0].n, 'key allocation without a block copy into it: the copy idiom was not recognised')
            continue
        forms = [linear(g, rd, p.f, p.n['size'], p.ctx) for p in news] + [linear(g, rd, p.f, p.n['args'][2], p.ctx) for p in cps] + \
                [linear(g, rd, p.f, p.n['rhs'], p.ctx) for p in lens]
        if any(x is None for x in forms):
            ck.inconclusive(rule, f, site, cps[0].n, 'a length expression is not linear')
            continue
        # a length read back from key_length_ *is* the recorded length: equal to the assignment in the body when there is one; when
        # the member is set in the initialiser list (which the IR does not attribute to fields) it is left out of the comparison
        rec = [linear(g, rd, p.f, p.n['rhs'], p.ctx) for p in lens]
        forms = [(rec[0] if rec else None) if x == {'this.key_length_': 1} else x for x in forms]
        forms = [x for x in forms if x is not None]
        if not forms:
            ck.inconclusive(rule, f, site, cps[0].n, 'every length is read back from key_length_, which is set in the initialiser list')
            continue
        ok = all(x == forms[0] for x in forms) and len(forms[0]) == 1
        ck.verdict(ok, rule, f, site, cps[0].n, 'allocated, recorded and copied length are all %s' % fmt(forms[0]) if ok else
                   'the key is allocated / recorded / copied with different lengths (%s): the stored key is not the key that was bound, lookups compare against other bytes' % ', '.join(fmt(x) for x in forms))
    if not found:
        ck.inconclusive(rule, ctors[0] if ctors else None, 'key-stored-whole', None, 'no DataList constructor allocates a character array for the key: the key is stored another way')


def rule_r8(ck, prog, rule='C10.R8'):
    """construction from a container keeps every pair: a cursor through which a node is linked (`cur->next_ = new node`) is advanced
    to that node before the next link is stored (otherwise each pair overwrites the link of the one before)"""
    ctors = [f for f in prog.funcs.values() if strip_targs(f.qn).endswith('context::Context::DataList::DataList') and
             any(n['k'] in ('forrange', 'for', 'while') for n in f.nodes)]
    if not ctors:
        raise AnalysisBroken('C10.R8: the container constructor of DataList is not instantiated in the driver unit')
    from .common import stale_across_iterations
    for f in sorted(ctors, key=lambda x: x.line):
        g = Graph(prog, f, inline=None, sync_lambdas=False)
        rd = reaching_defs(g)
        links = [p for p in g.points if p.n is not None and p.n['k'] == 'call' and p.n.get('op') == '=' and p.n.get('obj') is not None and
                 access_path(f, p.n['obj'])[-1:] == ('next_',) and len(access_path(f, p.n['obj'])) == 2 and access_path(f, p.n['obj'])[0].startswith('local:')]
        if not links:
            ck.inconclusive(rule, f, 'link-then-advance', None, 'no link through a local cursor: the chain is built another way')
            continue
        for lk in links:
            cur = access_path(f, lk.n['obj'])[0]
            cid = int(cur.split(':')[1])
            adv = [p for p in g.points if p.n is not None and any(v == cid and vx is not None and p.n['k'] != 'declstmt' and
                                                                 access_path(p.f, vx)[:2] == (cur, 'next_') for (v, s_, vx) in defs_in_node(p.f, p.n))]
            # from the link, the next link through the same cursor (or the end of the function) is reached only over an advance
            r = g.reachable_from([q for (q, _l) in lk.succ], avoid=adv)
            again = [q for q in links if q.id in r]
            ok = bool(adv) and not again
            ck.verdict(ok, rule, f, 'link-then-advance', lk.n, 'the cursor moves to the node just linked before the next pair is linked' if ok else
                       'a pair is linked through a cursor that is not advanced to the new node before the next pair is linked: the chain keeps only the last pair after the first (the others are dropped)')


def run(ck, prog):
    ck.doc('C10.R1', 'no write to (or move from) a Context / list node that is not rooted in a fresh local', 8)
    ck.doc('C10.R2', 'the runtime context stack has thread storage in the configured compiler variant', 2)
    ck.doc('C10.R3', 'Detach/Stack typestate and guards (pops, the token frame popped exactly once, search direction, push/pop/top/resize shape, Resize callers)', 6)
    ck.doc('C10.R4', 'token destructor detaches itself (unconditionally, or on state set only after a successful detach); Attach pushes the token\'s context; Scope attaches the span', 4)
    ck.doc('C10.R5', 'Context lookup returns a stored value only for an exactly equal key (length and bytes); not-found only after the whole list; the first node with the key decides (GetValue and HasKey)', 4)
    ck.doc('C10.R6', 'derived contexts keep the older bindings: SetValue / SetValues link the old list behind the new chain on every path; the RuntimeContext helpers work on the context given, the current one only when none is given', 4)
    ck.doc('C10.R7', 'a list node stores the whole key: allocated, recorded and copied lengths are the same expression', 1)
    ck.doc('C10.R8', 'construction from a container keeps every pair (link, then advance the cursor)', 1)
    with ck.canary('C10.R1'):
        rule_r1(ck, prog, only='canary::c10::')
    rule_r1(ck, prog)
    rule_r2(ck, prog)
    rule_r3(ck, prog)
    rule_r3_resize_callers(ck, prog)
    rule_r4(ck, prog)
    rule_r4_token_flag(ck, prog)
    rule_r5_first_match(ck, prog)
    rule_r5(ck, prog)
    rule_r6(ck, prog)
    rule_r7(ck, prog)
    rule_r8(ck, prog)
    return {}
