"""C15 - baggage round-trips through its header; composite propagators apply every part (structural part)."""
from ..ir import AnalysisBroken, strip_targs, qmatch
from ..graph import Graph
from ..expr import access_path, path_str, reaching_defs, norm_cond, origins, leaves, defs_in_node
from ..linear import linear, relation, fmt, rel_str
from ..symb import feasible_reach, feasible_armed_reach
from ..charclass import byteset, describe, CTYPE, bytevalue, _truth as byte_truth
from ..inteval import ieval
from .common import strip_casts, short, comparison, once_init, iteration_starts, stale_across_iterations, subtree_through_locals
from . import c14
from .c07 import _select_kind

UNITS = []
DRIVERS = ['propagators.cc']
CANARIES = ['c15_canary.cc']

EXPLANATION = (
    'C15.R1 (who-may-write): no member of Baggage modifies the object it is called on. C15.R2: the copy callbacks of Set and '
    'Delete add an existing entry only when its key differs from the given key. C15.R3 (guard agreement): a header longer than '
    '8192 bytes yields the default; the member count is capped at 180 and bounds the parse loop; a member with |key|+|value| > '
    '4096 is skipped; members are added only behind "no decode error and valid key and valid value". C15.R4 (sibling alphabets, '
    'exhaustive byte sets): the pass-through class of UrlEncode and of UrlDecode are the same set (alnum and - _ . ~); space <-> '
    '+; the hex-digit predicate is exactly the 22 hex digits; the escape guard is i+2 >= size => error and dominates both escape '
    'reads; the metadata part (from the first ;) bypasses encoding and decoding. C15.R5 (dominance): BaggagePropagator::Extract '
    'installs only behind a non-emptiness test of the parsed baggage (not of the raw header) and otherwise returns the caller\'s '
    'context. C15.R6 (fold): CompositePropagator::Inject calls every propagator without early exit; in Extract the context '
    'argument of each iteration is the result of the previous one on every feasible path (the parameter only in the first '
    'iteration) and the accumulator is returned.')
EXPLANATION += ' C15.R3 also requires the 4096 limit to be tested on key and value as the tokenizer delivered them (no re-assignment reaching the guard); C15.R4 that ToHeader passes the stored text (or its part before the metadata separator) to UrlEncode unaltered; C15.R5 that the baggage is set into the context Extract was given.'
ROUND2_EXPLANATION = (" C15.R6 also: with no propagator configured Extract returns the caller's context. C15.R7: the character predicate of keys / values accepts exactly 0x20..0x7E (all 256 bytes evaluated with char signed). C15.R8: a flag that calls in the member loop set through an out-parameter is re-initialised on every path from the start of an iteration to its first mention.")
ROUND2_EXPLANATION += (' Shared C14.R8: a separator is written between members and not before the first. Shared C19.R1: the public baggage API hands out no mutable reference to the shared key-value store.')
ROUND2_EXPLANATION += (" C15.R4 also (shape of the header round trip): both sides cut a value exactly at the position find() returned for the metadata separator (linear forms of the substr arguments); FromHeader stores a value only after the append of the metadata it split off, or behind the outcome 'no metadata'; key and value are decoded from text trimmed the same way; ToHeader passes the key-value separator on every path.")
EXPLANATION += ROUND2_EXPLANATION
NOT_DECIDED = 'round trip over all printable inputs; freedom from out-of-bounds reads on arbitrary bytes beyond the escape guard.'

TOKEN = CTYPE['isalnum'] | frozenset(map(ord, '-_.~'))


def rule_r3(ck, prog, rule='C15.R3'):
    f = prog.function('baggage::Baggage::FromHeader')
    g = Graph(prog, f, inline=None, sync_lambdas=False)
    rd = reaching_defs(g)
    news = [p for p in g.points if p.n is not None and p.n['k'] == 'new' and 'Baggage' in (p.n.get('ty') or '')]

    def rel_of(a, lab):
        if not lab or not isinstance(lab[0], int):
            return None
        return relation(g, rd, lab[1], lab[0], a.ctx, lab[2])

    def hdr_ok(a, b, lab):
        r = rel_of(a, lab)
        return r == ('>=0', frozenset({('param:header.size()', -1), ('1', 8192)}))
    ok = bool(news) and all(g.must_pass_edge(p, hdr_ok) for p in news)
    ck.verdict(ok, rule, f, 'header<=8192', news[0].n if news else None, 'parsing only for |header| <= 8192' if ok else 'the 8192-byte header limit is not enforced as |header| > 8192 => default')
    # cap: new Baggage(cnt) where cnt <= 180 on every reaching definition
    ok = False
    if news and news[0].n.get('init') is not None:
        init = f.nodes[news[0].n['init']]
        a = strip_casts(f, init['args'][0]) if init.get('args') else None
        if a is not None and a['k'] == 'ref':
            pt = g.point_of.get((id(g.root_ctx), a['i']))
            defs = [g.points[d] for (v, d) in rd.get(pt.id if pt else news[0].id, ()) if v == a['id']]
            ok = bool(defs)
            for dp in defs:
                val = [vx for (v, s, vx) in defs_in_node(f, dp.n) if v == a['id']][0]
                if val is not None and f.nodes[val].get('v') == 180:
                    continue
                if val is not None:
                    # std::min(n, 180) / n > 180 ? 180 : n
                    kind, ops = _select_kind(f, val)
                    if kind == 'min' and any(strip_casts(f, o).get('v') == 180 for o in ops):
                        continue
                # an uncapped definition may only reach along the "cnt <= 180" edge
                def le180(x, y, lab, _vid=a['id']):
                    r = rel_of(x, lab)
                    if r and r[0] == '>=0':
                        d = dict(r[1])
                        syms = [s for s in d if s != '1']
                        return len(syms) == 1 and d[syms[0]] == -1 and d.get('1') == 180
                    return False
                others = [x for x in defs if x is not dp]
                r = g.reachable_from([q for (q, _l) in dp.succ], avoid=others, avoid_edges=le180)
                if news[0].id in r:
                    ok = False
    ck.verdict(ok, rule, f, 'members<=180', news[0].n if news else None, 'allocation capped at 180 members' if ok else 'the member count handed to the allocation is not capped at 180')
    adds = g.calls('KeyValueProperties::AddEntry')

    def small_ok(a, b, lab):
        r = rel_of(a, lab)
        if r and r[0] == '>=0':
            d = dict(r[1])
            return d.get('1') == 4096 and sorted(v for s, v in d.items() if s != '1') == [-1, -1]
        return False
    ok = bool(adds) and all(g.must_pass_edge(p, small_ok) for p in adds)
    ck.verdict(ok, rule, f, 'member<=4096', adds[0].n if adds else None, 'members added only for |key|+|value| <= 4096' if ok else 'the 4096-byte member limit does not guard the insertion')
    # ... and the guard measures the member as the tokenizer delivered it (metadata included), not a narrowed copy
    narrowed = None
    for p in g.points:
        for (q, lab) in p.succ:
            if small_ok(p, q, lab):
                for j in f.subtree(lab[0]):
                    m = f.nodes[j]
                    if m['k'] == 'ref' and m.get('sk') == 'local':
                        # the tokenizer call re-delivers the variable (out-parameter): an assignment reaches the guard only if a
                        # path from it to the guard avoids that call
                        refills = [x for x in g.points if x.n is not None and x.n['k'] == 'call' and
                                   any(strip_casts(f, a2).get('id') == m['id'] for a2 in x.n.get('args', []))]
                        for (v, d) in rd.get(p.id, ()):
                            dp = g.points[d]
                            dn = dp.n
                            if v == m['id'] and dn is not None and ((dn['k'] == 'call' and dn.get('op') == '=') or (dn['k'] == 'binop' and dn['op'] == '=')):
                                if p.id in g.reachable_from([x for (x, _l) in dp.succ], avoid=refills):
                                    narrowed = (m['name'], dn)
    if ok:
        ck.verdict(narrowed is None, rule, f, 'member-limit-measures-whole-member', narrowed[1] if narrowed else adds[0].n,
                   'the 4096 limit is tested on key and value as delivered by the tokenizer' if narrowed is None else
                   'the 4096-byte limit is tested after %s was re-assigned (metadata split off): a member that is over-long only through its ;metadata is accepted, stored and re-injected' % narrowed[0])

    def named_true(name):
        def pred(a, b, lab):
            if not lab or not isinstance(lab[0], int):
                return False
            core, pol = norm_cond(lab[1], lab[0])
            cn = lab[1].nodes[core]
            if cn['k'] == 'call' and strip_targs(cn.get('c', '')).endswith(name):
                return (lab[2] if pol else not lab[2]) is True
            return False
        return pred

    def no_err(a, b, lab):
        if not lab or not isinstance(lab[0], int):
            return False
        core, pol = norm_cond(lab[1], lab[0])
        c = comparison(lab[1], core)
        cn = strip_casts(f, c[1]) if c else lab[1].nodes[core]
        if cn['k'] == 'ref' and cn['name'] == 'err':
            truth = lab[2] if pol else (not lab[2])
            if c:
                v = strip_casts(f, c[2]).get('v')
                return (c[0] == '==' and v == 0 and truth) or (c[0] == '!=' and v == 0 and not truth)
            return truth is False
        return False
    for nm, pred in (('valid-key', named_true('Baggage::IsValidKey')), ('valid-value', named_true('Baggage::IsValidValue')), ('no-decode-error', no_err)):
        ok = bool(adds) and all(g.must_pass_edge(p, pred) for p in adds)
        ck.verdict(ok, rule, f, 'add-behind:%s' % nm, adds[0].n if adds else None, 'insertion behind %s' % nm if ok else 'a member can be added without "%s"' % nm)
    # loop bounded by the allocation
    def room(a, b, lab):
        r = rel_of(a, lab)
        if r and r[0] == '>=0':
            d = dict(r[1])
            return d.get('1') == -1 and any(s.endswith('.Size()') and v == -1 for s, v in d.items())
        return False
    ok = bool(adds) and all(g.must_pass_edge(p, room) for p in adds)
    ck.verdict(ok, rule, f, 'loop-bounded-by-count', adds[0].n if adds else None, 'parse loop runs only while Size() < cnt' if ok else 'the parse loop is not bounded by the allocated member count')


def _loop_subject(f, loop):
    """(is_subject predicate) for a range-for over characters or an index loop over str[i]"""
    if loop['k'] == 'forrange':
        vid = loop['var']
        return lambda i: f.nodes[i]['k'] == 'ref' and f.nodes[i].get('id') == vid
    base = lambda i: f.nodes[i]['k'] == 'call' and f.nodes[i].get('op') == '[]' and f.nodes[i].get('args') and \
        strip_casts(f, f.nodes[i]['args'][0])['k'] == 'ref' and f.nodes[f.nodes[i]['obj']].get('sk') == 'param'

    def subj(i):
        if base(i):
            return True
        n = f.nodes[i]
        if n['k'] == 'ref' and n.get('sk') == 'local':
            # `const char c = str[i];` at the top of the body
            init = once_init(f, i)
            return 'i' in init and init['i'] != i and base(init['i'])
        return False
    return subj


def _if_chain(f, loop):
    """[(cond idx, then idx)] of the if / else-if chain that forms the loop body"""
    out = []
    body = f.nodes[loop['body']]
    stmts = [f.nodes[i] for i in body.get('ch', [])] if body['k'] == 'CompoundStmt' else [body]
    cur = [s for s in stmts if s['k'] == 'if']
    cur = cur[0] if cur else None
    while cur is not None:
        out.append((cur['cnd'], cur['th']))
        nxt = f.nodes[cur['el']] if cur.get('el') is not None else None
        if nxt is not None and nxt['k'] == 'if':
            cur = nxt
        else:
            if nxt is not None:
                out.append((None, nxt['i']))
            cur = None
    return out


def _substr_from_only(f, n):
    """substr(pos) - the count is absent or the defaulted npos"""
    a = n.get('args', [])
    if len(a) == 1:
        return True
    return len(a) == 2 and (1 in (n.get('defargs') or []) or (a[1] is not None and a[1] >= 0 and f.nodes[a[1]]['k'] == 'defarg'))


def _rule_r4_roundtrip_shape(ck, prog, rule, th, fh):
    """structural necessary conditions of the header round trip that only need the two functions themselves:
    (a) both sub-views that split a value at the metadata separator start / end exactly at the position find() returned;
    (b) the reader re-attaches the metadata it split off before it stores the value;
    (c) key and value are decoded from text that went through the same trimming;
    (d) the writer puts the key-value separator between the encoded key and the value on every path."""
    # (a) positions
    for (fx, side) in ((th, 'ToHeader'), (fh, 'FromHeader')):
        g = Graph(prog, fx, inline=None, sync_lambdas=False)
        rd = reaching_defs(g)
        finds = [n for n in fx.nodes if n['k'] == 'call' and strip_targs(n.get('c', '')).endswith('string_view::find') and
                 any(fx.nodes[j]['k'] == 'ref' and fx.nodes[j].get('name') == 'kMetadataSeparator' for a in n.get('args', []) if a is not None and a >= 0 for j in list(fx.subtree(a)) + [a])]
        subs = [p for p in g.points if p.n is not None and p.f is fx and p.n['k'] == 'call' and strip_targs(p.n.get('c', '')).endswith('string_view::substr') and p.n.get('args')]
        if not finds or not subs:
            continue       # split done in a helper: the symmetric-split obligation above is all that is decided
        posvars = {d['id']: d['name'] for n in fx.nodes if n['k'] == 'declstmt' for d in n['decls'] if d.get('init') is not None and d['init'] >= 0 and
                   strip_casts(fx, d['init']) in finds}
        if len(posvars) != 1:
            continue
        pid, pname = list(posvars.items())[0]
        key = 'local:%s:%s' % (pid, pname)
        bad = None
        for sp in subs:
            args = sp.n['args']
            forms = [linear(g, rd, fx, a, sp.ctx) if (a is not None and a >= 0) else None for a in args]
            f0 = forms[0] if forms else None
            f1 = forms[1] if len(forms) > 1 else None
            if f0 is not None and key in f0 and f0 != {key: 1}:
                bad = (sp, 'the metadata part starts at %s' % fmt(f0))
            if f0 == {} and f1 is not None and key in f1 and f1 != {key: 1}:
                bad = (sp, 'the value part ends at %s' % fmt(f1))
        ck.verdict(bad is None, rule, fx, 'metadata-split-at-separator@' + side, (bad[0].n if bad else subs[0].n),
                   'value = [0, pos), metadata = [pos, end) with pos the position of the separator' if bad is None else
                   '%s: %s instead of the position of the separator: the separator (or a character next to it) is lost or duplicated on a round trip' % (side, bad[1]))
    # (b) metadata re-attached
    g = Graph(prog, fh, inline=None, sync_lambdas=False)
    rd = reaching_defs(g)
    adds = [p for p in g.points if p.n is not None and p.f is fh and p.n['k'] == 'call' and strip_targs(p.n.get('c', '')).endswith('KeyValueProperties::AddEntry')]
    metas = {d['id']: d['name'] for n in fh.nodes if n['k'] == 'declstmt' for d in n['decls'] if 'string_view' in (d.get('t') or '') and
             any(m['k'] == 'binop' and m['op'] == '=' and strip_casts(fh, m['lhs']).get('id') == d['id'] and
                 any(fh.nodes[j]['k'] == 'call' and strip_targs(fh.nodes[j].get('c', '')).endswith('string_view::substr') and _substr_from_only(fh, fh.nodes[j]) for j in list(fh.subtree(m['rhs'])) + [m['rhs']])
                 for m in fh.nodes) or
             (d.get('init') is not None and d['init'] >= 0 and any(fh.nodes[j]['k'] == 'call' and strip_targs(fh.nodes[j].get('c', '')).endswith('string_view::substr') and _substr_from_only(fh, fh.nodes[j])
                                                                  for j in list(fh.subtree(d['init'])) + [d['init']]))}
    # (the assignments above are operator= calls for string_view in the IR)
    if not metas:
        for n in fh.nodes:
            if n['k'] == 'call' and n.get('op') == '=' and n.get('obj') is not None and n.get('args'):
                tgt = strip_casts(fh, n['obj'])
                if tgt['k'] == 'ref' and 'string_view' in (tgt.get('t') or '') and \
                        any(fh.nodes[j]['k'] == 'call' and strip_targs(fh.nodes[j].get('c', '')).endswith('string_view::substr') and _substr_from_only(fh, fh.nodes[j])
                            for j in list(fh.subtree(n['args'][0])) + [n['args'][0]]):
                    metas[tgt['id']] = tgt['name']
    if adds and len(metas) == 1:
        mid = list(metas)[0]
        apps = [p for p in g.points if p.n is not None and p.f is fh and p.n['k'] == 'call' and strip_targs(p.n.get('c', '')).rsplit('::', 1)[-1] in ('append', 'operator+=') and
                any(fh.nodes[j]['k'] == 'ref' and fh.nodes[j].get('id') == mid for a in p.n.get('args', []) if a is not None and a >= 0 for j in list(fh.subtree(a)) + [a])]
        ok = bool(apps)
        if ok:
            # an AddEntry is reached without the append only over the outcome "metadata is empty"
            def empty_edge(a, b, lab):
                if not lab or not isinstance(lab[0], int) or lab[1] is not fh:
                    return False
                core, pol = norm_cond(fh, lab[0])
                n = fh.nodes[core]
                if n['k'] == 'call' and strip_targs(n.get('c', '')).rsplit('::', 1)[-1] == 'empty' and n.get('obj') is not None and strip_casts(fh, n['obj']).get('id') == mid:
                    return (lab[2] if pol else not lab[2]) is True
                return False
            # every path to the store passes the append or the outcome "no metadata"
            r = g.reachable_from(g.entry, avoid=apps, avoid_edges=empty_edge)
            ok = not any(p.id in r for p in adds)
            if not ok:
                # another spelling of "there is metadata" (size() > 0, length() != 0 ...) in front of the append: not decided
                pm_ = fh.parent_map()
                tests = [n for n in fh.nodes if n['k'] == 'call' and strip_targs(n.get('c', '')).rsplit('::', 1)[-1] in ('size', 'length') and n.get('obj') is not None and
                         strip_casts(fh, n['obj']).get('id') == mid and n['i'] in pm_ and
                         (comparison(fh, pm_[n['i']]) or (pm_[n['i']] in pm_ and comparison(fh, pm_[pm_[n['i']]])))]
                if tests:
                    ck.inconclusive(rule, fh, 'reader-reattaches-metadata', apps[0].n, 'the append of the metadata is guarded by a test this rule does not read')
                    ok = None
        if ok is None:
            pass
        else:
            ck.verdict(ok, rule, fh, 'reader-reattaches-metadata', (apps or adds)[0].n, 'the metadata split off a value is appended again before the value is stored' if ok else
                       'FromHeader splits the metadata off a value and stores the value without it: properties after ";" are lost on a round trip')
    # (c) same trimming for key and value
    decs = [n for n in fh.nodes if n['k'] == 'call' and strip_targs(n.get('c', '')).endswith('Baggage::UrlDecode') and n.get('args')]
    if len(decs) == 2:
        trimmed = [any(fh.nodes[j]['k'] == 'call' and strip_targs(fh.nodes[j].get('c', '')).endswith('StringUtil::Trim') for j in list(subtree_through_locals(fh, n['args'][0])) + [n['args'][0]]) for n in decs]
        ok = trimmed[0] == trimmed[1]
        ck.verdict(ok, rule, fh, 'key-and-value-trimmed-alike', decs[0], 'key and value are decoded from text trimmed the same way' if ok else
                   'FromHeader trims surrounding whitespace off only one of key / value before decoding: "k = v" keeps a blank on one side (and a value with a leading blank fails the validity class)')
    # (d) key-value separator written on every path between the key and the value
    gt = Graph(prog, th, inline=None, sync_lambdas=False)
    seps = [p for p in gt.points if p.n is not None and p.f is th and p.n['k'] == 'call' and strip_targs(p.n.get('c', '')).rsplit('::', 1)[-1] in ('push_back', 'append', 'operator+=') and
            any(th.nodes[j]['k'] == 'ref' and th.nodes[j].get('name') == 'kKeyValueSeparator' for a in p.n.get('args', []) if a is not None and a >= 0 for j in list(th.subtree(a)) + [a])]
    encs = [p for p in gt.points if p.n is not None and p.f is th and p.n['k'] == 'call' and strip_targs(p.n.get('c', '')).endswith('Baggage::UrlEncode')]
    if encs:
        ok = bool(seps) and gt.exit.id not in gt.reachable_from(gt.entry, avoid=seps)
        ck.verdict(ok, rule, th, 'key-value-separator-written', (seps or encs)[0].n, 'every member gets its "=" on every path' if ok else
                   'ToHeader can write a member without the key-value separator: the header does not parse back into the same pairs')


def rule_r4(ck, prog, rule='C15.R4'):
    enc = prog.function('baggage::Baggage::UrlEncode')
    dec = prog.function('baggage::Baggage::UrlDecode')
    sets = {}
    for f, nm in ((enc, 'encode'), (dec, 'decode')):
        loops = [n for n in f.nodes if n['k'] in ('forrange', 'for')]
        if not loops:
            ck.inconclusive(rule, f, 'alphabet:%s' % nm, None, 'no character loop')
            continue
        lp = loops[0]
        subj = _loop_subject(f, lp)
        chain = _if_chain(f, lp)
        seen = frozenset()
        cls = {}
        for (c, th) in chain:
            bs = byteset(f, c, subj) if c is not None else frozenset(range(256))
            if bs is None:
                cls = None
                break
            eff = bs - seen
            seen = seen | bs
            # classify the branch by what it pushes
            lits = [f.nodes[i].get('v') for i in f.subtree(th) if f.nodes[i]['k'] == 'lit' and f.nodes[i].get('char')]
            pushes_subject = any(subj(i) for i in f.subtree(th))
            kind = 'pass' if pushes_subject and not lits else ('space' if (lits == [ord('+')] or lits == [ord(' ')]) else ('escape' if (ord('%') in lits or any(f.nodes[i]['k'] == 'call' and 'hex' in (f.nodes[f.nodes[i].get('fx', i)].get('name', '') if f.nodes[i].get('fx') is not None else '') for i in f.subtree(th))) else 'other'))
            cls.setdefault(kind, frozenset())
            cls[kind] = cls[kind] | eff
        sets[nm] = cls
    e, d = sets.get('encode'), sets.get('decode')
    ok = bool(e) and bool(d) and e.get('pass') == TOKEN and d.get('pass') == TOKEN
    ck.verdict(ok, rule, enc, 'pass-through-alphabets-agree', None, 'encode and decode pass through the same set %s' % describe(TOKEN) if ok else
               'UrlEncode passes %s through, UrlDecode accepts %s unescaped (token set is %s): a character one side leaves alone the other rejects or alters' %
               (describe(e.get('pass') if e else None), describe(d.get('pass') if d else None), describe(TOKEN)))
    ok = bool(e) and bool(d) and e.get('space') == frozenset([32]) and d.get('space') == frozenset([ord('+')])
    ck.verdict(ok, rule, dec, 'space-plus', None, "' ' is written as '+' and '+' read back as ' '" if ok else 'space and + do not mirror each other between UrlEncode and UrlDecode')
    # hex predicate
    ishex = [x for x in prog.funcs.values() if x.d.get('lambda') and x.d.get('parent') == dec.key and x.d.get('ret') == 'bool']
    if ishex:
        lf = ishex[0]
        rets = [n for n in lf.nodes if n['k'] == 'return']
        bs = byteset(lf, rets[0]['e'], lambda i: lf.nodes[i]['k'] == 'ref' and lf.nodes[i].get('id') == lf.params[0]['id'])
        ok = bs == CTYPE['isxdigit']
        ck.verdict(ok, rule, lf, 'hex-digit-class', rets[0], 'escape digits are exactly the hex digits' if ok else 'the escape-digit predicate accepts %s, hex digits are %s' % (describe(bs), describe(CTYPE['isxdigit'])))
    else:
        ck.inconclusive(rule, dec, 'hex-digit-class', None, 'hex predicate lambda not found')
    # the value of an escape digit: for every hex digit (both cases) the conversion yields its numeric value - exhaustive table
    tohex = [x for x in prog.funcs.values() if x.d.get('lambda') and x.d.get('parent') == dec.key and x.d.get('ret') != 'bool' and len(x.params) == 1]
    if tohex:
        lf = tohex[0]
        rets = [n for n in lf.nodes if n['k'] == 'return' and n.get('e') is not None and n['e'] >= 0]
        wrong = []
        if len(rets) == 1:
            for b in sorted(CTYPE['isxdigit']):
                v = bytevalue(lf, rets[0]['e'], lambda i: lf.nodes[i]['k'] == 'ref' and lf.nodes[i].get('id') == lf.params[0]['id'], b)
                if v is None or (v & 0xff) != int(chr(b), 16):
                    wrong.append((chr(b), v))
        ok = len(rets) == 1 and not wrong
        ck.verdict(ok, rule, lf, 'hex-digit-value', rets[0] if rets else None, 'every hex digit (0-9, a-f, A-F) converts to its value' if ok else
                   'the escape-digit conversion is wrong for %s: %%xx escapes written with those digits decode to a different byte' % ', '.join('%r -> %s' % w for w in wrong[:6]))
    else:
        ck.inconclusive(rule, dec, 'hex-digit-value', None, 'hex conversion lambda not found')
    # escape guard
    g = Graph(prog, dec, inline=None, sync_lambdas=False)
    rd = reaching_defs(g)
    reads = [p for p in g.points if p.n is not None and p.n['k'] == 'call' and p.n.get('op') == '[]' and p.n.get('args') and p.ctx is g.root_ctx and
             dec.nodes[p.n['args'][0]]['k'] == 'binop' and dec.nodes[p.n['args'][0]]['op'] == '+']

    def guard_ok(a, b, lab):
        if not lab or not isinstance(lab[0], int):
            return False
        r = relation(g, rd, lab[1], lab[0], a.ctx, lab[2])
        if r and r[0] == '>=0':
            d2 = dict(r[1])
            # size - i - 3 >= 0   (i.e. not (i + 2 >= size))
            return d2.get('1') == -3 and sorted(v for s, v in d2.items() if s != '1') == [-1, 1] and any(s.endswith('.size()') and v == 1 for s, v in d2.items())
        return False
    ok = bool(reads) and all(g.must_pass_edge(p, guard_ok) for p in reads)
    ck.verdict(ok, rule, dec, 'escape-guard', reads[0].n if reads else None, 'str[i+1], str[i+2] read only behind i+2 < size' if ok else
               'an escape digit is read although i+2 < size is not established (the guard must be i+2 >= size => error): a truncated escape at the end reads past the view')
    # metadata bypass: ToHeader encodes value.substr(0, sep) and appends the rest raw; FromHeader cuts at the same separator
    th = [x for x in prog.funcs.values() if x.d.get('lambda') and x.d.get('parent') == prog.function('baggage::Baggage::ToHeader').key]
    fh = prog.function('baggage::Baggage::FromHeader')
    def uses_sep(fx):
        return any(n['k'] == 'ref' and n['name'] == 'kMetadataSeparator' for n in fx.nodes) and \
            any(n['k'] == 'call' and strip_targs(n.get('c', '')).endswith('string_view::substr') for n in fx.nodes)
    # (either side may do the split in a private helper of the class)
    def uses_sep_deep(fx):
        if uses_sep(fx):
            return True
        for n in fx.nodes:
            h = prog.funcs.get(n.get('ck')) if n['k'] == 'call' else None
            if h is not None and h.cls == fh.cls and h.blocks and uses_sep(h):
                return True
        return False
    ok = bool(th) and uses_sep_deep(th[0]) and uses_sep_deep(fh)
    ck.verdict(ok, rule, fh, 'metadata-bypass-symmetric', None, 'both sides split at the metadata separator' if ok else 'the metadata part is not split off symmetrically by ToHeader and FromHeader')
    if ok:
        _rule_r4_roundtrip_shape(ck, prog, rule, th[0], fh)
    if th:
        lf = th[0]
        encs = [n for n in lf.nodes if n['k'] == 'call' and strip_targs(n.get('c', '')).endswith('Baggage::UrlEncode')]
        altered = None
        for e in encs:
            for j in lf.subtree(e['args'][0]):
                m = lf.nodes[j]
                if m['k'] == 'call' and strip_targs(m.get('c', '')).rsplit('::', 1)[-1] not in ('substr', 'data', 'size', 'length'):
                    altered = (e, strip_targs(m.get('c', '')).rsplit('::', 2)[-2:])
        ck.verdict(bool(encs) and altered is None, rule, lf, 'encode-stored-text-unaltered', altered[0] if altered else (encs[0] if encs else None),
                   'UrlEncode is applied to the stored key / value (or its part before the metadata separator) unaltered' if encs and altered is None else
                   'the stored text is passed through %s before it is encoded: what ToHeader writes differs from what was set (edge spaces lost), so Set -> inject -> extract does not round-trip' % ('::'.join(altered[1]) if altered else '?'))


def rule_r5(ck, prog, rule='C15.R5'):
    f = prog.function('baggage::propagation::BaggagePropagator::Extract')
    g = Graph(prog, f, inline=None, sync_lambdas=False)
    rd = reaching_defs(g)
    sets = g.calls('baggage::SetBaggage')

    def nonempty_parsed(a, b, lab):
        if not lab or not isinstance(lab[0], int):
            return False
        core, pol = norm_cond(lab[1], lab[0])
        truth = lab[2] if pol else (not lab[2])
        sub = [lab[1].nodes[i] for i in lab[1].subtree(core)]
        names = [strip_targs(n.get('c', '')).rsplit('::', 1)[-1] for n in sub if n['k'] == 'call']
        parsed = False
        for n in sub:
            if n['k'] == 'ref' and n.get('sk') == 'local':
                for (sf, sn, sc) in origins(g, rd, f, n['i'], a.ctx):
                    if sn['k'] == 'call' and strip_targs(sn.get('c', '')).endswith('Baggage::FromHeader'):
                        parsed = True
        if not parsed:
            return False
        if any(nm not in ('size', 'length', 'Size', 'empty', 'ToHeader', 'operator->', 'operator*', 'get', 'operator bool') for nm in names):
            unknown_idiom.append(names)
            return False
        if 'empty' in names and 'size' not in names:
            return truth is False
        return truth is True
    unknown_idiom = []
    ok = bool(sets) and all(g.must_pass_edge(p, nonempty_parsed) for p in sets)
    if not ok and unknown_idiom:
        ck.inconclusive(rule, f, 'install-only-nonempty-parsed', sets[0].n if sets else None,
                        'the installation is gated by a test of the parsed baggage through %s, an emptiness idiom this rule does not know' % ', '.join(sorted(set(unknown_idiom[0]))))
    else:
        ck.verdict(ok, rule, f, 'install-only-nonempty-parsed', sets[0].n if sets else None, 'SetBaggage only behind a non-empty parsed baggage' if ok else
                   'the baggage is installed without a non-emptiness test of the parsed baggage (e.g. the raw header is tested instead): a header with nothing valid replaces the baggage already in the context by an empty one')
    bad = [p for p in sets if not all(sn['k'] == 'ref' and sn.get('id') == f.params[1]['id'] for (sf, sn, sc) in origins(g, rd, f, p.n['args'][0], p.ctx))]
    ck.verdict(bool(sets) and not bad, rule, f, 'install-into-callers-context', (bad or sets or [None])[0].n if (bad or sets) else None,
               'the baggage is set into the context Extract was given' if sets and not bad else
               'the extracted baggage is set into a context other than the one Extract was given (e.g. the thread\'s current context): what earlier propagators of a composite extracted is discarded')
    def has_set(idx):
        return any(f.nodes[i]['k'] == 'call' and strip_targs(f.nodes[i].get('c', '')).endswith('baggage::SetBaggage') for i in list(f.subtree(idx)) + [idx])
    other = [r for r in g.returns() if not has_set(r.n['e'])]
    ok = bool(other) and all(strip_casts(f, r.n['e']).get('id') == f.params[1]['id'] for r in other)
    if not other:
        # single return through a conditional expression: the branch that does not install is the caller's context
        for r in g.returns():
            e = strip_casts(f, r.n['e'])
            while e['k'] == 'construct' and len(e.get('args', [])) == 1:
                e = strip_casts(f, e['args'][0])
            if e['k'] == 'cond':
                sides = [x for x in (e['a'], e['b']) if not has_set(x)]
                if len(sides) == 1:
                    other = [r]
                    sd = strip_casts(f, sides[0])
                    while sd['k'] == 'construct' and len(sd.get('args', [])) == 1:
                        sd = strip_casts(f, sd['args'][0])
                    ok = sd.get('id') == f.params[1]['id']
    ck.verdict(ok, rule, f, 'otherwise-callers-context', other[0].n if other else None, 'otherwise the caller\'s context is returned' if ok else 'on nothing valid Extract does not return the caller\'s context itself')


def rule_r6(ck, prog, rule='C15.R6', cls='context::propagation::CompositePropagator'):
    f = prog.function(cls + '::Inject')
    from .common import loops_over, loop_visits_every_element
    loops = loops_over(f, lambda ap: ap == ('this', 'propagators_'))
    ok = len(loops) == 1
    if ok:
        gi = Graph(prog, f, inline=None, sync_lambdas=False)
        body = set(f.subtree(loops[0]['body']))
        callp = [p for p in gi.points if p.f is f and p.n is not None and p.n['i'] in body and p.n['k'] == 'call' and p.n.get('virt') and
                 strip_targs(p.n.get('c', '')).endswith('TextMapPropagator::Inject')]
        ok = len(callp) == 1 and [strip_casts(f, a).get('id') for a in callp[0].n['args']] == [p['id'] for p in f.params] and \
            loop_visits_every_element(gi, f, loops[0], callp) is None
    ck.verdict(ok, rule, f, 'inject-every-propagator', loops[0] if loops else None, 'every propagator injects' if ok else 'Inject does not call every configured propagator with carrier and context')
    f = prog.function(cls + '::Extract')
    g = Graph(prog, f, inline=None, sync_lambdas=False)
    rd = reaching_defs(g)
    ex = [p for p in g.points if p.n is not None and p.n['k'] == 'call' and p.n.get('virt') and strip_targs(p.n.get('c', '')).endswith('TextMapPropagator::Extract')]
    if not ex:
        ck.violation(rule, f, 'extract-threads-context', None, 'Extract never calls the propagators')
        return
    ctxp = f.params[1]
    # accumulator of each call: the variable its result is assigned to
    def acc_of(p):
        pm = f.parent_map()
        x = p.n['i']
        while x in pm:
            x = pm[x]
            n = f.nodes[x]
            if n['k'] == 'call' and n.get('op') == '=' and n.get('obj') is not None and strip_casts(f, n['obj'])['k'] == 'ref':
                return strip_casts(f, n['obj'])['id'], g.point_of.get((id(g.root_ctx), n['i']))
            if n['k'] == 'declstmt':
                return n['decls'][0]['id'], g.point_of.get((id(g.root_ctx), n['i']))
        return None, None
    bad = None
    for e1 in ex:
        a1, asg = acc_of(e1)
        if a1 is None:
            bad = (e1, 'the result of a propagator is discarded')
            break
        for e2 in ex:
            arg = strip_casts(f, e2.n['args'][1])
            if arg['k'] != 'ref':
                if arg['k'] == 'unop' and arg['op'] == '*':
                    # the context is threaded through a pointer that is re-seated after every propagator: a data flow this rule does
                    # not follow - say so instead of guessing
                    for st in ('extract-threads-context', 'extract-returns-accumulator', 'extract-empty-list-returns-caller-context'):
                        ck.inconclusive(rule, f, st, e2.n, 'the context is handed on through a pointer (*p): aliasing is not followed by this rule')
                    return
                bad = (e2, 'context argument is not a variable')
                break
            if arg['id'] == a1:
                continue
            # e2 takes another variable: every feasible path e1 -> e2 must refresh it from the accumulator of e1
            refresh = []
            for p in g.points:
                if p.n is None:
                    continue
                for (vid, strong, vx) in defs_in_node(f, p.n):
                    if vid == arg['id'] and vx is not None and strip_casts(f, vx).get('id') == a1:
                        refresh.append(p)
            pth = feasible_armed_reach(g, [asg or e1], refresh, [e2])
            if pth is not None:
                bad = (e2, 'a later propagator receives %s, which on a feasible path does not hold the previous propagator\'s result' % arg['name'])
                break
        if bad:
            break
    # the parameter is used only in the first iteration, the accumulator is returned
    ck.verdict(bad is None, rule, f, 'extract-threads-context', (bad[0].n if bad else ex[0].n),
               'each propagator receives the previous one\'s result on every feasible path' if bad is None else
               'CompositePropagator::Extract does not thread the context: %s (what the propagators in between extracted is lost)' % bad[1])
    rets = g.returns()
    accs = {acc_of(e)[0] for e in ex}
    def ret_ok(r):
        if any(f.nodes[i]['k'] == 'ref' and f.nodes[i].get('id') in accs for i in f.subtree(r.n['e'])):
            return True
        # the caller's context itself, on a path on which no propagator has run (empty list)
        after_call = any(r.id in g.reachable_from([q for (q, _l) in e.succ]) for e in ex)
        return strip_casts(f, r.n['e']).get('id') == ctxp['id'] and not after_call
    ok = bool(rets) and all(ret_ok(r) for r in rets) and any(any(f.nodes[i]['k'] == 'ref' and f.nodes[i].get('id') in accs for i in f.subtree(r.n['e'])) for r in rets)
    ck.verdict(ok, rule, f, 'extract-returns-accumulator', rets[0].n if rets else None, 'the accumulated context is returned' if ok else 'Extract does not return the accumulated context')
    # empty propagator list: on the paths on which no propagator runs, what is returned is the caller's context (not a blank one)
    no_call = g.reachable_from(g.entry, avoid=ex)
    env0 = {'this.propagators_.size()': 0}
    bad0 = None
    for r in rets:
        if r.id not in no_call:
            continue
        e = r.n['e']
        hops = 0
        while e is not None and hops < 8:
            hops += 1
            n = f.nodes[e]
            if n['k'] == 'cast' or (n['k'] == 'construct' and len(n.get('args', [])) == 1):
                e = n['e'] if n['k'] == 'cast' else n['args'][0]
                continue
            if n['k'] == 'cond':
                c = ieval(g, rd, f, n['cnd'], r.ctx, env0)
                if c is None:
                    e = None
                    break
                e = n['a'] if c else n['b']
                continue
            break
        leaf = f.nodes[e] if e is not None else None
        if leaf is None or leaf['k'] != 'ref':
            bad0 = bad0 or (r, None)
            continue
        if leaf.get('id') == ctxp['id']:
            continue
        # an accumulator: every definition of it other than the propagator results must be derived from the parameter
        other = []
        for p in g.points:
            if p.n is None or p.f is not f:
                continue
            for (vid, strong, vx) in defs_in_node(f, p.n):
                if vid == leaf.get('id') and strong and not any(x.n['i'] in f.subtree(p.n['i']) for x in ex):
                    other.append((p, vx))
        from_ctx = other and all(vx is not None and vx >= 0 and any(f.nodes[i]['k'] == 'ref' and f.nodes[i].get('id') == ctxp['id'] for i in list(f.subtree(vx)) + [vx]) for (p, vx) in other)
        if not from_ctx:
            bad0 = (r, leaf.get('name'))
    if bad0 is not None and bad0[1] is None:
        ck.inconclusive(rule, f, 'extract-empty-list-returns-caller-context', bad0[0].n, 'what is returned when no propagator is configured does not fold')
    else:
        ck.verdict(bad0 is None, rule, f, 'extract-empty-list-returns-caller-context', bad0[0].n if bad0 else None,
                   'with no propagator configured the caller\'s context is returned' if bad0 is None else
                   'with an empty propagator list Extract returns %s, a blank context: everything the caller\'s context held (baggage, active span) is lost' % bad0[1])


PRINTABLE = frozenset(range(0x20, 0x7f))


def rule_r7(ck, prog, rule='C15.R7', cls='baggage::Baggage'):
    """The validity class of decoded keys and values, as an exhaustive byte table: the character predicate every key / value
    must pass accepts exactly the printable ASCII bytes 0x20..0x7E (with `char` signed, as on the configured platform).
    The predicate is found by role: a static bool member of Baggage over one string_view whose body loops over its characters."""
    cnt = 0
    for f in sorted(prog.funcs.values(), key=lambda x: x.qn):
        if not strip_targs(f.qn).rsplit('::', 1)[0].endswith(cls) or f.d.get('lambda') or not f.blocks:
            continue
        if (f.d.get('ret') or '') != 'bool' or len(f.params) != 1 or 'string_view' not in f.params[0]['t']:
            continue
        loops = [n for n in f.nodes if n['k'] in ('forrange', 'for', 'while')]
        if len(loops) != 1:
            continue
        lp = loops[0]
        cnt += 1
        subj = _loop_subject(f, lp)
        g = Graph(prog, f, inline=None, sync_lambdas=False)
        starts = iteration_starts(g, f, lp)
        rets = g.returns()
        rej = [r for r in rets if strip_casts(f, r.n['e'])['k'] == 'lit' and strip_casts(f, r.n['e']).get('v') == 0]
        body = set(f.subtree(lp['body']))
        if len(starts) != 1 or not rej or not all(r.n['i'] in body for r in rej):
            ck.inconclusive(rule, f, 'validity-class-is-printable-ascii', None, 'shape of the character loop not understood')
            continue
        conds = [i for i in body if (f.nodes[i]['k'] == 'binop' and f.nodes[i]['op'] in ('<', '>', '<=', '>=', '==', '!=', '&&', '||')) or
                 (f.nodes[i]['k'] == 'unop' and f.nodes[i]['op'] == '!') or (f.nodes[i]['k'] == 'call' and strip_targs(f.nodes[i].get('c', '')).rsplit('::', 1)[-1] in CTYPE)]
        acc, unknown = set(), []
        nxt = [q for (q, _l) in starts[0].succ] or [starts[0]]
        for b in range(256):
            pins = {}
            for i in conds:
                t = byte_truth(f, i, subj, b)
                if t is not None:
                    pins[i] = t
            can_rej = feasible_reach(g, [starts[0]], rej, pins=pins) is not None
            # the byte is accepted when the iteration can complete: the loop header / the exit is reachable avoiding the rejecting returns
            can_acc = feasible_reach(g, [starts[0]], [g.exit], avoid=rej, pins=pins) is not None
            if can_rej and can_acc:
                unknown.append(b)
            elif can_acc:
                acc.add(b)
        if unknown:
            ck.inconclusive(rule, f, 'validity-class-is-printable-ascii', None, 'bytes %s are neither definitely accepted nor rejected' % describe(frozenset(unknown)))
            continue
        ok = frozenset(acc) == PRINTABLE
        ck.verdict(ok, rule, f, 'validity-class-is-printable-ascii', None,
                   'accepts exactly %s (all 256 bytes evaluated)' % describe(PRINTABLE) if ok else
                   'keys / values may contain %s; valid baggage text is %s: %s' % (describe(frozenset(acc)), describe(PRINTABLE),
                   ('bytes %s are accepted although they are not printable ASCII' % describe(frozenset(acc) - PRINTABLE)) if frozenset(acc) - PRINTABLE else
                   ('printable bytes %s are refused' % describe(PRINTABLE - frozenset(acc)))))
    if cnt == 0:
        raise AnalysisBroken('C15.R7: no character-class predicate found in %s' % cls)


def rule_r8(ck, prog, rule='C15.R8', fn='baggage::Baggage::FromHeader'):
    """Per-member state of the header parser is fresh in every iteration: a local that a call inside the member loop may set
    through an out-parameter (the decode error flag) and that guards the insertion is (re)initialised on every path from the start
    of the iteration to its first mention - otherwise one malformed member decides the fate of every later, well-formed one."""
    f = prog.function(fn)
    g = Graph(prog, f, inline=None, sync_lambdas=False)
    loops = [n for n in f.nodes if n['k'] in ('while', 'for', 'forrange', 'do')]
    loops = [l for l in loops if any(f.nodes[i]['k'] == 'call' and strip_targs(f.nodes[i].get('c', '')).endswith('::AddEntry') for i in f.subtree(l['body']))]
    if len(loops) != 1:
        raise AnalysisBroken('C15.R8: member loop of %s not found' % fn)
    lp = loops[0]
    body = set(f.subtree(lp['body']))
    body = set(f.subtree(lp['body']))
    # locals written through out-parameters by calls in the body
    cand = {}
    for i in sorted(body):
        n = f.nodes[i]
        if n['k'] not in ('call', 'construct'):
            continue
        for (vid, strong, vx) in defs_in_node(f, n):
            if not strong:
                cand.setdefault(vid, []).append(i)
    decls = {d['id']: d for n in f.nodes if n['k'] == 'declstmt' for d in n['decls']}
    found = 0
    for vid, sites in sorted(cand.items()):
        d = decls.get(vid)
        if d is None or d.get('t') != 'bool':
            continue
        if not any(f.nodes[i]['k'] == 'ref' and f.nodes[i].get('id') == vid for i in body):
            continue
        found += 1
        bad, why = stale_across_iterations(g, f, lp, vid)
        if bad is None:
            ck.inconclusive(rule, f, 'per-member-state-fresh:%s' % d['name'], None, why)
            continue
        ck.verdict(not bad, rule, f, 'per-member-state-fresh:%s' % d['name'], bad[0].n if bad else None,
                   '%s is initialised in every iteration before it is used' % d['name'] if not bad else
                   'the flag %s, which calls in the member loop set through an out-parameter and which guards the insertion, is not re-initialised at the start of an iteration: once one member fails to decode every later well-formed member is dropped as well' % d['name'])
    return found


def run(ck, prog):
    ck.doc('C15.R1', 'no member of Baggage modifies the object it is called on', 6)
    ck.doc('C15.R2', 'copy callbacks of Set/Delete exclude the given key; Delete allocates room for every entry it may copy', 3)
    ck.doc('C15.R3', 'size limits 8192/180/4096 (on the whole member) and the validity conjunction guard the insertion; what is stored is what was validated', 9)
    ck.doc('C15.R4', 'encoder/decoder alphabets agree (byte sets); escape digit values (exhaustive); escape guard; metadata bypass; stored text encoded unaltered', 7)
    ck.doc('C15.R5', 'BaggagePropagator::Extract installs only a non-empty parsed baggage, into the context it was given', 3)
    ck.doc('C14.R5', '(shared rule, see C14) the tokenizer hands out the member parts untransformed', 1)
    ck.doc('C14.R6', '(shared rule, see C14) Trim removes exactly the whitespace class on both edges; the right index cannot step below zero', 3)
    ck.doc('C15.R6', 'CompositePropagator: Inject calls all; Extract threads the context on every feasible path; an empty list returns the caller\'s context', 4)
    ck.doc('C15.R7', 'validity class of decoded keys/values is exactly printable ASCII 0x20..0x7E (all 256 bytes evaluated)', 1)
    ck.doc('C15.R8', 'per-member parser state (the decode error flag) is re-initialised in every iteration of the member loop', 1)
    with ck.canary('C15.R6'):
        rule_r6(ck, prog, cls='canary::c15::BadComposite')
    c14.rule_r1(ck, prog, cls='baggage::Baggage', rule='C15.R1')
    c14.rule_r3_copy(ck, prog, cls='baggage::Baggage', rule='C15.R2')
    rule_r3(ck, prog)
    rule_r4(ck, prog)
    rule_r5(ck, prog)
    rule_r6(ck, prog)
    rule_r7(ck, prog)
    rule_r8(ck, prog)
    ck.doc('C14.R8', '(shared rule, see C14) ToHeader writes the member separator before every member but the first', 1)
    from . import c19
    ck.doc('C19.R1', '(shared rule, see C19) no string_view::data() into a call without the view\'s length in the baggage API and its propagator (a header view is not NUL-terminated)', 0)
    c19.rule_r1(ck, prog, path_filters=('/api/include/opentelemetry/baggage/',), observe_others=False)
    c14.rule_separator_between_members(ck, prog, 'baggage::Baggage::ToHeader', 'C14.R8')
    c14.rule_member_parts_written(ck, prog, 'baggage::Baggage::ToHeader', 'C14.R8')
    c14.rule_r2_validated_is_stored(ck, prog, cls='baggage::Baggage', rule='C15.R3', names=('FromHeader',))
    c14.rule_r5_tokenizer(ck, prog, rule='C14.R5')
    c14.rule_r6(ck, prog, rule='C14.R6')
    c14.rule_r3_alloc(ck, prog, cls='baggage::Baggage', rule='C15.R2')
    return {}
