"""C03 - exporters are driven one call at a time and within the configured batch bounds."""
from ..ir import AnalysisBroken, strip_targs, qmatch
from ..graph import Graph
from ..symb import feasible_reach
from ..expr import access_path, path_str, held_locks, reaching_defs, defs_in_node, leaves, origins, norm_cond
from ..callgraph import CallGraph
from .common import (Roles, EXPORTER_EXPORT, same_class_inline, member_funcs, nonzero_polarity, comparison,
                     strip_casts, expr_equal, short, FLIP, cond_text, atomic_op)

UNITS = ['sdk/src/trace/batch_span_processor.cc', 'sdk/src/logs/batch_log_record_processor.cc',
         'sdk/src/logs/simple_log_record_processor.cc',
         'sdk/src/metrics/export/periodic_exporting_metric_reader.cc']
DRIVERS = ['trace_headers.cc']
CANARIES = ['c03_canary.cc']

EXPLANATION = (
    'Static rules over the clang AST/CFG of the configured build. C03.R1 (lock-held-at-call): in the simple '
    'processors every call of the exporter\'s Export lies inside the scope of an RAII guard on the processor\'s '
    'own mutex member (must-held lock dataflow). C03.R2 (who-may-call): in the batch processors and the periodic '
    'reader every function containing an Export call is reachable in the call graph only from the worker thread '
    'entry (the function handed to std::thread), never from a public member; exactly one place starts that '
    'worker; the periodic reader joins its per-cycle task thread on every path before the cycle returns. '
    'C03.R3 (bounded count, three-valued): every reaching definition of the count handed to '
    'CircularBuffer::Consume in the export cycle is bounded by the member initialised from '
    'max_export_batch_size (recognised bounded forms enumerated in DESIGN §4 C03.R3). C03.R4 (dominance): the '
    'Export call is dominated by the non-zero outcome of a test of that count.')
EXPLANATION += ' While the pending-flush branch is unbounded (recorded finding D1), no member other than the flush entry may write the pending ticket (who-may-write): another writer arms the unbounded branch without any ForceFlush.'
ROUND2_EXPLANATION = (" C03.R1 also: every explicit unlock() of the processor's mutex is behind lock() / a successful try_lock() of the same member (unlock only by the owner). C03.R2 also: a task thread that reaches the exporter is never detached.")
EXPLANATION += ROUND2_EXPLANATION
NOT_DECIDED = ('nothing of the statement is left undecided structurally, except that R2 trusts the join/worker '
               'discipline (C02.R6) for "no two worker threads at once"; the known finding D1 is an exception to R3.')


def _is_mutex_field(rec, name):
    for fd in rec['fields']:
        if fd['name'] == name and ('Mutex' in fd['t'] or 'mutex' in fd['t']):
            return True
    return False


def rule_r1(ck, prog, cls_suffix, method):
    """LOCK: Export under the processor's own mutex"""
    rec = prog.record(cls_suffix)
    fs = [f for f in prog.funcs.values() if f.cls == rec['qn'] and f.name == method]
    if not fs:
        raise AnalysisBroken('%s::%s vanished' % (cls_suffix, method))
    n_sites = 0
    for f in fs:
        g = Graph(prog, f, inline=same_class_inline(prog, rec['qn']), max_depth=5)
        held = held_locks(g)
        for p in g.calls(EXPORTER_EXPORT):
            n_sites += 1
            locks = held.get(p.id, frozenset())
            own = [l for l in locks if l.startswith('this.') and _is_mutex_field(rec, l.split('.')[1])]
            site = 'export-call'
            if own:
                ck.holds('C03.R1', f, site, p.n, 'Export called holding %s' % ','.join(sorted(own)))
            else:
                ck.violation('C03.R1', f, site, p.n,
                             'exporter Export is called without holding the processor\'s own mutex (held: %s)' %
                             (','.join(sorted(locks)) or 'none'),
                             path=g.describe_path(g.path(g.entry, p) or []))
    # the lock that serialises Export is only ever released by its owner: every explicit unlock() of the processor's mutex is
    # behind an acquisition of the same function (lock(), or the true edge of try_lock()) - an unlock by a member that does not hold
    # the lock frees it under the thread that is inside Export, and the next OnEnd / OnEmit enters Export alongside it
    for f in member_funcs(prog, rec['qn']):
        if f.d.get('lambda') or not f.blocks:
            continue
        unl = [n for n in f.nodes if n['k'] == 'call' and strip_targs(n.get('c', '')).rsplit('::', 1)[-1] == 'unlock' and n.get('obj') is not None and
               access_path(f, n['obj'])[:1] == ('this',) and len(access_path(f, n['obj'])) == 2 and _is_mutex_field(rec, access_path(f, n['obj'])[1])]
        if not unl:
            continue
        g = Graph(prog, f, inline=None)
        for un in unl:
            fld = access_path(f, un['obj'])[1]
            up = g.point_of.get((id(g.root_ctx), un['i']))
            locks_ = [q for q in g.points if q.f is f and q.n is not None and q.n['k'] == 'call' and q.n.get('obj') is not None and
                      access_path(f, q.n['obj']) == ('this', fld) and strip_targs(q.n.get('c', '')).rsplit('::', 1)[-1] == 'lock']

            def try_true(a, b, lab, fld=fld):
                if not lab or not isinstance(lab[0], int):
                    return False
                core, pol = norm_cond(lab[1], lab[0])
                cn = lab[1].nodes[core]
                if cn['k'] == 'call' and strip_targs(cn.get('c', '')).rsplit('::', 1)[-1] == 'try_lock' and cn.get('obj') is not None and \
                        access_path(lab[1], cn['obj']) == ('this', fld):
                    return (lab[2] if pol else not lab[2]) is True
                return False
            n_sites += 1
            owned = up is not None and g.entry.id is not None and up.id not in g.reachable_from(g.entry, avoid=locks_, avoid_edges=try_true)
            ck.verdict(owned, 'C03.R1', f, 'unlock-only-by-owner:%s' % f.name, un,
                       'unlock() is behind lock() / a successful try_lock() of the same member' if owned else
                       '%s can call %s.unlock() without holding it (the result of try_lock() is ignored, or nothing was locked): the lock is released under the thread that is inside Export and a concurrent OnEnd / OnEmit enters Export alongside it' % (short(f), fld))
    # every other member that calls Export must hold it too
    for f in member_funcs(prog, rec['qn']):
        if f.name == method or f.d.get('lambda'):
            continue
        g = Graph(prog, f, inline=None)
        pts = g.calls(EXPORTER_EXPORT)
        if not pts:
            continue
        held = held_locks(g)
        for p in pts:
            locks = held.get(p.id, frozenset())
            own = [l for l in locks if l.startswith('this.') and _is_mutex_field(rec, l.split('.')[1])]
            callers = [prog.funcs[k] for k in CallGraph(prog).callers_of(f.key)] if not own else []
            if own:
                ck.holds('C03.R1', f, 'export-call', p.n, 'holding %s' % own[0])
            elif f.d.get('access') == 'private' and callers:
                continue  # helper inlined into its callers above
            else:
                ck.violation('C03.R1', f, 'export-call', p.n, 'Export called from %s without the mutex' % short(f))
    return n_sites


def rule_r2(ck, prog, cg, roles, rule='C03.R2', which=EXPORTER_EXPORT, what='Export'):
    """WHO: exporter call sites reachable only from the worker thread entry"""
    cls = roles.cls
    funcs = roles.funcs
    export_fns = []
    for f in funcs:
        for n in f.nodes:
            if roles.is_exporter_call(f, n, which):
                export_fns.append((f, n))
    if not export_fns:
        raise AnalysisBroken('%s: no call of the exporter\'s Export found' % roles.short)
    entries = roles.thread_entries
    if not entries:
        raise AnalysisBroken('%s: no worker thread entry found' % roles.short)
    # public surface: every non-private method of the class, except lambdas
    # entry points reached on a caller's thread: public members, and overrides of base-class virtuals of any access
    # (OnShutDown/OnForceFlush are private overrides invoked through the base class's public Shutdown/ForceFlush)
    public = [f for f in funcs if f.cls == cls and not f.d.get('lambda') and (f.d.get('access') == 'public' or f.d.get('over'))]
    n = 0
    for (ef, en) in export_fns:
        n += 1
        # reachable from a thread entry?
        from_worker = any(ef.key in cg.reachable([t], follow_threads=True) for t in entries)
        bad = []
        for pf in public:
            if pf.key in entries:
                continue
            if ef.key in cg.reachable([pf.key], follow_threads=False):
                bad.append(pf)
        # callers outside the class (any analysed unit)
        outside = []
        member_keys = {f.key for f in funcs}
        for k, cs in cg.calls.items():
            if ef.key in cs and k not in member_keys:
                q = strip_targs(prog.funcs[k].qn)
                if q.startswith('opentelemetry::nostd::function_ref') or q.startswith('std::'):
                    continue  # type-erasure trampoline instantiated for the closure, not a caller of its own
                outside.append(prog.funcs[k])
        site = '%s-call-in:%s' % (strip_targs(en.get('c', '')).rsplit('::', 1)[-1].lower(), 'lambda' if ef.d.get('lambda') else ef.name)
        if bad or outside:
            who = bad[0] if bad else outside[0]
            pth = cg.path(who.key, ef.key) or []
            ck.violation(rule, ef, site, en,
                         'exporter %s is reachable from %s on the caller\'s thread, not only from the worker' % (what, short(who)),
                         path=' -> '.join(short(prog.funcs[k]) for k in pth))
        elif not from_worker:
            ck.inconclusive(rule, ef, site, en, 'Export site is not reachable from any thread entry of the class')
        else:
            ck.holds(rule, ef, site, en, 'only reachable from worker entry %s' %
                     ','.join(short(prog.funcs[t]) for t in entries if ef.key in cg.reachable([t], follow_threads=True)))
    return n


def rule_r2_single_worker(ck, prog, cg, roles, per_cycle_ok=False):
    """exactly one long-lived worker is started; per-cycle task threads are joined on every path"""
    for (sf, t) in roles.thread_starts:
        tf = prog.funcs[t]
        reaches_export = any(roles.is_exporter_call(prog.funcs[k], n, EXPORTER_EXPORT)
                             for k in cg.reachable([t], follow_threads=False) if k in prog.funcs
                             for n in prog.funcs[k].nodes)
        site = 'thread-start-in:%s' % sf.name
        if sf.kind == 'ctor' or sf.name in ('OnInitialized',):
            ck.holds('C03.R2', sf, site, None, 'worker %s started once per object (constructor/initialisation)' % short(tf))
            continue
        if not reaches_export:
            continue
        # the function that starts a task thread which drives the exporter must itself run only on the worker:
        # started from a caller's thread (e.g. a final collect in OnShutDown) it exports concurrently with the worker's cycle
        entries2 = [f for f in roles.funcs if f.cls == roles.cls and not f.d.get('lambda') and (f.d.get('access') == 'public' or f.d.get('over')) and
                    f.key not in roles.thread_entries and f.kind not in ('ctor', 'dtor')]
        offenders = [e for e in entries2 if sf.key in cg.reachable([e.key], follow_threads=False)]
        if offenders:
            pth = cg.path(offenders[0].key, sf.key) or []
            ck.violation('C03.R2', sf, 'task-thread-started-only-by-worker', None,
                         '%s, which starts a thread that calls the exporter\'s Export, is reachable from %s on the caller\'s thread: that export runs concurrently with the worker\'s own cycle' % (short(sf), short(offenders[0])),
                         path=' -> '.join(short(prog.funcs[k]) for k in pth))
        else:
            ck.holds('C03.R2', sf, 'task-thread-started-only-by-worker', None, 'the per-cycle task thread is started only on the worker')
        # a thread started elsewhere that reaches Export: must be joined before the starter returns
        g = Graph(prog, sf, inline=None, sync_lambdas=False)
        starts = g.calls('std::thread::thread')
        joins = g.calls('std::thread::join')
        detaches = g.calls('std::thread::detach')
        if detaches:
            ck.violation('C03.R2', sf, site + ':no-detach', detaches[0].n,
                         'a task thread that reaches the exporter can be detached: it keeps running (and may still be inside Export) after the cycle that started it has ended - the next cycle\'s Export overlaps it, and it can outlive Shutdown')
            continue

        from .common import no_thread_edge as infeasible
        ok = True
        for s in starts:
            r = g.reachable_from(s, avoid=joins, avoid_edges=infeasible)
            if g.exit.id in r:
                ok = False
                ck.violation('C03.R2', sf, site, s.n,
                             'a task thread that reaches the exporter is started here and a path to the function exit does not join it',
                             path=g.describe_path(g.path(s, g.exit, avoid=joins, avoid_edges=infeasible) or []))
        if ok and starts:
            ck.holds('C03.R2', sf, site, starts[0].n, 'per-cycle task thread joined on every path before return')
        elif not starts:
            ck.inconclusive('C03.R2', sf, site, None, 'thread start not found as std::thread construction')


def _bounded(prog, g, rd, p_use, f, idx, bound_field, ctx, depth=0, seen=None):
    """three-valued: True (bounded by bound_field), False (definitely unbounded), None (unknown).
    Returns (verdict, description, def point or None)"""
    if seen is None:
        seen = set()
    from .common import deparam
    f, idx, ctx = deparam(f, idx, ctx)
    n = strip_casts(f, idx)
    i = n['i']
    k = n['k']

    def is_bound(j):
        f2, j2, c2 = deparam(f, j, ctx)
        m = strip_casts(f2, j2)
        if m['k'] == 'member':
            p = access_path(f2, m['i'], c2)
            return p == ('this', bound_field)
        return False
    if is_bound(i):
        return True, 'the batch bound itself', None
    if k == 'cond':
        cmp_ = comparison(f, n['cnd'])
        if cmp_:
            op, l, r = cmp_
            if is_bound(l) and not is_bound(r):
                op, l, r = FLIP[op], r, l
            if is_bound(r):
                # x op M ? a : b   -- x must be one stable snapshot (a local), not an expression evaluated twice:
                # `q.size() >= M ? M : q.size()` reads the queue twice and producers add in between
                a, b = n['a'], n['b']
                stable = strip_casts(f, l)['k'] == 'ref' and strip_casts(f, l).get('sk') in ('local', 'param')
                if op in ('>=', '>') and is_bound(a) and expr_equal(f, b, l):
                    if stable:
                        return True, 'x %s M ? M : x' % op, None
                    return False, 'x %s M ? M : x where x is re-evaluated (%s read twice): the value used can exceed the one compared' % (op, cond_text(f, l)), None
                if op in ('<=', '<') and is_bound(b) and expr_equal(f, a, l):
                    if stable:
                        return True, 'x %s M ? x : M' % op, None
                    return False, 'x %s M ? x : M where x is re-evaluated (%s read twice): the value used can exceed the one compared' % (op, cond_text(f, l)), None
        va = _bounded(prog, g, rd, p_use, f, n['a'], bound_field, ctx, depth + 1, seen)
        vb = _bounded(prog, g, rd, p_use, f, n['b'], bound_field, ctx, depth + 1, seen)
        if va[0] is True and vb[0] is True:
            return True, 'both arms bounded', None
        if va[0] is False:
            return va
        if vb[0] is False:
            return vb
        return None, 'conditional with an arm of unknown bound', None
    if k == 'call':
        # a private helper inlined into the graph: the value is what it returns - every return has to be bounded
        for c_ in g.ctxs:
            if c_.call is n and c_.parent is ctx and not c_.lambda_of:
                rets = [p_ for p_ in g.points if p_.ctx is c_ and p_.n is not None and p_.n['k'] == 'return' and p_.n.get('e') is not None and p_.n['e'] >= 0]
                worst = None
                for rp in rets:
                    r_ = _bounded(prog, g, rd, rp, c_.f, rp.n['e'], bound_field, c_, depth + 1, seen)
                    if r_[0] is False:
                        return False, r_[1], (r_[2] or rp)
                    if r_[0] is None:
                        worst = (None, r_[1], rp)
                if rets:
                    return worst or (True, 'every return of the helper is bounded', None)
        c = strip_targs(n.get('c', '') or '')
        if c in ('std::min',) and any(_bounded(prog, g, rd, p_use, f, a, bound_field, ctx, depth + 1, seen)[0] is True
                                       for a in n.get('args', [])):
            return True, 'std::min with the bound', None
        last = c.rsplit('::', 1)[-1]
        if last == 'size' and n.get('obj') is not None:
            return False, 'plain %s() with no upper bound' % c, None
        return None, 'value of call %s' % c, None
    if k == 'binop' and n['op'] == '-':
        v = _bounded(prog, g, rd, p_use, f, n['lhs'], bound_field, ctx, depth + 1, seen)
        if v[0] is True:
            return True, 'bounded minus something', None
        return None, 'difference of unknown bound', None
    if k == 'ref' and n.get('sk') in ('local',) and depth < 6:
        vid = n['id']
        # reaching definitions of vid at the point of this reference
        pt = None
        for p in g.points:
            if p.n is n and p.ctx is ctx:
                pt = p
                break
        if pt is None:
            pt = p_use
        defs = [g.points[d] for (v, d) in rd.get(pt.id, ()) if v == vid]
        if not defs:
            return None, 'no reaching definition found for %s' % n['name'], None
        worst = (True, 'all reaching definitions bounded', None)
        for dp in defs:
            if (dp.id, vid) in seen:
                continue
            seen.add((dp.id, vid))
            val = None
            for (v, strong, vx) in defs_in_node(dp.f, dp.n):
                if v == vid:
                    val = vx
            if val is None:
                continue  # declaration without initialiser
            r = _bounded(prog, g, rd, dp, dp.f, val, bound_field, dp.ctx, depth + 1, seen)
            if r[0] is not True:
                # accept an unbounded definition that can only reach the use along the 'not greater' edge of
                # a comparison of this variable with the bound (if (n > M) n = M;)
                def le_edge(p, q, lab, _vid=vid, _ctx=dp.ctx):
                    if not lab or not isinstance(lab[0], int):
                        return False
                    ff = lab[1]
                    cmp2 = comparison(ff, lab[0])
                    if not cmp2:
                        return False
                    op, l, r2 = cmp2
                    lm, rm = strip_casts(ff, l), strip_casts(ff, r2)
                    if rm['k'] == 'ref' and rm.get('id') == _vid:
                        op, l, r2, lm, rm = FLIP[op], r2, l, rm, lm
                    if not (lm['k'] == 'ref' and lm.get('id') == _vid):
                        return False
                    if not (rm['k'] == 'member' and access_path(ff, rm['i'], p.ctx) == ('this', bound_field)):
                        return False
                    # var op M: edge taken when condition == lab[2]
                    return (op in ('>', '>=') and lab[2] is False) or (op in ('<', '<=') and lab[2] is True)
                if g.must_pass_edge(p_use, le_edge, src=dp):
                    continue
                if r[0] is False:
                    return False, r[1], (r[2] or dp)
                worst = (None, r[1], dp)
        return worst
    if k == 'lit':
        return None, 'constant', None
    return None, 'expression of kind %s' % k, None


def _ticket_split(prog, g, rd, roles, cp):
    """When the count handed to Consume is (a local whose single reaching definition is) a conditional expression on the pending
    flush ticket, return (function, definition point, arm taken with a ticket pending, arm taken without, ctx); else None."""
    f, idx, ctx, pt = cp.f, cp.n['args'][0], cp.ctx, cp
    for _hop in range(5):
        n = strip_casts(f, idx)
        if n['k'] == 'ref' and n.get('sk') == 'param' and ctx is not None and ctx.call is not None and not ctx.lambda_of:
            pi = [k for k, pr in enumerate(f.params) if pr['id'] == n['id']]
            if not pi or pi[0] >= len(ctx.call.get('args', [])):
                return None
            npt = g.point_of.get((id(ctx.parent), ctx.call['i']))
            f, idx, ctx, pt = ctx.caller, ctx.call['args'][pi[0]], ctx.parent, (npt or pt)
            continue
        if n['k'] == 'ref' and n.get('sk') == 'local':
            rp = g.point_of.get((id(ctx), n['i'])) or pt
            defs = [g.points[d] for (v, d) in rd.get(rp.id, ()) if v == n['id']]
            vals = [(dp, vx) for dp in defs for (v, st, vx) in defs_in_node(dp.f, dp.n) if v == n['id'] and vx is not None]
            if len(vals) != 1:
                return None
            dp, vx = vals[0]
            f, idx, ctx, pt = dp.f, vx, dp.ctx, dp
            continue
        break
    n = strip_casts(f, idx)
    if n['k'] != 'cond':
        return None
    lv = leaves(f, n['cnd'])
    fields = {l[1] for l in lv if l[0] == 'field'}
    if not (roles.pending and roles.pending in fields):
        return None
    from ..expr import norm_cond
    core, pol = norm_cond(f, n['cnd'])
    c = comparison(f, core)
    pending_when_true = pol
    if c and c[0] == '==' and strip_casts(f, c[2]).get('v') == 0:
        pending_when_true = not pol
    a, b = (n['a'], n['b']) if pending_when_true else (n['b'], n['a'])
    return f, pt, a, b, ctx


def _depends_on_pending(g, roles, f, cnd, ctx, depth=0):
    """None when the condition does not test the pending flush ticket; else the truth value of the condition that means
    "a ticket is pending" (follows locals and helper parameters; `x`, `x != 0`, `x > 0` mean pending when true, `x == 0` when false)"""
    from ..expr import norm_cond, reaching_defs as _rdx
    if not roles.pending or depth > 4:
        return None
    rd_ = getattr(g, '_rd_cache', None)
    if rd_ is None:
        rd_ = _rdx(g)
        g._rd_cache = rd_
    core, pol = norm_cond(f, cnd)
    c = comparison(f, core)
    subj, inv = core, False
    if c and strip_casts(f, c[2]).get('v') == 0:
        subj = c[1]
        inv = (c[0] == '==')
    elif c:
        return None if not any(_mentions_pending(g, rd_, roles, f, x, ctx) for x in (c[1], c[2])) else (pol if c[0] in ('>', '!=') else None)
    for (sf, sn, sc) in origins(g, rd_, f, subj, ctx):
        if _mentions_pending(g, rd_, roles, sf, sn['i'], sc):
            return pol if not inv else (not pol)
        if sn['k'] == 'binop' or (sn['k'] == 'call' and sn.get('op') in ('==', '!=', '>')):
            sub = _depends_on_pending(g, roles, sf, sn['i'], sc, depth + 1)
            if sub is not None:
                return sub if (pol != inv) else (not sub)
    return None


def _mentions_pending(g, rd_, roles, f, idx, ctx, depth=0):
    for (sf, sn, sc) in origins(g, rd_, f, idx, ctx):
        for j in sf.subtree(sn['i']):
            m = sf.nodes[j]
            o = atomic_op(m)
            if o and o[0] == 'load' and path_str(access_path(sf, m['obj'], sc)) == roles.pending:
                return True
    return False


def _controlling_role(g, roles, dp):
    """describe the branch under which definition point dp executes, by role"""
    f = dp.f
    # nearest labelled edge on a path from entry that must be taken
    best = None
    for p in g.points:
        for (q, lab) in p.succ:
            if lab and isinstance(lab[0], int) and lab[1] is f:
                if g.must_pass_edge(dp, lambda a, b, l, _p=p, _q=q, _lab=lab: a is _p and b is _q):
                    dep = _depends_on_pending(g, roles, f, lab[0], p.ctx)
                    if dep is not None:
                        return 'pending-flush-branch' if (lab[2] is dep) else 'no-pending-flush-branch'
                    best = 'branch:%s' % cond_text(f, lab[0])
    return best or 'unconditional'


def rule_r3_r4(ck, prog, cg, roles):
    if not roles.bound_field:
        raise AnalysisBroken('%s: member initialised from max_export_batch_size not found' % roles.short)
    n3 = n4 = 0
    seen_sites = set()
    unbounded_pending = False
    for t in roles.thread_entries:
        tf = prog.funcs[t]
        g = Graph(prog, tf, inline=same_class_inline(prog, roles.cls), max_depth=5)
        rd = reaching_defs(g)
        consumes = g.calls('CircularBuffer::Consume')
        exports = [p for p in g.calls(EXPORTER_EXPORT)]
        if not consumes or not exports:
            raise AnalysisBroken('%s: export cycle (Consume + Export) not found under worker entry %s' % (roles.short, short(tf)))
        for cp in consumes:
            f = cp.f
            arg = cp.n['args'][0]
            # a count written as one conditional expression on the pending ticket (`pending ? size : min(size, M)`) is judged arm
            # by arm, exactly like the if/else form
            split = _ticket_split(prog, g, rd, roles, cp)
            if split is not None:
                (df, dpt, arm_pending, arm_idle, dctx) = split
                for (where, arm) in (('pending-flush-branch', arm_pending), ('no-pending-flush-branch', arm_idle)):
                    site = 'consume-count@%s' % where
                    if (df.key, site) in seen_sites:
                        continue
                    seen_sites.add((df.key, site))
                    n3 += 1
                    v, why, _dp2 = _bounded(prog, g, rd, dpt, df, arm, roles.bound_field, dctx)
                    if v is True:
                        ck.holds('C03.R3', df, site if where != 'no-pending-flush-branch' else site, dpt.n, 'bounded by %s (%s)' % (roles.bound_field, why))
                    elif v is False:
                        unbounded_pending = unbounded_pending or where == 'pending-flush-branch'
                        ck.violation('C03.R3', df, site, dpt.n, 'a definition of the batch count reaching Consume is not bounded by %s: %s' % (roles.bound_field, why))
                    else:
                        ck.inconclusive('C03.R3', df, site, dpt.n, 'cannot decide whether the count is bounded: %s' % why)
                v = None
                _r4_only = True
            else:
                _r4_only = False
            if not _r4_only:
                v, why, dp = _bounded(prog, g, rd, cp, f, arg, roles.bound_field, cp.ctx)
                where = _controlling_role(g, roles, dp) if dp is not None else 'consume-count'
                site = 'consume-count@%s' % where
            else:
                site = 'consume-count@split'
                dp = None
            key = (f.key, site)
            if key in seen_sites:
                continue
            seen_sites.add(key)
            if _r4_only:
                pass
            elif v is True:
                n3 += 1
                ck.holds('C03.R3', f, 'consume-count', cp.n, 'count passed to Consume is bounded by %s (%s)' % (roles.bound_field, why))
            elif v is False:
                n3 += 1
                unbounded_pending = unbounded_pending or where == 'pending-flush-branch'
                ck.violation('C03.R3', g.unit_ctx(dp.ctx, exports).f if dp is not None else f, site, dp.n if dp is not None else cp.n,
                             'a definition of the batch count reaching Consume is not bounded by %s: %s' % (roles.bound_field, why),
                             path=g.describe_path(g.path(dp, cp) or []) if dp is not None else None)
                # the other reaching definitions are still checked: report a HOLDS/next verdict for them
                others = _other_defs(prog, g, rd, cp, f, arg, roles, dp)
                for (ov, owhy, odp) in others:
                    osite = 'consume-count@%s' % _controlling_role(g, roles, odp)
                    if (f.key, osite) in seen_sites:
                        continue
                    seen_sites.add((f.key, osite))
                    n3 += 1
                    if ov is True:
                        ck.holds('C03.R3', odp.f, osite, odp.n, owhy)
                    elif ov is False:
                        unbounded_pending = unbounded_pending or osite.endswith('@pending-flush-branch')
                        ck.violation('C03.R3', odp.f, osite, odp.n, 'unbounded definition: %s' % owhy)
                    else:
                        ck.inconclusive('C03.R3', f, osite, odp.n, owhy)
            else:
                n3 += 1
                ck.inconclusive('C03.R3', f, site, cp.n, 'cannot decide whether the count is bounded: %s' % why)
            # R4: export dominated by the non-zero test of the same count variable
            cn = strip_casts(f, arg)
            for ep in exports:
                if g.unit_ctx(ep.ctx, exports) is not g.unit_ctx(cp.ctx, exports):
                    continue
                site4 = 'export-nonempty'
                if (ep.f.key, site4) in seen_sites:
                    continue
                seen_sites.add((ep.f.key, site4))
                n4 += 1
                if cn['k'] != 'ref':
                    ck.inconclusive('C03.R4', ep.f, site4, ep.n, 'count passed to Consume is not a local variable')
                    continue
                vids = g.canon_var(cn['id']) | {cn['id']}

                def nz_edge(p, q, lab, _vids=vids):
                    if not lab or not isinstance(lab[0], int):
                        return False
                    for _vid in _vids:
                        pol = nonzero_polarity(lab[1], lab[0], _vid)
                        if pol is not None and pol == lab[2]:
                            return True
                    return False
                def zero_pins():
                    # scenario "the batch count is zero": every test of the count is pinned to its zero outcome; a flag that
                    # carries the outcome (`drained = (n == 0); if (!drained)`) is folded by the path explorer
                    pins = {}
                    for c_ in g.ctxs:
                        for m in c_.f.nodes:
                            if m['k'] not in ('binop', 'unop', 'call', 'cast'):
                                continue
                            for _vid in vids:
                                pol = nonzero_polarity(c_.f, m['i'], _vid)
                                if pol is not None:
                                    pins[(id(c_.f), m['i'])] = (not pol)
                    return pins
                _uc = g.unit_ctx(ep.ctx, exports)
                _start = g.ctx_bounds.get(id(_uc), (g.entry, None))[0]      # the procedure the cycle runs in (inlined copy)
                if g.must_pass_edge(ep, nz_edge) or (zero_pins() and feasible_reach(g, [_start], [ep], pins=zero_pins(), limit=200000) is None):
                    ck.holds('C03.R4', ep.f, site4, ep.n, 'Export dominated by the non-zero outcome of a test of %s' % cn['name'])
                else:
                    pth = g.path(g.entry, ep, avoid_edges=nz_edge)
                    ck.violation('C03.R4', ep.f, site4, ep.n,
                                 'a path reaches the exporter\'s Export without passing the non-empty test of the batch count',
                                 path=g.describe_path(pth or []))
    # While the count taken on the pending-flush branch is not bounded (finding D1), every function that raises the ticket arms
    # that branch. The flush entry is the documented one (and is what the finding describes); any other writer makes the worker
    # take the unbounded branch with no ForceFlush call at all (e.g. during the shutdown drain).
    if unbounded_pending and roles.pending:
        writers = []
        for f in roles.funcs:
            if f is roles.flush:
                continue
            for n in f.nodes:
                op = atomic_op(n)
                if op and op[0] in ('rmw', 'store') and path_str(access_path(f, n['obj'])) == roles.pending:
                    writers.append((f, n))
        if writers:
            for (f, n) in writers:
                ck.violation('C03.R3', f, 'ticket-raised-outside-flush-entry', n,
                             '%s writes the pending flush ticket %s: the worker\'s next cycle takes the pending-flush branch, whose batch count is '
                             'not bounded by %s, without any ForceFlush call' % (f.name, roles.pending, roles.bound_field))
        else:
            ck.holds('C03.R3', roles.flush, 'unbounded-branch-armed-only-by-flush-entry', None,
                     'only %s raises %s' % (roles.flush.name, roles.pending))
    return n3, n4


def _other_defs(prog, g, rd, cp, f, arg, roles, bad_dp):
    out = []
    n = strip_casts(f, arg)
    if n['k'] != 'ref':
        return out
    vid = n['id']
    for (v, d) in rd.get(cp.id, ()):
        if v != vid:
            continue
        dp = g.points[d]
        if dp is bad_dp:
            continue
        val = None
        for (vv, strong, vx) in defs_in_node(dp.f, dp.n):
            if vv == vid:
                val = vx
        if val is None:
            continue
        r = _bounded(prog, g, rd, dp, dp.f, val, roles.bound_field, dp.ctx)
        if r[2] is bad_dp:
            continue   # the same inner definition (a return of an inlined helper), reached through this definition
        out.append((r[0], r[1], dp))
    return out


def run(ck, prog):
    ck.doc('C03.R1', 'simple processors: exporter Export only while holding the processor\'s own mutex', 2)
    ck.doc('C03.R2', 'batch processors/periodic reader: Export call sites reachable only from the single worker thread entry', 6)
    ck.doc('C03.R3', 'every reaching definition of the count passed to Consume is bounded by max_export_batch_size', 2)
    ck.doc('C03.R4', 'Export is dominated by the non-zero outcome of a test of the batch count', 2)
    ck.doc('C01.R3', '(shared rule, see C01) the container handed to Export is filled by this batch\'s Consume only (fresh per batch)', 8)
    ck.doc('C01.R4', '(shared rule, see C01) count handed to Consume derives from size() of the same queue / the batch bound', 2)
    from . import c01
    cg = CallGraph(prog)
    # canaries first: each rule must flag its seeded bad shape
    with ck.canary('C03.R1'):
        rule_r1(ck, prog, 'canary::c03::SimpleNoLock', 'OnEnd')
    with ck.canary('C03.R2'):
        rule_r2(ck, prog, cg, Roles(prog, 'canary::c03::BatchBad', cg=cg))
    with ck.canary('C03.R3'):
        rule_r3_r4(ck, prog, cg, Roles(prog, 'canary::c03::BatchBad', cg=cg))
    with ck.canary('C03.R4'):
        rule_r3_r4(ck, prog, cg, Roles(prog, 'canary::c03::BatchBad2', cg=cg))

    rule_r1(ck, prog, 'sdk::trace::SimpleSpanProcessor', 'OnEnd')
    rule_r1(ck, prog, 'sdk::logs::SimpleLogRecordProcessor', 'OnEmit')
    for cls in ('sdk::trace::BatchSpanProcessor', 'sdk::logs::BatchLogRecordProcessor'):
        roles = Roles(prog, cls, cg=cg)
        rule_r2(ck, prog, cg, roles)
        rule_r2_single_worker(ck, prog, cg, roles)
        rule_r3_r4(ck, prog, cg, roles)
        # the bound on the count only bounds the batch if the container handed to Export holds nothing else (see C01.R3)
        c01.rule_r3_r4(ck, prog, cg, roles)
    pr = Roles(prog, 'sdk::metrics::PeriodicExportingMetricReader', flush_method='OnForceFlush',
               shutdown_method='OnShutDown', cg=cg)
    rule_r2(ck, prog, cg, pr)
    rule_r2_single_worker(ck, prog, cg, pr)
    # the simple processors rely on the spin lock: its structural rules (see C11) are prerequisites of "one Export at a time"
    from . import c11
    ck.doc('C11.R3', '(prerequisite, see C11) minimum memory orders of the spin lock', 3)
    ck.doc('C11.R4', '(prerequisite, see C11) spin lock: lock returns only when acquired; try_lock false on a held lock; unlock stores false', 3)
    c11.rule_r3(ck, prog, 'sdk::common::CircularBuffer', only_spin=True)
    c11.rule_r4(ck, prog)
    return {'call_graph_functions': len(cg.calls)}
