"""C11 - the lock-free queue and the spin lock (structural part)."""
from ..ir import AnalysisBroken, strip_targs, qmatch
from ..graph import Graph
from ..expr import access_path, path_str, reaching_defs, norm_cond, origins
from ..linear import linear, relation, rel_str, fmt
from ..symb import eval3, returns_under_pins
from .common import strip_casts, short, atomic_op, comparison, loops_over, loop_visits_every_element
from ..inteval import ieval, pin_conditions
from ..symb import feasible_reach

UNITS = []
DRIVERS = ['trace_headers.cc']
CANARIES = ['c11_canary.cc']
THOROUGH_ALL_UNITS = True

EXPLANATION = (
    'C11.R1 (ownership typestate of CircularBuffer::Add(unique_ptr&), edge sensitive on SwapIfNull / head CAS): '
    'return false only while the caller still owns the element and only behind the "full" edge; return true only '
    'after the slot took the element and the head CAS succeeded; every retry re-enters with the element back at the '
    'caller (undo Swap on the failed-CAS path); SwapIfNull releases the owner exactly on its CAS-success edge; '
    'Swap/Reset are single atomic exchanges; the rvalue Add delegates once and returns that result. '
    'C11.R2 (guard agreement, linear normal forms): full <=> HEAD-TAIL >= CAPACITY-1, CAPACITY = max_size+1, slot index '
    '= HEAD mod CAPACITY at both slot accesses, Consume advances TAIL by exactly n once, size() = HEAD-TAIL. '
    'C11.R3 (table of minimum memory orders, extracted from the order arguments; default = seq_cst). '
    'C11.R4 (spin lock): every return of lock() is behind an acquiring edge (exchange(true) returned false / try_lock() '
    'returned true); try_lock() is false whenever its exchange(true) found the flag set; unlock() is one store(false).')
EXPLANATION += (' C11.R5 (queue geometry as finite tables, constant folding of the index arithmetic for capacities 2..4 x every tail index x every fill level): '
                'the range PeekImpl hands to the consumer is exactly slots tail..head-1 modulo capacity in that order; CircularBufferRange::Take(n) keeps exactly the first n '
                'elements (|first|,|second| in 0..3); ForEach visits every element of first_ and then every element of second_ and is left early only on the callback\'s false.')
EXPLANATION += ' C11.R1 also checks that the rvalue Add never release()s its argument into nothing. C11.R4 also checks that after an acquiring edge no further acquisition attempt is reachable (lock returns once acquired).'
EXPLANATION += ' C11.R2 also: the publishing compare-exchange of Add moves head_ from the expected snapshot to expected + 1 (linear forms), and empty() is the equality of head_ and tail_ (agrees with size() == 0).'
NOT_DECIDED = 'linearizability, ABA/wrap-around and "queued never exceeds capacity" under interleavings; lock() liveness.'

ORD = {0: 'relaxed', 1: 'consume', 2: 'acquire', 3: 'release', 4: 'acq_rel', 5: 'seq_cst'}
AT_LEAST_RELEASE = {3, 4, 5}
AT_LEAST_ACQUIRE = {2, 4, 5}
AT_LEAST_ACQ_REL = {4, 5}


def _order_args(f, n):
    """memory-order argument values of an atomic call (defaults folded from the default argument)"""
    out = []
    for a in n.get('args', []):
        an = f.nodes[a]
        t = an.get('t') or ''
        if 'memory_order' in t or (an['k'] == 'defarg' and an.get('param') in ('__m', '__m1', '__m2', '__s', '__f', 'm', 'order')):
            v = an.get('v')
            out.append(v if v is not None else 5)
    return out


def _lvalue_add(prog, suffix):
    fs = [f for f in prog.functions(suffix + '::Add') if f.params and f.params[0]['t'].endswith('&') and not f.params[0]['t'].endswith('&&')]
    if not fs:
        raise AnalysisBroken('%s::Add(unique_ptr&) not instantiated in the analysed units' % suffix)
    return fs


def rule_r1_add(ck, prog, f):
    # (the fullness test and the publishing CAS may sit in private helpers of the buffer: they are inlined)
    from .common import same_class_inline
    g = Graph(prog, f, inline=same_class_inline(prog, f.cls or ''), sync_lambdas=False, max_depth=2)
    rd = reaching_defs(g)
    pid = f.params[0]['id']

    def cond_call(lab, name):
        if not lab or not isinstance(lab[0], int):
            return None
        core, pol = norm_cond(lab[1], lab[0])
        for (sf, sn, sctx) in origins(g, rd, lab[1], core, g.root_ctx):
            if sn['k'] == 'call' and strip_targs(sn.get('c', '')).rsplit('::', 1)[-1] in name:
                return lab[2] if pol else (not lab[2])
        return None

    def transfer(p, st):
        n = p.n
        if n is not None and n['k'] == 'call' and qmatch(n.get('c', ''), 'AtomicUniquePtr::Swap'):
            return frozenset({'C'})
        return st

    def edge_transfer(p, q, lab, st):
        t = cond_call(lab, ('SwapIfNull',))
        if t is True:
            return frozenset({'S'})
        return st

    def meet(sts):
        r = sts[0]
        for s in sts[1:]:
            r = r | s
        return r
    IN, OUT = g.forward(frozenset({'C'}), transfer, meet, entry_state=frozenset({'C'}), edge_transfer=edge_transfer)
    swaps = g.calls('AtomicUniquePtr::SwapIfNull')
    if not swaps:
        raise AnalysisBroken('Add: no SwapIfNull')
    # the fullness relation is the relation that holds on the edge the `return false` is behind - taken with the polarity of that
    # edge, so `if (head - tail >= cap - 1)`, `if (!(head - tail < cap - 1))` and a named boolean for either give the same relation
    def edge_rel(a, lab):
        if not lab or not isinstance(lab[0], int):
            return None
        rel = relation(g, rd, lab[1], lab[0], a.ctx, lab[2])
        if rel and rel[0] == '>=0' and {s for (s, _v) in rel[1]} >= {'this.head_', 'this.tail_'}:
            return rel
        return None

    def neg_rel(rel):
        d = {s_: -v_ for (s_, v_) in rel[1]}
        d['1'] = d.get('1', 0) - 1
        return ('>=0', frozenset((s_, v_) for s_, v_ in d.items() if v_ != 0))
    cands = []
    for p in g.points:
        for (q, lab) in p.succ:
            r_ = edge_rel(p, lab)
            if r_ is not None and r_ not in cands:
                cands.append(r_)
    full_rel = None
    false_rets = [rp for rp in g.returns() if rp.n.get('e') is not None and strip_casts(f, rp.n['e']).get('v') == 0]
    for r_ in cands:
        if false_rets and all(g.must_pass_edge(rp, lambda a, b, lab, _r=r_: edge_rel(a, lab) == _r) for rp in false_rets):
            full_rel = r_
    if full_rel is None and cands:
        # no relation guards the failure return: report against the first candidate (the obligations below then fail)
        full_rel = sorted(cands, key=lambda r: sorted(r[1]))[0]

    def full_edge(want):
        def pred(a, b, lab):
            rel = edge_rel(a, lab)
            if rel is None or full_rel is None:
                return False
            return rel == (full_rel if want else neg_rel(full_rel))
        return pred

    def cas_ok_edge(a, b, lab):
        return cond_call(lab, ('compare_exchange_weak', 'compare_exchange_strong')) is True
    for rp in g.returns():
        v = strip_casts(f, rp.n['e']).get('v') if rp.n.get('e') is not None else None
        st = IN.get(rp.id, frozenset())
        if v == 0:
            ok = st == frozenset({'C'}) and g.must_pass_edge(rp, full_edge(True))
            ck.verdict(ok, 'C11.R1', f, 'return-false-caller-owns', rp.n,
                       'return false in ownership state %s%s' % (sorted(st), '' if ok else
                                                                 ': Add may report failure after the slot took the element (lost element) or without the queue being full'))
        elif v == 1:
            ok = st == frozenset({'S'}) and g.must_pass_edge(rp, cas_ok_edge)
            ck.verdict(ok, 'C11.R1', f, 'return-true-slot-owns-and-published', rp.n,
                       'return true in state %s%s' % (sorted(st), '' if ok else
                                                      ': Add may report success without a published slot (head CAS success edge does not dominate it)'))
        else:
            ck.inconclusive('C11.R1', f, 'return-value', rp.n, 'return value is not a boolean constant')
    # the tail snapshot is taken before the head snapshot: head - tail can then only over-estimate the fill level;
    # with the loads swapped a consumer running in between makes tail newer than head and the unsigned difference wraps
    loads = {}
    for p in g.points:
        if p.n is not None and atomic_op(p.n) and atomic_op(p.n)[0] == 'load':
            ap = path_str(access_path(f, p.n['obj'], p.ctx))
            if ap in ('this.head_', 'this.tail_'):
                loads.setdefault(ap, []).append(p)
    if loads.get('this.head_') and loads.get('this.tail_'):
        ok = all(g.must_pass(h, loads['this.tail_'], src=None) and not any(t.id in g.reachable_from([q for (q, _l) in h.succ], avoid=swaps) for t in loads['this.tail_'])
                 for h in loads['this.head_'])
        ck.verdict(ok, 'C11.R1', f, 'tail-snapshot-before-head', loads['this.head_'][0].n,
                   'tail_ is read before head_ in every attempt' if ok else
                   'head_ is read before tail_: a consumer (and another producer) running between the two reads makes the tail snapshot newer than the head snapshot, head - tail wraps and Add reports "full" although there is room')
    for sp in swaps:
        st = IN.get(sp.id, frozenset())
        ok = st == frozenset({'C'})
        ck.verdict(ok, 'C11.R1', f, 'retry-with-element-at-caller', sp.n,
                   'SwapIfNull attempted in state %s%s' % (sorted(st), '' if ok else
                                                           ': a retry is reached with the element still in a slot (undo Swap missing on the failed-CAS path): the element is leaked/duplicated'))
        ok2 = g.must_pass_edge(sp, full_edge(False))
        ck.verdict(ok2, 'C11.R1', f, 'slot-write-behind-not-full', sp.n,
                   'slot write is behind the not-full edge' if ok2 else 'a slot can be written although the buffer is full (fullness guard does not dominate SwapIfNull)')
    return g, rd, full_rel


def rule_r1_swapifnull(ck, prog):
    for f in prog.functions('AtomicUniquePtr::SwapIfNull'):
        g = Graph(prog, f, inline=None, sync_lambdas=False)
        rd = reaching_defs(g)
        pid = f.params[0]['id']

        def cas_edge(want):
            def pred(a, b, lab):
                if not lab or not isinstance(lab[0], int):
                    return False
                core, pol = norm_cond(lab[1], lab[0])
                for (sf, sn, sctx) in origins(g, rd, lab[1], core, g.root_ctx):
                    o = atomic_op(sn)
                    if o and o[1].startswith('compare_exchange'):
                        return (lab[2] if pol else not lab[2]) is want
                return False
            return pred
        rel = [p for p in g.calls('std::unique_ptr::release') if f.nodes[p.n['obj']].get('id') == pid]
        if not rel:
            ck.violation('C11.R1', f, 'release-on-success', None, 'SwapIfNull never releases the owner: the element would be freed by the caller while the slot points to it')
            continue
        ok = all(g.must_pass_edge(p, cas_edge(True)) for p in rel)
        ck.verdict(ok, 'C11.R1', f, 'release-only-on-cas-success', rel[0].n,
                   'owner released only behind the CAS-success edge' if ok else 'the owner can be released although the slot CAS failed: element leaked')
        # every path along the success edge releases
        r = g.reachable_from(g.entry, avoid=rel, avoid_edges=cas_edge(False))
        ok = g.exit.id not in r
        ck.verdict(ok, 'C11.R1', f, 'release-on-every-success-path', rel[0].n,
                   'success path always releases' if ok else 'a CAS-success path returns without releasing the owner: double free')
        # returns true only on the success edge
        for rp in g.returns():
            e = rp.n.get('e')
            v = strip_casts(f, e).get('v') if e is not None else None
            if v == 0:
                continue
            ok = g.must_pass_edge(rp, cas_edge(True))
            ck.verdict(ok, 'C11.R1', f, 'true-only-on-cas-success', rp.n,
                       'non-false return behind the CAS-success edge' if ok else 'SwapIfNull can report success although the CAS failed')


def rule_r1_single_exchange(ck, prog):
    for name in ('Swap', 'Reset'):
        for f in prog.functions('AtomicUniquePtr::' + name):
            ops = [atomic_op(n) for n in f.nodes if atomic_op(n)]
            rmw = [o for o in ops if o[0] == 'rmw' and o[1] == 'exchange']
            other = [o for o in ops if not (o[0] == 'rmw' and o[1] == 'exchange')]
            ok = len(rmw) == 1 and not other
            ck.verdict(ok, 'C11.R1', f, 'single-atomic-exchange', None,
                       'one atomic exchange' if ok else 'AtomicUniquePtr::%s is not a single atomic exchange (ops: %s): a concurrent producer/consumer can interleave between the parts' % (name, ops))


def rule_r1_rvalue(ck, prog, suffix):
    for f in prog.functions(suffix + '::Add'):
        if not (f.params and f.params[0]['t'].endswith('&&')):
            continue
        g = Graph(prog, f, inline=None, sync_lambdas=False)
        rd = reaching_defs(g)
        calls = [p for p in g.calls(suffix + '::Add')]
        ok = len(calls) == 1
        rets = g.returns()
        for rp in rets:
            srcs = origins(g, rd, f, rp.n.get('e'), rp.ctx)
            if not any(sn is calls[0].n for (_f, sn, _c) in srcs) if calls else True:
                ok = False
        ck.verdict(ok, 'C11.R1', f, 'rvalue-add-delegates-once', calls[0].n if calls else None,
                   'delegates once and returns that result' if ok else 'the rvalue Add does not delegate exactly once to Add(unique_ptr&) and return its result')
        # ownership of a rejected element: the parameter is an rvalue reference, the caller has given the element up; whatever
        # Add(unique_ptr&) left in it must be destroyed here (reset / going out of scope by move), never released into nothing
        pid = f.params[0]['id']
        rel = [n for n in f.nodes if n['k'] == 'call' and strip_targs(n.get('c', '')).rsplit('::', 1)[-1] == 'release' and n.get('obj') is not None and
               strip_casts(f, n['obj']).get('id') == pid]
        pm = f.parent_map()
        leaked = [n for n in rel if f.nodes[pm[n['i']]]['k'] in ('CompoundStmt', 'ExprWithCleanups', 'if', 'for', 'while') or
                  (f.nodes[pm[n['i']]]['k'] == 'cast' and 'void' in (f.nodes[pm[n['i']]].get('t') or ''))] if rel else []
        ck.verdict(not leaked, 'C11.R1', f, 'rvalue-add-rejected-element-destroyed', (leaked or [calls[0].n if calls else None])[0],
                   'the rvalue Add never releases the element without an owner' if not leaked else
                   'the rvalue Add calls release() on its argument and discards the pointer: an element rejected by a full buffer is neither queued, nor with the caller, nor destroyed (leak)')


def rule_r2(ck, prog, suffix, g_add, rd_add, full_rel, f_add):
    want = frozenset({('this.head_', 1), ('this.tail_', -1), ('this.capacity_', -1), ('1', 1)})
    ok = full_rel is not None and full_rel[1] == want
    ck.verdict(ok, 'C11.R2', f_add, 'fullness-guard', None,
               'full <=> %s' % rel_str(full_rel) + ('' if ok else '  (expected +this.head_-this.tail_-this.capacity_+1 >= 0, i.e. HEAD-TAIL >= CAPACITY-1)'))
    # slot index at both slot accesses
    for p in g_add.calls(('AtomicUniquePtr::SwapIfNull', 'AtomicUniquePtr::Swap')):
        on = f_add.nodes[p.n['obj']]
        if on['k'] == 'ref' and on.get('sk') == 'local':
            # a named reference to the slot: judge the expression it was bound to
            # (a reference is bound once: later non-const calls on it are uses of the slot, not re-bindings)
            srcs = [sn for (sf, sn, sc) in origins(g_add, rd_add, f_add, p.n['obj'], p.ctx)
                    if sf is f_add and (sn['k'] == 'subscript' or (sn['k'] == 'call' and sn.get('op') == '[]'))]
            if len({sn['i'] for sn in srcs}) == 1:
                on = srcs[0]
        idx = None
        if on['k'] == 'call' and on.get('op') == '[]':
            idx = on['args'][0]
        elif on['k'] == 'subscript':
            idx = on['index']
        lin = linear(g_add, rd_add, f_add, idx, p.ctx) if idx is not None else None
        ok = lin == {'(+this.head_)%(+this.capacity_)': 1}
        ck.verdict(ok, 'C11.R2', f_add, 'slot-index:%s' % strip_targs(p.n['c']).rsplit('::', 1)[-1], p.n,
                   'slot index = %s' % fmt(lin) + ('' if ok else ' (expected HEAD mod CAPACITY of the same head snapshot)'))
    # constructor: capacity = max_size + 1
    for f in prog.functions(suffix + '::CircularBuffer'):
        g = Graph(prog, f, inline=None, sync_lambdas=False)
        rd = reaching_defs(g)
        for p in g.points:
            if p.el is not None and p.el.get('init') == 'capacity_':
                lin = linear(g, rd, f, p.el['e'], p.ctx)
                ok = lin == {'param:max_size': 1, '1': 1}
                ck.verdict(ok, 'C11.R2', f, 'capacity-init', None, 'capacity_ = %s' % fmt(lin) + ('' if ok else ' (expected max_size+1: one slot stays empty)'))
            if p.el is not None and p.el.get('init') == 'data_':
                news = [f.nodes[i] for i in f.subtree(p.el['e']) if f.nodes[i]['k'] == 'new']
                if news and 'size' in news[0]:
                    lin = linear(g, rd, f, news[0]['size'], p.ctx)
                    ok = lin == {'param:max_size': 1, '1': 1}
                    ck.verdict(ok, 'C11.R2', f, 'storage-size', news[0], 'data_ has %s slots' % fmt(lin) + ('' if ok else ' (expected max_size+1 = capacity_)'))
    # the publishing CAS advances HEAD by exactly one: desired = expected + 1 (of the head snapshot the slot index was taken from)
    cas = [p for p in g_add.points if p.n is not None and atomic_op(p.n) and atomic_op(p.n)[1] in ('compare_exchange_weak', 'compare_exchange_strong') and
           path_str(access_path(p.f, p.n['obj'], p.ctx)) == 'this.head_' and len(p.n.get('args', [])) >= 2]
    for p in cas:
        exp = linear(g_add, rd_add, p.f, p.n['args'][0], p.ctx)
        des = linear(g_add, rd_add, p.f, p.n['args'][1], p.ctx)
        if exp is None or des is None:
            ck.inconclusive('C11.R2', p.f, 'head-advances-by-one', p.n, 'expected / desired value of the publishing CAS is not linear')
            continue
        diff = dict(des)
        for k_, v_ in exp.items():
            diff[k_] = diff.get(k_, 0) - v_
        diff = {k_: v_ for k_, v_ in diff.items() if v_ != 0}
        ok = diff == {'1': 1}
        ck.verdict(ok, 'C11.R2', p.f, 'head-advances-by-one', p.n, 'desired = expected + 1' if ok else
                   'the publishing CAS moves head_ from %s to %s: one stored element has to advance head_ by exactly one (otherwise size() counts slots that hold nothing / loses elements)' % (fmt(exp), fmt(des)))
    # empty() agrees with size() == 0: it is the equality of the two counters
    for f in prog.functions(suffix + '::empty'):
        g = Graph(prog, f, inline=None, sync_lambdas=False)
        rd = reaching_defs(g)
        rets = [r for r in g.returns() if r.n.get('e') is not None and r.n['e'] >= 0]
        if len(rets) != 1:
            ck.inconclusive('C11.R2', f, 'empty-iff-size-zero', None, 'empty() has more than one return')
            continue
        rel = relation(g, rd, f, rets[0].n['e'], rets[0].ctx, True)
        if rel is None:
            e = strip_casts(f, rets[0].n['e'])
            if e['k'] == 'binop' and e['op'] == '==' and any(f.nodes[j]['k'] == 'call' and strip_targs(f.nodes[j].get('c', '')).endswith('::size') for j in f.subtree(e['i'])) and \
                    any(f.nodes[j].get('v') == 0 for j in f.subtree(e['i'])):
                ck.holds('C11.R2', f, 'empty-iff-size-zero', rets[0].n, 'empty() is size() == 0')
            else:
                ck.inconclusive('C11.R2', f, 'empty-iff-size-zero', rets[0].n, 'the result of empty() is not a linear relation of the counters')
            continue
        ok = rel[0] == '==0' and rel[1] in (frozenset({('this.head_', 1), ('this.tail_', -1)}), frozenset({('this.head_', -1), ('this.tail_', 1)}))
        ck.verdict(ok, 'C11.R2', f, 'empty-iff-size-zero', rets[0].n, 'empty() <=> head_ == tail_' if ok else
                   'empty() is true when %s, size() is zero when head_ == tail_: a consumer that waits on "not empty" misses elements the queue holds (or spins on an empty one)' % rel_str(rel))
    # Consume advances TAIL by exactly n, once
    for f in prog.functions(suffix + '::Consume'):
        if len(f.params) != 2:
            continue
        g = Graph(prog, f, inline=None, sync_lambdas=False)
        rd = reaching_defs(g)
        adv = [p for p in g.points if p.n is not None and atomic_op(p.n) and atomic_op(p.n)[0] in ('rmw', 'store') and
               path_str(access_path(f, p.n['obj'], p.ctx)) == 'this.tail_']
        ok = len(adv) == 1
        if ok:
            a = adv[0]
            o = atomic_op(a.n)
            lin = linear(g, rd, f, a.n['args'][0], a.ctx) if a.n.get('args') else None
            ok = (o[1] in ('operator+=', 'fetch_add') and lin == {'param:n': 1}) or \
                 (o[0] == 'store' and lin == {'param:n': 1, 'this.tail_': 1})   # tail_ = tail_ + n: one consumer, so no lost update
            ok = ok and g.exit.id not in g.reachable_from(g.entry, avoid=[a])
        ck.verdict(ok, 'C11.R2', f, 'tail-advance', adv[0].n if adv else None,
                   'tail_ advanced by n exactly once on every path' if ok else 'Consume does not advance tail_ by exactly its count once on every path')
    # who may write the counters: head_ only in Add (the publishing CAS), tail_ only in the consuming Consume(n, callback) - every
    # other member goes through them (Clear() consumes); a member that sets tail_ / head_ itself bypasses the per-slot hand-over
    cls_q = None
    for f in prog.functions(suffix + '::Add'):
        cls_q = f.cls
    if cls_q:
        for fld, home in (('head_', 'Add'), ('tail_', 'Consume')):
            writers = []
            for f in sorted([x for x in prog.funcs.values() if x.cls == cls_q and x.blocks and x.kind not in ('ctor', 'dtor')], key=lambda x: x.key):
                for n in f.nodes:
                    o = atomic_op(n)
                    if o and o[0] in ('rmw', 'store') and path_str(access_path(f, n['obj'], None)) == 'this.' + fld:
                        writers.append((f, n))
            def is_home(fx):
                return fx.name == home and not (home == 'Consume' and len(fx.params) != 2)

            def only_from_home(fx):
                # a private helper every call of which (in this class) comes from the home member
                if fx.d.get('access') not in ('private', 'protected'):
                    return False
                callers = [x for x in prog.funcs.values() if x.cls == cls_q and x is not fx and any(m['k'] == 'call' and m.get('ck') == fx.key for m in x.nodes)]
                return bool(callers) and all(is_home(x) for x in callers)
            foreign = [(f, n) for (f, n) in writers if not is_home(f) and not only_from_home(f)]
            if writers:
                ck.verdict(not foreign, 'C11.R2', (foreign[0][0] if foreign else writers[0][0]), 'only-%s-writes-%s' % (home, fld), (foreign[0][1] if foreign else writers[0][1]),
                           '%s is written only by %s' % (fld, home) if not foreign else
                           '%s writes %s directly: the counter moves without the per-slot hand-over (%s), so elements a producer is still publishing are skipped or freed under it' %
                           (foreign[0][0].name, fld, 'SwapIfNull + CAS in Add' if fld == 'head_' else 'the callback taking each slot in Consume'))
    for f in prog.functions(suffix + '::size'):
        g = Graph(prog, f, inline=None, sync_lambdas=False)
        rd = reaching_defs(g)
        for rp in g.returns():
            lin = linear(g, rd, f, rp.n['e'], rp.ctx)
            ok = lin == {'this.head_': 1, 'this.tail_': -1}
            ck.verdict(ok, 'C11.R2', f, 'size', rp.n, 'size() = %s' % fmt(lin) + ('' if ok else ' (expected HEAD-TAIL)'))


def _range_value(g, rd, f, idx, ctx, env, depth=0):
    # (depth bounds the recursion through locals, conditionals and helpers)
    """the sequence of slot numbers a CircularBufferRange-valued expression denotes under env: list of ints, or None when a part
    does not fold"""
    if idx is None or idx < 0 or depth > 10:
        return None
    n = f.nodes[idx]
    k = n['k']
    if k in ('cast', 'paren'):
        return _range_value(g, rd, f, n['e'], ctx, env, depth + 1)
    if k == 'cond':
        c = ieval(g, rd, f, n['cnd'], ctx, env)
        if c is None or isinstance(c, tuple):
            return None
        return _range_value(g, rd, f, n['a'] if c else n['b'], ctx, env, depth + 1)
    if k == 'initlist':
        out = []
        for c in n.get('ch', []):
            v = _range_value(g, rd, f, c, ctx, env, depth + 1)
            if v is None:
                return None
            out += v
        return out
    if k == 'construct':
        cls = strip_targs(n.get('c', '')).rsplit('::', 1)[-1]
        args = [a for a in n.get('args', []) if a is not None and a >= 0 and f.nodes[a]['k'] != 'defarg']
        if cls == 'span':
            if not args:
                return []
            if len(args) == 1:
                return _range_value(g, rd, f, args[0], ctx, env, depth + 1)
            if len(args) == 2:
                p = ieval(g, rd, f, args[0], ctx, env)
                l = ieval(g, rd, f, args[1], ctx, env)
                if isinstance(p, tuple) and p[0] == 'ptr' and isinstance(l, int) and not isinstance(l, bool):
                    q = None
                    if isinstance(l, int) and l > 4096:
                        # a length that wrapped around (unsigned underflow): report it as out of bounds
                        return [p[2], 'wrapped length %d' % l]
                    return [p[2] + i for i in range(l)]
                pe = ieval(g, rd, f, args[1], ctx, env)
                if isinstance(p, tuple) and isinstance(pe, tuple) and p[0] == pe[0] == 'ptr' and p[1] == pe[1]:
                    return [p[2] + i for i in range(max(0, pe[2] - p[2]))]
            return None
        # the range itself (or a copy / conversion of one): concatenation of its span arguments
        out = []
        for a in args:
            v = _range_value(g, rd, f, a, ctx, env, depth + 1)
            if v is None:
                return None
            out += v
        return out
    if k == 'member' or (k == 'ref' and n.get('sk') in ('local', 'param')):
        key = path_str(access_path(f, idx, ctx))
        v = env.get('range:' + key)
        if v is not None:
            return list(v)
        if k == 'ref' and n.get('sk') == 'local':
            for (sf, sn, sc) in origins(g, rd, f, idx, ctx):
                if sn['i'] != idx or sf is not f:
                    return _range_value(g, rd, sf, sn['i'], sc, env, depth + 1)
        return None
    if k == 'call':
        # a private helper of the same class that builds the span / the range (inlined by the graph): what it returns, with its
        # parameters bound to the arguments of this call
        for c in g.ctxs:
            if c is not None and c.call is n and c.caller is f and c.parent is ctx and not c.lambda_of:
                rets = [p for p in g.points if p.ctx is c and p.n is not None and p.n['k'] == 'return' and p.n.get('e') is not None]
                vals = [_range_value(g, rd, c.f, r.n['e'], c, env, depth + 1) for r in rets]
                if len(vals) == 1:
                    return vals[0]
                return None
        # first_.subspan(a, b) / first(n) are not used by the code base today: inconclusive
        return None
    return None


def rule_r5(ck, prog, CB):
    """Queue geometry as finite tables (capacities 2..4, every tail position, every fill level): the range PeekImpl hands out is
    exactly the queued slots in FIFO order; Take(n) keeps exactly the first n of them; ForEach visits first_ then second_."""
    # --- PeekImpl: the member that builds a range of spans over data_
    peeks = []
    for f in prog.funcs.values():
        sq = strip_targs(f.qn)
        if not (sq.rsplit('::', 1)[0].endswith(CB)) or not f.blocks or f.d.get('lambda'):
            continue
        if 'CircularBufferRange' not in (f.d.get('ret') or '') or 'const ' in (f.d.get('ret') or '').split('CircularBufferRange', 1)[1][:8]:
            continue
        # the member that hands out the queued range: it builds spans over data_ itself or through a private helper
        own = any(n['k'] == 'construct' and strip_targs(n.get('c', '')).endswith('nostd::span::span') and len(n.get('args', [])) == 2 for n in f.nodes)
        via = any(n['k'] == 'call' and n.get('ck') in prog.funcs and prog.funcs[n['ck']].cls == f.cls and 'nostd::span<' in (prog.funcs[n['ck']].d.get('ret') or '') for n in f.nodes)
        if own or via:
            peeks.append(f)
    seen_cls = set()
    for f in sorted(peeks, key=lambda x: x.qn):
        cls = f.qn.rsplit('::', 1)[0]
        if cls in seen_cls:
            continue
        seen_cls.add(cls)
        from .common import same_class_inline
        g = Graph(prog, f, inline=same_class_inline(prog, f.cls or ''), sync_lambdas=False, max_depth=2)
        rd = reaching_defs(g)
        rets = g.returns()
        bad = None
        unknown = None
        rows = 0
        for cap in (2, 3, 4):
            for t in range(cap):
                for fill in range(cap):
                    tail = cap * 3 + t
                    head = tail + fill
                    env = {'this.capacity_': cap, 'this.tail_': tail, 'this.head_': head, 'this.data_.data()': ('ptr', 'data_', 0)}
                    pins = pin_conditions(g, rd, f, env)
                    reach = [r for r in rets if feasible_reach(g, [g.entry], [r], pins=pins) is not None]
                    rows += 1
                    want = [(tail + i) % cap for i in range(fill)]
                    if len(reach) != 1:
                        unknown = unknown or 'capacity %d, tail %d, %d queued: %d returns feasible' % (cap, tail, fill, len(reach))
                        continue
                    r = reach[0]
                    v = _range_value(g, rd, f, r.n.get('e'), r.ctx, env)
                    if v is None:
                        unknown = unknown or 'the range returned at line %s does not fold for capacity %d, tail index %d, %d queued' % (r.line, cap, t, fill)
                        continue
                    if v != want and bad is None:
                        bad = (r.n, 'capacity %d, tail index %d, head index %d (%d queued): the range covers slots %s, the queued elements are in slots %s in this order'
                               % (cap, t, head % cap, fill, v, want))
        if bad:
            ck.violation('C11.R5', f, 'peek-range-is-the-queued-slots-in-order', bad[0], bad[1])
        elif unknown:
            ck.inconclusive('C11.R5', f, 'peek-range-is-the-queued-slots-in-order', None, unknown)
        else:
            ck.holds('C11.R5', f, 'peek-range-is-the-queued-slots-in-order', None, '%d rows (capacity 2..4 x tail index x fill level): slots tail..head-1 modulo capacity, in order' % rows)
    # --- CircularBufferRange::Take
    RG = CB.rsplit('::', 1)[0] + '::CircularBufferRange'
    seen_cls = set()
    for f in sorted(prog.functions(RG + '::Take'), key=lambda x: x.qn):
        cls = f.qn.rsplit('::', 1)[0]
        if cls in seen_cls or not f.blocks or 'const ' in cls.split('CircularBufferRange', 1)[1][:8]:
            continue
        seen_cls.add(cls)
        g = Graph(prog, f, inline=None, sync_lambdas=False)
        rd = reaching_defs(g)
        rets = g.returns()
        bad = unknown = None
        rows = 0
        pname = f.params[0]['name'] if f.params else 'n'
        for a in range(4):
            for b in range(4):
                for k in range(a + b + 1):
                    first = [10 + i for i in range(a)]
                    second = [i for i in range(b)]
                    env = {'this.first_.size()': a, 'this.second_.size()': b, 'param:' + pname: k,
                           'this.first_.data()': ('ptr', 'data_', 10), 'this.second_.data()': ('ptr', 'data_', 0),
                           'range:this.first_': first, 'range:this.second_': second}
                    pins = pin_conditions(g, rd, f, env)
                    reach = [r for r in rets if feasible_reach(g, [g.entry], [r], pins=pins) is not None]
                    rows += 1
                    want = (first + second)[:k]
                    if len(reach) != 1:
                        unknown = unknown or '|first|=%d |second|=%d n=%d: %d returns feasible' % (a, b, k, len(reach))
                        continue
                    r = reach[0]
                    v = _range_value(g, rd, f, r.n.get('e'), r.ctx, env)
                    if v is None:
                        unknown = unknown or 'the range returned at line %s does not fold' % r.line
                        continue
                    if v != want and bad is None:
                        bad = (r.n, '|first|=%d, |second|=%d, Take(%d) yields elements %s, the first %d elements are %s' % (a, b, k, v, k, want))
        if bad:
            ck.violation('C11.R5', f, 'take-keeps-the-first-n', bad[0], bad[1])
        elif unknown:
            ck.inconclusive('C11.R5', f, 'take-keeps-the-first-n', None, unknown)
        else:
            ck.holds('C11.R5', f, 'take-keeps-the-first-n', None, '%d rows (|first|, |second| in 0..3, every n)' % rows)
    # --- ForEach: every element of first_, then every element of second_; left early only when the callback said stop
    done = set()
    for f in sorted(prog.functions(RG + '::ForEach'), key=lambda x: x.qn):
        cls = f.qn.rsplit('::', 1)[0]
        if cls in done or not f.blocks:
            continue
        done.add(cls)
        g = Graph(prog, f, inline=None, sync_lambdas=False)
        cb = f.params[0]['id'] if f.params else None
        visits = {}
        why = None
        direct = [loops_over(f, lambda ap, fld=fld: ap == ('this', fld)) for fld in ('first_', 'second_')]
        if not direct[0] and not direct[1]:
            # the two pieces walked through a small local table: `const span pieces[] = {first_, second_}; for (piece : pieces) for (value : piece)`
            order = None
            for dn in f.nodes:
                if dn['k'] != 'declstmt':
                    continue
                for d in dn['decls']:
                    init = f.nodes[d['init']] if d.get('init') is not None and d['init'] >= 0 else None
                    if init is not None and init['k'] == 'initlist':
                        names_ = []
                        for ch in init.get('ch', []):
                            ap = None
                            for i in list(f.subtree(ch)) + [ch]:
                                if f.nodes[i]['k'] == 'member' and f.nodes[i].get('name') in ('first_', 'second_'):
                                    ap = f.nodes[i]['name']
                            names_.append(ap)
                        if set(names_) == {'first_', 'second_'} and len(names_) == 2:
                            order = (names_, d['id'])
            outer = [n for n in f.nodes if n['k'] == 'forrange' and order and strip_casts(f, n['range']).get('id') == order[1]]
            inner = [n for n in f.nodes if n['k'] == 'forrange' and outer and n['i'] in f.subtree(outer[0]['body']) and strip_casts(f, n['range']).get('id') == outer[0].get('var')]
            if order and len(outer) == 1 and len(inner) == 1:
                body = set(f.subtree(inner[0]['body']))
                vis = [p for p in g.points if p.f is f and p.n is not None and p.n['i'] in body and p.n['k'] == 'call' and
                       p.n.get('obj') is not None and f.nodes[p.n['obj']]['k'] == 'ref' and f.nodes[p.n['obj']].get('id') == cb]

                def stop_edge2(a, b, lab, vis=vis):
                    if not lab or not isinstance(lab[0], int):
                        return False
                    core, pol = norm_cond(lab[1], lab[0])
                    truth = lab[2] if pol else (not lab[2])
                    return truth is False and any(v.n['i'] == core or core in f.subtree(v.n['i']) or v.n['i'] in f.subtree(core) for v in vis)
                r1 = loop_visits_every_element(g, f, inner[0], vis, allowed_exit=stop_edge2)
                outer_left = [i for i in f.subtree(outer[0]['body']) if f.nodes[i]['k'] in ('break', 'continue') and i not in body]
                if order[0] != ['first_', 'second_']:
                    why = 'the table of pieces lists second_ before first_: elements are delivered out of queue order'
                elif r1:
                    why = 'loop over a piece: %s' % r1
                elif outer_left:
                    why = 'the loop over the pieces can skip a piece'
                ck.verdict(why is None, 'C11.R5', f, 'foreach-visits-first-then-second', None,
                           'the pieces {first_, second_} are walked in that order, every element of each, stopped only by the callback' if why is None else why)
                continue
            ck.inconclusive('C11.R5', f, 'foreach-visits-first-then-second', None, 'ForEach does not loop over first_ and second_ directly (nor over a table of the two): shape not recognised')
            continue
        for fld in ('first_', 'second_'):
            loops = loops_over(f, lambda ap, fld=fld: ap == ('this', fld))
            if len(loops) != 1:
                why = 'no single loop over %s' % fld
                break
            lp = loops[0]
            body = set(f.subtree(lp['body']))
            vis = [p for p in g.points if p.f is f and p.n is not None and p.n['i'] in body and p.n['k'] == 'call' and
                   p.n.get('obj') is not None and f.nodes[p.n['obj']]['k'] == 'ref' and f.nodes[p.n['obj']].get('id') == cb]
            visits[fld] = (lp, vis)

            def stop_edge(a, b, lab, vis=vis):
                # the edge on which the callback answered false
                if not lab or not isinstance(lab[0], int):
                    return False
                core, pol = norm_cond(lab[1], lab[0])
                truth = lab[2] if pol else (not lab[2])
                return truth is False and any(v.n['i'] == core or core in f.subtree(v.n['i']) or v.n['i'] in f.subtree(core) for v in vis)
            r = loop_visits_every_element(g, f, lp, vis, allowed_exit=stop_edge)
            if r:
                why = 'loop over %s: %s' % (fld, r)
                break
        if why is None:
            v1, v2 = visits['first_'][1], visits['second_'][1]
            # order: no visit of first_ is reachable from a visit of second_
            back = g.reachable_from(v2)
            if any(p.id in back for p in v1):
                why = 'an element of first_ can be visited after an element of second_: elements are delivered out of queue order'
            # completeness: from the entry, an exit cannot be reached avoiding the loops' iteration starts unless ranges are empty - covered by loop_visits
            elif not all(g.must_pass(p, v1) or True for p in v2):
                why = None
            # the second loop's header is only reached after the first loop ended
            if why is None:
                l1, l2 = visits['first_'][0], visits['second_'][0]
                if not (l1['i'] < l2['i']) and not any(p.id in g.reachable_from(v1) for p in v2):
                    why = 'the loop over second_ is not reachable after the loop over first_'
        ck.verdict(why is None, 'C11.R5', f, 'foreach-visits-first-then-second', None,
                   'every element of first_, then every element of second_, stopped only by the callback' if why is None else why)


def rule_r3(ck, prog, suffix, only_spin=False):
    table = [
        ('AtomicUniquePtr::SwapIfNull', 'compare_exchange', 0, AT_LEAST_RELEASE, 'slot CAS success order >= release'),
        (suffix + '::Add#lvalue', 'compare_exchange', 0, AT_LEAST_RELEASE, 'head CAS success order >= release'),
        ('AtomicUniquePtr::Swap', 'exchange', 0, AT_LEAST_ACQ_REL, 'slot exchange >= acq_rel'),
        ('AtomicUniquePtr::Reset', 'exchange', 0, AT_LEAST_ACQ_REL, 'slot exchange >= acq_rel'),
        ('SpinLockMutex::lock', 'exchange', 0, AT_LEAST_ACQUIRE, 'lock exchange >= acquire'),
        ('SpinLockMutex::try_lock', 'exchange', 0, AT_LEAST_ACQUIRE, 'try_lock exchange >= acquire'),
        ('SpinLockMutex::unlock', 'store', 0, AT_LEAST_RELEASE, 'unlock store >= release'),
    ]
    if only_spin:
        table = [t for t in table if t[0].startswith('SpinLockMutex')]
    for (fn, opname, argpos, allowed, text) in table:
        lv = fn.endswith('#lvalue')
        fs = prog.functions(fn.replace('#lvalue', ''))
        if lv:
            fs = [f for f in fs if f.params and f.params[0]['t'].endswith('&') and not f.params[0]['t'].endswith('&&')]
        if not fs:
            raise AnalysisBroken('%s not found' % fn)
        for f0 in fs:
          found = False
          # (the operation may sit in a private helper of the same class that the member calls)
          hosts = [f0] + [prog.funcs[m['ck']] for m in f0.nodes if m['k'] == 'call' and m.get('ck') in prog.funcs and prog.funcs[m['ck']].cls == f0.cls and
                          prog.funcs[m['ck']].blocks and prog.funcs[m['ck']].d.get('access') in ('private', 'protected')]
          for f in hosts:
            if found and f is not f0:
                break
            for n in f.nodes:
                o = atomic_op(n)
                if o and o[1].startswith(opname):
                    found = True
                    orders = _order_args(f, n)
                    v = orders[argpos] if len(orders) > argpos else 5
                    ok = v in allowed
                    ck.verdict(ok, 'C11.R3', f0, 'order:%s' % opname, n,
                               '%s: %s' % (text, ORD.get(v, v)) + ('' if ok else ' -- weaker than the minimum the C++ memory model needs here (x86 tests cannot see it)'))
          if not found:
                ck.violation('C11.R3', f0, 'order:%s' % opname, None, 'expected atomic %s not found in %s' % (opname, short(f0)))
    if only_spin:
        return
    # consumer-side loads of head_ (PeekImpl, size, empty): >= acquire
    for name in ('PeekImpl', 'size'):
        for f in prog.functions(suffix + '::' + name):
            for n in f.nodes:
                o = atomic_op(n)
                if o and o[0] == 'load' and path_str(access_path(f, n['obj'])) == 'this.head_':
                    orders = _order_args(f, n)
                    v = orders[0] if orders else 5
                    ok = v in AT_LEAST_ACQUIRE
                    ck.verdict(ok, 'C11.R3', f, 'order:consumer-load-head', n, 'consumer load of head_: %s' % ORD.get(v, v) +
                               ('' if ok else ' -- the consumer may read a slot before the producer\'s release is visible'))


def rule_r4(ck, prog):
    f = prog.function('SpinLockMutex::lock')
    g = Graph(prog, f, inline=None, sync_lambdas=False)
    rd = reaching_defs(g)

    def acq_edge(a, b, lab):
        if not lab or not isinstance(lab[0], int):
            return False
        core, pol = norm_cond(lab[1], lab[0])
        truth = lab[2] if pol else (not lab[2])
        for (sf, sn, sctx) in origins(g, rd, lab[1], core, g.root_ctx):
            o = atomic_op(sn)
            if o and o[1] == 'exchange':
                return truth is False
            if sn['k'] == 'call' and qmatch(sn.get('c', ''), 'SpinLockMutex::try_lock'):
                return truth is True
            if sn['k'] == 'call' and sn.get('ck') in acquiring_helpers:
                return truth is True
        # `if (spin_fast() || yield_then_try()) return;`: the true outcome of a disjunction of acquiring calls
        cn = lab[1].nodes[core]
        if cn['k'] == 'binop' and cn['op'] == '||' and truth is True:
            parts = []
            stack = [core]
            while stack:
                x = strip_casts(lab[1], stack.pop())
                if x['k'] == 'binop' and x['op'] == '||':
                    stack += [x['lhs'], x['rhs']]
                else:
                    parts.append(x)
            if parts and all(x['k'] == 'call' and (x.get('ck') in acquiring_helpers or qmatch(x.get('c', ''), 'SpinLockMutex::try_lock')) for x in parts):
                return True
        return False
    # private helpers of the lock that report "acquired" by returning true: every return of theirs is the literal false, or behind
    # an acquiring edge, or the result of try_lock() / another such helper itself
    acquiring_helpers = set()
    for h in [x for x in prog.funcs.values() if x.cls == f.cls and x.blocks and x.name not in ('lock', 'try_lock', 'unlock') and (x.d.get('ret') or '') == 'bool']:
        gh = Graph(prog, h, inline=None, sync_lambdas=False)
        rdh = reaching_defs(gh)

        def h_acq(a, b, lab, gh=gh, rdh=rdh):
            if not lab or not isinstance(lab[0], int):
                return False
            core, pol = norm_cond(lab[1], lab[0])
            truth = lab[2] if pol else (not lab[2])
            for (sf, sn, sctx) in origins(gh, rdh, lab[1], core, gh.root_ctx):
                o = atomic_op(sn)
                if o and o[1] == 'exchange':
                    return truth is False
                if sn['k'] == 'call' and qmatch(sn.get('c', ''), 'SpinLockMutex::try_lock'):
                    return truth is True
            return False
        okh = True
        for r in gh.returns():
            e = strip_casts(h, r.n['e']) if r.n.get('e') is not None else None
            if e is None:
                okh = False
            elif e.get('v') == 0 and e['k'] == 'lit':
                continue
            elif e['k'] == 'call' and qmatch(e.get('c', ''), 'SpinLockMutex::try_lock'):
                continue
            elif e.get('v') == 1 and gh.must_pass_edge(r, h_acq):
                continue
            else:
                okh = False
        if okh and gh.returns():
            acquiring_helpers.add(h.key)
    rets = g.returns()
    reach = g.reachable_from(g.entry)
    rets = [r for r in rets if r.id in reach]
    if not rets:
        # falling off the end
        rets = []
    bad = [r for r in rets if not g.must_pass_edge(r, acq_edge)]
    if g.exit.id in g.reachable_from(g.entry, avoid_edges=acq_edge):
        ck.violation('C11.R4', f, 'lock-returns-only-acquired', bad[0].n if bad else None,
                     'lock() can return without having acquired the flag (no exchange(true)==false / try_lock()==true edge dominates the return): two holders at once',
                     path=g.describe_path(g.path(g.entry, g.exit, avoid_edges=acq_edge) or []))
    else:
        ck.holds('C11.R4', f, 'lock-returns-only-acquired', rets[0].n if rets else None, 'every exit of lock() is behind an acquiring edge')
    # once acquired, lock() returns: no further acquisition attempt (which would fail against itself for ever) is reachable
    attempts = [p for p in g.points if p.n is not None and p.n['k'] == 'call' and
                ((atomic_op(p.n) and atomic_op(p.n)[1] in ('exchange', 'compare_exchange_weak', 'compare_exchange_strong', 'test_and_set')) or
                 qmatch(p.n.get('c', ''), 'SpinLockMutex::try_lock'))]
    again = None
    for p in g.points:
        for (q, lab) in p.succ:
            if acq_edge(p, q, lab):
                r = g.reachable_from([q])
                hit = [a for a in attempts if a.id in r]
                if hit:
                    again = (q, hit[0])
    ck.verdict(again is None, 'C11.R4', f, 'lock-returns-once-acquired', again[1].n if again else (rets[0].n if rets else None),
               'after an acquiring edge no further acquisition attempt is reachable' if again is None else
               'after lock() has acquired the flag it can reach another acquisition attempt instead of returning: the waiter spins for ever on a lock it holds itself',
               path=None if again is None else g.describe_path(g.path(again[0], again[1]) or []))
    # try_lock: false whenever its exchange found the flag set
    f = prog.function('SpinLockMutex::try_lock')
    ex = [n for n in f.nodes if atomic_op(n) and atomic_op(n)[1] == 'exchange']
    g = Graph(prog, f, inline=None, sync_lambdas=False)
    if not ex:
        ck.violation('C11.R4', f, 'try_lock-exchange', None, 'try_lock() has no atomic exchange: test and set are not one atomic step')
    else:
        # decision table: with the exchange pinned to "found the flag set" every feasible return value is false (named results,
        # early returns and negations are folded by the path explorer); a return that does not execute the exchange cannot say true
        vals = returns_under_pins(g, {e['i']: True for e in ex})
        okall = vals == {False}
        a0 = f.nodes[ex[0]['args'][0]] if ex[0].get('args') else None
        if a0 is None or a0.get('v') != 1:
            okall = False
        ck.verdict(okall, 'C11.R4', f, 'try_lock-false-on-held', ex[0],
                   'try_lock() is false whenever exchange(true) found the flag set' if okall else
                   'try_lock() can return true although its exchange found the lock held (or does not set the flag)')
    f = prog.function('SpinLockMutex::unlock')
    st = [n for n in f.nodes if atomic_op(n)]
    ok = len(st) == 1 and atomic_op(st[0])[0] == 'store' and f.nodes[st[0]['args'][0]].get('v') == 0
    ck.verdict(ok, 'C11.R4', f, 'unlock-store-false', st[0] if st else None,
               'unlock() is one store(false)' if ok else 'unlock() is not a single store of false')


def run(ck, prog):
    ck.doc('C11.R1', 'ownership typestate of Add/SwapIfNull/Swap/Reset and the rvalue wrapper', 11)
    ck.doc('C11.R2', 'guard agreement: fullness, capacity, slot index, tail advance, size; head_ / tail_ written only by Add / Consume', 9)
    ck.doc('C11.R3', 'minimum memory orders of the queue and the spin lock', 9)
    ck.doc('C11.R5', 'queue geometry as finite tables: PeekImpl hands out exactly the queued slots in FIFO order, Take keeps the first n, ForEach visits first_ then second_', 3)
    ck.doc('C11.R4', 'spin lock: lock returns only when acquired, and returns once acquired; try_lock false on a held lock; unlock stores false', 4)
    CB = 'sdk::common::CircularBuffer'
    with ck.canary('C11.R1'):
        for f in _lvalue_add(prog, 'canary::c11::BadBuffer'):
            gb, rb, fr = rule_r1_add(ck, prog, f)
    with ck.canary('C11.R2'):
        rule_r2(ck, prog, 'canary::c11::BadBuffer', gb, rb, fr, f)
    with ck.canary('C11.R5'):
        rule_r5(ck, prog, 'canary::c11::BadBuffer')
    with ck.canary('C11.R3'):
        _canary_orders(ck, prog)
    with ck.canary('C11.R4'):
        _canary_spin(ck, prog)
    for f in _lvalue_add(prog, CB):
        g, rd, full_rel = rule_r1_add(ck, prog, f)
        rule_r2(ck, prog, CB, g, rd, full_rel, f)
        break
    rule_r1_swapifnull(ck, prog)
    rule_r1_single_exchange(ck, prog)
    rule_r1_rvalue(ck, prog, CB)
    rule_r3(ck, prog, CB)
    rule_r4(ck, prog)
    rule_r5(ck, prog, CB)
    return {}


def _canary_orders(ck, prog):
    f = prog.function('canary::c11::BadSpin::unlock')
    for n in f.nodes:
        o = atomic_op(n)
        if o and o[0] == 'store':
            v = (_order_args(f, n) or [5])[0]
            ck.verdict(v in AT_LEAST_RELEASE, 'C11.R3', f, 'order:store', n, ORD.get(v))


def _canary_spin(ck, prog):
    f = prog.function('canary::c11::BadSpin::lock')
    g = Graph(prog, f, inline=None, sync_lambdas=False)
    rd = reaching_defs(g)

    def acq_edge(a, b, lab):
        if not lab or not isinstance(lab[0], int):
            return False
        core, pol = norm_cond(lab[1], lab[0])
        truth = lab[2] if pol else (not lab[2])
        for (sf, sn, sctx) in origins(g, rd, lab[1], core, g.root_ctx):
            o = atomic_op(sn)
            if o and o[1] == 'exchange':
                return truth is False
        return False
    if g.exit.id in g.reachable_from(g.entry, avoid_edges=acq_edge):
        ck.violation('C11.R4', f, 'lock-returns-only-acquired', None, 'canary')
