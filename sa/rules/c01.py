"""C01 - batch processors hand every accepted span/log to the exporter exactly once."""
from ..ir import AnalysisBroken, strip_targs, qmatch
from ..graph import Graph
from ..expr import access_path, path_str, reaching_defs, norm_cond, origins, leaves
from ..callgraph import CallGraph, BLOCKING
from .common import (Roles, EXPORTER_EXPORT, EXPORTER_FLUSH, EXPORTER_SHUTDOWN, same_class_inline, member_funcs,
                     strip_casts, short, atomic_op)

UNITS = ['sdk/src/trace/batch_span_processor.cc', 'sdk/src/logs/batch_log_record_processor.cc']
DRIVERS = ['trace_headers.cc']
CANARIES = ['c01_canary.cc']

EXPLANATION = (
    'C01.R1 (typestate on the producer entry OnEnd/OnEmit): on every path there is at most one CircularBuffer::Add of '
    'the record, no path that is not the shut-down path skips the Add, the Add is behind the not-shut-down edge of the '
    'latch read, and nothing re-queues the record after a failed Add. C01.R2 (effect exclusion over the call graph): '
    'nothing reachable from the producer entry is a blocking std:: leaf (mutex lock, lock_guard/unique_lock, condition '
    'wait, join, sleep, future wait, spin lock) or a call on the exporter. C01.R3 (typestate on the per-slot consume '
    'callback): every path takes ownership of the slot exactly once (Swap/Reset), every return is the constant true, and '
    'the taken pointer is appended to the very container whose data()/size() are handed to the exporter\'s Export. '
    'the container is re-created or cleared between an Export and the next Consume. The queue rules C11.R1/R2/R5 (ownership, guard agreement, FIFO geometry of the consumed range) are evaluated as prerequisites. C01.R4 (dependence): the count handed to Consume originates only from size() of the same queue or from the batch bound.')
EXPLANATION += ' C01.R5 (dependence): in every constructor the queue member is created with a capacity that derives from the configured max_queue_size option. Obligations about the exported view, the batch bound and the queue are followed through private and file-local helpers (bounded inlining, parameters bound to arguments).'
NOT_DECIDED = ('that no element is duplicated or lost under concurrent interleavings of the atomic steps, per-producer order, '
               'and the legitimacy of every drop (these are schedule-quantified; C11 decides the structural part of the queue).')


def _latch_edge(g, rd, roles, want_shutdown):
    def pred(a, b, lab):
        if not lab or not isinstance(lab[0], int):
            return False
        ff = lab[1]
        core, pol = norm_cond(ff, lab[0])
        truth = lab[2] if pol else (not lab[2])
        for (sf, sn, sctx) in origins(g, rd, ff, core, a.ctx):
            o = atomic_op(sn)
            if o and o[0] == 'load' and path_str(access_path(sf, sn['obj'], sctx)) == roles.latch:
                return truth is want_shutdown
        return False
    return pred


def rule_r1(ck, prog, roles, method):
    fs = [f for f in roles.funcs if f.cls == roles.cls and f.name == method]
    if not fs:
        raise AnalysisBroken('%s::%s vanished' % (roles.short, method))
    f = fs[0]
    g = Graph(prog, f, inline=same_class_inline(prog, roles.cls), max_depth=2, sync_lambdas=True)
    rd = reaching_defs(g)
    adds = [p for p in g.calls('CircularBuffer::Add')
            if path_str(access_path(p.f, p.n['obj'], p.ctx)) == 'this.' + roles.queue_field]
    if not adds:
        ck.violation('C01.R1', f, 'enqueue-once', None, 'the producer entry never adds the record to the queue')
        return
    # at most one Add on every path
    multi = None
    for a in adds:
        r = g.reachable_from([q for (q, _l) in a.succ])
        for b in adds:
            if b.id in r:
                multi = (a, b)
    if multi:
        ck.violation('C01.R1', f, 'enqueue-once', multi[1].n,
                     'a path adds the record to the queue twice (or retries after a failed Add): double delivery or a moved-from record',
                     path=g.describe_path(g.path(multi[0], multi[1]) or []))
    else:
        ck.holds('C01.R1', f, 'enqueue-once', adds[0].n, 'at most one Add per path')
    # no silent skip: every path to the exit passes an Add or the shut-down edge
    shut = _latch_edge(g, rd, roles, True)
    r = g.reachable_from(g.entry, avoid=adds, avoid_edges=shut)
    if g.exit.id in r:
        ck.violation('C01.R1', f, 'no-silent-drop', None,
                     'a path through the producer entry (not the shut-down path) returns without adding the record to the queue',
                     path=g.describe_path(g.path(g.entry, g.exit, avoid=adds, avoid_edges=shut) or []))
    else:
        ck.holds('C01.R1', f, 'no-silent-drop', adds[0].n, 'every non-shutdown path reaches the Add')
    # gate dominates the Add
    notshut = _latch_edge(g, rd, roles, False)
    bad = [a for a in adds if not g.must_pass_edge(a, notshut)]
    if bad:
        ck.violation('C01.R1', f, 'gate-before-add', bad[0].n, 'the record can be queued after Shutdown (no latch test dominates the Add)')
    else:
        ck.holds('C01.R1', f, 'gate-before-add', adds[0].n, 'Add is behind the not-shut-down edge')


def rule_r2(ck, prog, cg, roles, method):
    fs = [f for f in roles.funcs if f.cls == roles.cls and f.name == method]
    f = fs[0]
    # do not descend into user-supplied log handlers (opaque by design)
    stop = set()
    for k, fn in prog.funcs.items():
        if fn.name == 'Handle' and fn.cls and 'LogHandler' in fn.cls:
            stop.add(k)
    reach = cg.reachable([f.key], stop=stop)
    bad = None
    n_leaves = 0
    for k in reach:
        fn = prog.funcs[k]
        for n in fn.nodes:
            if n['k'] not in ('call', 'construct'):
                continue
            c = strip_targs(n.get('c', '') or '')
            n_leaves += 1
            if c in BLOCKING or any(qmatch(c, w) for w in EXPORTER_EXPORT + EXPORTER_FLUSH + EXPORTER_SHUTDOWN):
                bad = (fn, n, c)
                break
        if bad:
            break
    if bad:
        fn, n, c = bad
        pth = cg.path(f.key, fn.key) or []
        ck.violation('C01.R2', f, 'non-blocking-producer', None,
                     'the producer entry can reach %s in %s: a producer would wait (the worker holds its mutex across Export) or drive the exporter itself' % (c, short(fn)),
                     path=' -> '.join(short(prog.funcs[k]) for k in pth) + ' @%s' % fn.loc(n))
    else:
        ck.holds('C01.R2', f, 'non-blocking-producer', None,
                 '%d functions / %d call sites reachable from the producer entry, none blocking, none on the exporter' % (len(reach), n_leaves))


def rule_r3_r4(ck, prog, cg, roles):
    found = 0
    for t in sorted(roles.thread_entries):
        tf = prog.funcs[t]
        g = Graph(prog, tf, inline=same_class_inline(prog, roles.cls), max_depth=5)
        rd = reaching_defs(g)
        consumes = g.calls('CircularBuffer::Consume')
        exports = g.calls(EXPORTER_EXPORT)
        seen = set()
        for cp in consumes:
            if (cp.f.key, cp.n['i']) in seen:
                continue
            seen.add((cp.f.key, cp.n['i']))
            found += 1
            f = cp.f
            # ---- R4: count originates from size() of the same queue or the bound
            srcs = origins(g, rd, f, cp.n['args'][0], cp.ctx)
            bad = []
            for (sf, sn, sctx) in srcs:
                ok = False
                for j in sf.subtree(sn['i']) if sn['k'] in ('cond', 'call', 'binop') else [sn['i']]:
                    pass
                if sn['k'] == 'call' and qmatch(sn.get('c', ''), 'CircularBuffer::size') and \
                        path_str(access_path(sf, sn['obj'], sctx)) == 'this.' + roles.queue_field:
                    ok = True
                elif sn['k'] == 'member' and access_path(sf, sn['i'], sctx) == ('this', roles.bound_field):
                    ok = True
                elif sn['k'] == 'cond':
                    lv = leaves(sf, sn['i'], follow_locals=False)
                    fields = {l[1] for l in lv if l[0] == 'field'}
                    callsl = {l[1] for l in lv if l[0] == 'call'}
                    ok = fields <= {'this.' + roles.bound_field, 'this.' + roles.queue_field} and \
                        all(c.endswith('CircularBuffer::size') or c.startswith('std::') for c in callsl)
                elif sn['k'] == 'call' and strip_targs(sn.get('c', '')) in ('std::min',):
                    ok = True
                if not ok:
                    bad.append(sn)
            if bad:
                ck.violation('C01.R4', f, 'consume-count-source', cp.n,
                             'the count handed to Consume is not derived from a size() snapshot of the same queue (source: %s %s)' %
                             (bad[0]['k'], strip_targs(bad[0].get('c', bad[0].get('name', '')) or '')))
            else:
                ck.holds('C01.R4', f, 'consume-count-source', cp.n, 'count derives from size() of the queue / the batch bound')
            # ---- R3: per-slot callback
            slot_lams = []
            for c in g.ctxs:
                lf = c.f
                if lf.d.get('lambda') and lf.params and 'AtomicUniquePtr<' in lf.params[0]['t'] and \
                        'CircularBufferRange' not in lf.params[0]['t']:
                    # inside this Consume?
                    anc = c
                    inside = False
                    while anc is not None:
                        if anc.call is cp.n:
                            inside = True
                        anc = anc.parent
                    if inside and lf not in slot_lams:
                        slot_lams.append(lf)
            if not slot_lams:
                ck.inconclusive('C01.R3', f, 'slot-callback', cp.n, 'per-slot callback of Consume not found as a lambda')
                continue
            for lf in slot_lams:
                lg = Graph(prog, lf, inline=None, sync_lambdas=False)
                pid = lf.params[0]['id']
                takes = [p for p in lg.calls(('AtomicUniquePtr::Swap', 'AtomicUniquePtr::Reset'))
                         if lf.nodes[p.n['obj']].get('id') == pid]
                rets = lg.returns()
                ok = True
                if not takes or lg.exit.id in lg.reachable_from(lg.entry, avoid=takes):
                    ok = False
                    ck.violation('C01.R3', lf, 'slot-emptied', None,
                                 'a path through the per-slot callback leaves the consumed slot occupied: the element is never exported and later blocks producers at that index',
                                 path=lg.describe_path(lg.path(lg.entry, lg.exit, avoid=takes) or []))
                for a in takes:
                    r = lg.reachable_from([q for (q, _l) in a.succ])
                    if any(b.id in r for b in takes):
                        ok = False
                        ck.violation('C01.R3', lf, 'slot-emptied', a.n, 'the slot is taken twice on one path')
                if ok:
                    ck.holds('C01.R3', lf, 'slot-emptied', takes[0].n, 'slot ownership taken exactly once on every path')
                badret = [r for r in rets if not (r.n.get('e') is not None and strip_casts(lf, r.n['e']).get('k') == 'lit' and
                                                   strip_casts(lf, r.n['e']).get('v') == 1)]
                if badret or not rets:
                    ck.violation('C01.R3', lf, 'callback-returns-true', badret[0].n if badret else None,
                                 'the per-slot callback can return something other than true: ForEach stops although tail_ has already advanced, the remaining slots are skipped')
                else:
                    ck.holds('C01.R3', lf, 'callback-returns-true', rets[0].n, 'every return is the constant true')
                # the taken pointer goes into the container exported
                pushed = set()
                for n in lf.nodes:
                    if n['k'] == 'call' and strip_targs(n.get('c', '')).rsplit('::', 1)[-1] in ('push_back', 'emplace_back') and n.get('obj') is not None:
                        o = lf.nodes[n['obj']]
                        if o['k'] == 'ref':
                            # argument must depend on the local that received the slot content
                            lv = leaves(lf, n['args'][0]) if n.get('args') else set()
                            swap_locals = set()
                            for tk in takes:
                                for a in tk.n.get('args', []):
                                    an = strip_casts(lf, a)
                                    if an['k'] == 'ref':
                                        swap_locals.add(an['name'])
                            names = {l[2] for l in lv if l[0] == 'local'} | {l[1] for l in lv if l[0] == 'param'}
                            dep = bool(swap_locals & _names_in(lf, n['args'][0])) if n.get('args') else False
                            if dep:
                                pushed.add(o.get('id'))
                exported = set()
                for ep in exports:
                    if g.unit_ctx(ep.ctx, exports) is not g.unit_ctx(cp.ctx, exports):
                        continue
                    # the argument, or the local view it was built into, is made of data()/size() of the container
                    roots = [(ep.f, ep.n['i'], ep.ctx)]
                    for a in ep.n.get('args', []):
                        if a is not None and a >= 0:
                            roots += [(sf, sn['i'], sc) for (sf, sn, sc) in origins(g, rd, ep.f, a, ep.ctx)]
                    for (sf, ri, sc) in roots:
                        for j in sf.subtree(ri):
                            m = sf.nodes[j]
                            if m['k'] == 'call' and strip_targs(m.get('c', '')).rsplit('::', 1)[-1] in ('data', 'size') and m.get('obj') is not None:
                                o = sf.nodes[m['obj']]
                                if o['k'] == 'ref':
                                    exported.add(o.get('id'))
                pushed = {c_ for v_ in pushed for c_ in g.canon_var(v_)}
                exported = {c_ for v_ in exported for c_ in g.canon_var(v_)}
                if pushed and exported and pushed & exported:
                    ck.holds('C01.R3', lf, 'taken-pointer-exported', None, 'the taken element is appended to the container handed to Export')
                    # the view handed to Export covers exactly what was taken: its length is size() of that container (or the count
                    # that was handed to Consume, which is the number of callbacks made), never capacity() or another quantity
                    for ep in exports:
                        if g.unit_ctx(ep.ctx, exports) is not g.unit_ctx(cp.ctx, exports):
                            continue
                        roots = [(ep.f, ep.n['i'], ep.ctx)]
                        for a in ep.n.get('args', []):
                            if a is not None and a >= 0:
                                roots += [(sf, sn['i'], sc) for (sf, sn, sc) in origins(g, rd, ep.f, a, ep.ctx)]
                        spans = []
                        for (sf, ri, sc) in roots:
                            for j in list(sf.subtree(ri)) + [ri]:
                                m = sf.nodes[j]
                                if m['k'] == 'construct' and 'span<' in (m.get('c') or '') and len(m.get('args', [])) == 2 and (sf, m, sc) not in spans:
                                    spans.append((sf, m, sc))
                        for (sf, m, sc) in spans:
                            ln = strip_casts(sf, m['args'][1])
                            verdict = None
                            if ln['k'] == 'call' and ln.get('obj') is not None and sf.nodes[ln['obj']]['k'] == 'ref':
                                nm = strip_targs(ln.get('c', '')).rsplit('::', 1)[-1]
                                same = bool(set(g.canon_var(sf.nodes[ln['obj']].get('id'))) & exported)
                                if nm == 'size' and same:
                                    verdict = True
                                elif nm in ('capacity', 'max_size') or (nm == 'size' and not same):
                                    verdict = False
                            elif ln['k'] == 'ref':
                                cnt_src = {(id(a_), b_['i']) for (a_, b_, c_) in origins(g, rd, cp.f, cp.n['args'][0], cp.ctx)}
                                len_src = {(id(a_), b_['i']) for (a_, b_, c_) in origins(g, rd, sf, ln['i'], sc)}
                                if cnt_src and len_src == cnt_src:
                                    verdict = True
                            if verdict is None:
                                ck.inconclusive('C01.R3', sf, 'export-view-covers-the-batch', m, 'the length of the view handed to Export is neither size() of the batch container nor the consumed count')
                            else:
                                ck.verdict(verdict, 'C01.R3', sf, 'export-view-covers-the-batch', m, 'the view handed to Export is (data(), size()) of the batch container' if verdict else
                                           'the view handed to Export is not as long as the batch that was taken from the queue (%s): the exporter reads elements that were never filled, or misses some' %
                                           strip_targs(ln.get('c', ln.get('name', '')) or ''))
                    # the container must be fresh in every iteration: between one Export and the next Consume it is
                    # re-constructed or cleared, otherwise the previous batch is exported again
                    vid = list(pushed & exported)[0]
                    ucp = g.unit_ctx(cp.ctx, exports)
                    fresh = [p for p in g.points if g.unit_ctx(p.ctx, exports) is ucp and p.n is not None and (
                        (p.n['k'] == 'declstmt' and any(d['id'] == vid for d in p.n['decls'])) or
                        (p.n['k'] == 'call' and p.n.get('obj') is not None and p.f.nodes[p.n['obj']].get('id') is not None and
                         vid in g.canon_var(p.f.nodes[p.n['obj']].get('id')) and
                         strip_targs(p.n.get('c', '')).rsplit('::', 1)[-1] in ('clear', 'operator=', 'swap')))]
                    stale = None
                    for ep in exports:
                        if g.unit_ctx(ep.ctx, exports) is not ucp:
                            continue
                        r = g.reachable_from([q for (q, _l) in ep.succ], avoid=fresh)
                        if cp.id in r:
                            stale = ep
                    if stale is not None:
                        ck.violation('C01.R3', cp.f, 'batch-container-fresh', cp.n,
                                     'the container handed to Export is filled again without having been re-created or cleared since the previous Export: the earlier batch is delivered a second time',
                                     path=g.describe_path(g.path(stale, cp, avoid=fresh) or []))
                    else:
                        ck.holds('C01.R3', cp.f, 'batch-container-fresh', cp.n, 'batch container re-created/cleared between an Export and the next Consume')
                else:
                    ck.violation('C01.R3', lf, 'taken-pointer-exported', None,
                                 'the element taken from the slot does not flow into the container whose data()/size() are handed to the exporter')
    if not found:
        raise AnalysisBroken('%s: no Consume in the worker cycle' % roles.short)


def _names_in(f, idx):
    return {f.nodes[i]['name'] for i in f.subtree(idx) if f.nodes[i]['k'] == 'ref'}


def rule_r5(ck, prog, roles, rule='C01.R5'):
    """nothing is lost while the queue has room: in every constructor the queue is created with the configured max_queue_size (and
    the member the producers' wake-up threshold uses is that option too) - a queue sized from another option drops records
    although max_queue_size has not been reached"""
    rec = prog.record(roles.cls)
    qfields = [fd['name'] for fd in rec['fields'] if 'CircularBuffer<' in fd['t']]
    if not qfields:
        raise AnalysisBroken('%s: queue member not found' % roles.short)
    n = 0
    for f in sorted([x for x in roles.funcs if x.kind == 'ctor' and x.cls == roles.cls], key=lambda x: x.key):
        for b in f.blocks:
            for e in b['el']:
                if isinstance(e, dict) and e.get('init') == qfields[0] and 'e' in e:
                    n += 1
                    lv = leaves(f, e['e'])
                    opt = lambda ls: {x[1] for x in ls if x[0] == 'memberof'} | {x[1] for x in ls if x[0] == 'param' and not any(y[0] == 'memberof' for y in ls)}
                    names = opt(lv)
                    # through a member that the same constructor initialises from the option, and that is declared (hence
                    # initialised) before the queue
                    order = [fd['name'] for fd in rec['fields']]
                    for l in lv:
                        if l[0] == 'field' and l[1].startswith('this.'):
                            m = l[1].split('.', 1)[1]
                            if m in order and order.index(m) < order.index(qfields[0]):
                                for b2 in f.blocks:
                                    for e2 in b2['el']:
                                        if isinstance(e2, dict) and e2.get('init') == m and 'e' in e2:
                                            names |= opt(leaves(f, e2['e']))
                            else:
                                names.add('member %s, which is initialised after the queue' % m)
                    ok = 'max_queue_size' in names and len(names) == 1
                    ck.verdict(ok, rule, f, 'queue-capacity-is-max_queue_size(%d params)' % len(f.params), None,
                               'the queue is created with max_queue_size' if ok else
                               'the queue is created from %s instead of max_queue_size: records are dropped as "queue full" although fewer than max_queue_size are waiting' % (sorted(names) or 'a constant'))
    if not n:
        raise AnalysisBroken('%s: no constructor initialises the queue member' % roles.short)


def run(ck, prog):
    ck.doc('C01.R1', 'producer entry: at most one Add per path, no silent skip, Add behind the shutdown gate', 6)
    ck.doc('C01.R2', 'nothing reachable from the producer entry blocks or calls the exporter', 2)
    ck.doc('C01.R3', 'per-slot consume callback: slot taken exactly once, returns true, taken pointer goes to the exported container, container fresh per batch', 8)
    ck.doc('C01.R5', 'every constructor creates the queue with the configured max_queue_size', 3)
    ck.doc('C01.R4', 'count handed to Consume derives from size() of the same queue / the batch bound', 2)
    from . import c02
    for rid, txt, m in (('C02.R1', 'pending flush ticket loaded before every queue snapshot', 4), ('C02.R2', 'publication of the notified counter: value read before the snapshot, after Export, after exporter flush', 8),
                        ('C02.R9', 'publication follows the exporter flush', 2), ('C02.R11', 'a pending ticket is published only when the whole snapshot was consumed', 2),
                        ('C02.R12', 'after observing shutdown the worker returns only behind an emptiness observation of the queue', 2)):
        ck.doc(rid, '(shared rule, see C02) ' + txt, m)
    cg = CallGraph(prog)
    cb = Roles(prog, 'canary::c01::BadBatch', cg=cg)
    with ck.canary('C01.R1'):
        rule_r1(ck, prog, cb, 'OnEnd')
    with ck.canary('C01.R2'):
        rule_r2(ck, prog, cg, cb, 'OnEnd')
    with ck.canary('C01.R3'):
        rule_r3_r4(ck, prog, cg, cb)
    with ck.canary('C01.R4'):
        rule_r3_r4(ck, prog, cg, cb)
    for cls, producer in (('sdk::trace::BatchSpanProcessor', 'OnEnd'), ('sdk::logs::BatchLogRecordProcessor', 'OnEmit')):
        roles = Roles(prog, cls, cg=cg)
        rule_r1(ck, prog, roles, producer)
        rule_r2(ck, prog, cg, roles, producer)
        rule_r3_r4(ck, prog, cg, roles)
        rule_r5(ck, prog, roles)
        # "nothing is lost between two completed flushes" presupposes that a completed flush means what C02 says
        c02.rule_r1_r2(ck, prog, cg, roles)
        # ... and that what was accepted before shutdown is drained by the worker before it leaves
        c02.rule_r12(ck, prog, roles)
    # prerequisites shared with C11: the structural rules of the queue the processors rely on
    from . import c11
    ck.doc('C11.R1', '(prerequisite, see C11) ownership typestate of CircularBuffer::Add / AtomicUniquePtr', 10)
    ck.doc('C11.R2', '(prerequisite, see C11) queue guard agreement: fullness, capacity, slot index, tail advance, size; who writes the counters', 9)
    CB = 'sdk::common::CircularBuffer'
    for f in c11._lvalue_add(prog, CB):
        gq, rdq, full_rel = c11.rule_r1_add(ck, prog, f)
        c11.rule_r2(ck, prog, CB, gq, rdq, full_rel, f)
        break
    c11.rule_r1_swapifnull(ck, prog)
    c11.rule_r1_single_exchange(ck, prog)
    c11.rule_r1_rvalue(ck, prog, CB)
    ck.doc('C11.R5', '(prerequisite, see C11) queue geometry: the consumed range is the queued slots in FIFO order (per-producer order)', 3)
    c11.rule_r5(ck, prog, CB)
    return {}
