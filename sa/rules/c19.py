"""C19 - instrument names, views and scope rules select exactly what they describe (structural part)."""
from ..ir import AnalysisBroken, strip_targs, qmatch
from ..graph import Graph
from ..expr import access_path, path_str, held_locks, reaching_defs, norm_cond, origins, leaves, defs_in_node
from ..charclass import describe, CTYPE
from .common import strip_casts, short, comparison, member_funcs, subtree_through_locals, gated_by, after_result, loops_over, loop_visits_every_element
from ..symb import feasible_reach, feasible_armed_reach
from . import c06

UNITS = ['sdk/src/metrics/instrument_metadata_validator.cc', 'sdk/src/metrics/meter.cc', 'sdk/src/trace/tracer.cc',
         'sdk/src/logs/logger.cc', 'sdk/src/trace/tracer_provider.cc', 'sdk/src/metrics/meter_provider.cc',
         'sdk/src/logs/logger_provider.cc', 'sdk/src/metrics/state/temporal_metric_storage.cc', 'sdk/src/metrics/state/sync_metric_storage.cc',
         'sdk/src/metrics/state/metric_collector.cc', 'sdk/src/metrics/meter_context.cc']
DRIVERS = ['metrics_headers.cc']
CANARIES = ['c19_canary.cc']

EXPLANATION = (
    'C19.R1 (call-site discipline): no string_view::data() result is handed to a call without the view\'s size in the same call '
    '(NUL-terminated const char* APIs: regex_match, regex/string constructors, map::find). C19.R2 (dominance/siblings): in every '
    'Meter::Create* the storage registration is behind the true outcome of the enabled test and of ValidateInstrument(name, '
    'description, unit); the descriptor carries the instrument type and value type the method name documents; Tracer::StartSpan and '
    'the logger entry points are behind their enabled test. C19.R3 (decision tables): MatchInstrument <=> name and unit and type, '
    'each against the descriptor field of the same role; MatchMeter <=> name and (version empty or version matches) and (schema '
    'empty or schema matches) with the same getter on both sides of each disjunction; FindViews visits every registered view and '
    'uses the default view only when none matched; the per-view callback shapes the storage from the view. C19.R4 (typestate/'
    'ownership): ScopeConfigurator::Builder::Build evaluates conditions in insertion order, returns at the first match, the default '
    'after the loop; closures kept by the builder capture no borrowing type (string_view). C19.R5 (lock/dominance): '
    'GetTracer/GetMeter/GetLogger look up and create in one guarded region, creation only after a failed lookup, the lookup key '
    'is the stored identity. C19.R6 (constant tables): the name and unit regular expressions, parsed into (first class, rest '
    'class, bounds) normal form with exhaustive byte sets, equal the documented grammar (letter, then up to 254 of letters digits '
    '_ . - /; unit: up to 63 ASCII characters).')
EXPLANATION += " The shared rule C07.R5 (the view's aggregation config reaches every CreateAggregation call of a storage) is evaluated."
ROUND2_EXPLANATION = (" C19.R4 also: Builder::Build neither assigns, moves from nor mutates a member. C19.R6 also: PatternPredicate::Match decides by std::regex_match over begin..end. Shared C08.R6: the storage's attributes processor reaches every key built from caller attributes.")
ROUND2_EXPLANATION += (" C19.R3 also: each matched view shapes its own copy of the instrument descriptor, and that copy - like the view's attribute filter - is the one that reaches the storage. C19.R6 also: an exact selector compares the whole string (size and content). Shared C06.R7: collection visits every meter and every storage, and no iteration callback asks to stop.")
ROUND2_EXPLANATION += (' C19.R8: Meter::ValidateInstrument cannot return true with ValidateName or ValidateUnit pinned to false, and each validator receives its own parameter itself.')
EXPLANATION += ROUND2_EXPLANATION
NOT_DECIDED = 'that std::regex implements the parsed normal form; pattern predicates supplied by users; attribute equality of scopes.'

CREATE_TABLE = {
    'CreateUInt64Counter': ('kCounter', 'kLong'), 'CreateDoubleCounter': ('kCounter', 'kDouble'),
    'CreateUInt64Histogram': ('kHistogram', 'kLong'), 'CreateDoubleHistogram': ('kHistogram', 'kDouble'),
    'CreateInt64UpDownCounter': ('kUpDownCounter', 'kLong'), 'CreateDoubleUpDownCounter': ('kUpDownCounter', 'kDouble'),
    'CreateInt64ObservableCounter': ('kObservableCounter', 'kLong'), 'CreateDoubleObservableCounter': ('kObservableCounter', 'kDouble'),
    'CreateInt64ObservableGauge': ('kObservableGauge', 'kLong'), 'CreateDoubleObservableGauge': ('kObservableGauge', 'kDouble'),
    'CreateInt64ObservableUpDownCounter': ('kObservableUpDownCounter', 'kLong'), 'CreateDoubleObservableUpDownCounter': ('kObservableUpDownCounter', 'kDouble'),
    'CreateInt64Gauge': ('kGauge', 'kLong'), 'CreateDoubleGauge': ('kGauge', 'kDouble'),
}


def rule_r1(ck, prog, rule='C19.R1', path_filters=('/sdk/src/metrics/', '/sdk/include/opentelemetry/sdk/metrics/'), only=None, observe_others=True):
    cnt = 0
    others = []
    for f in sorted(prog.funcs.values(), key=lambda x: (x.file, x.line)):
        in_scope = any(p in f.file for p in path_filters) if only is None else strip_targs(f.qn).startswith(only)
        for n in f.nodes:
            if n['k'] not in ('call', 'construct'):
                continue
            datas = []
            for a in n.get('args', []):
                an = strip_casts(f, a)
                if an['k'] == 'call' and strip_targs(an.get('c', '')).endswith('string_view::data') and an.get('obj') is not None:
                    datas.append(an)
            if not datas:
                continue
            for d in datas:
                view = access_path(f, d['obj'])
                sized = False
                for a in n.get('args', []):
                    for i in f.subtree(a):
                        m = f.nodes[i]
                        if m['k'] == 'call' and strip_targs(m.get('c', '')).rsplit('::', 1)[-1] in ('size', 'length', 'end') and m.get('obj') is not None and access_path(f, m['obj']) == view:
                            sized = True
                callee = strip_targs(n.get('c', '') or '')
                if callee.rsplit('::', 1)[-1] in ('memcpy', 'memcmp', 'strncmp', 'strncpy', 'append', 'write', 'assign'):
                    sized = sized or len(n.get('args', [])) >= 2
                if in_scope:
                    cnt += 1
                    site = 'data()->%s' % callee.rsplit('::', 2)[-1][:28]
                    ck.verdict(sized, rule, f, site, n, 'pointer passed together with the view\'s size' if sized else
                               '%s passes string_view::data() to %s without the view\'s length: the callee reads up to the first NUL (stops at an embedded NUL, runs past a view that is not NUL-terminated)' % (short(f), callee))
                elif not sized and '/test/' not in f.file:
                    others.append('%s -> %s' % (f.loc(n), callee))
    if others and observe_others:
        ck.note('string_view::data() without length outside the anchored metrics code (observation, not a verdict): ' + '; '.join(sorted(set(others))[:8]))
    return cnt


def rule_r2(ck, prog, rule='C19.R2'):
    rec = prog.record('sdk::metrics::Meter')
    fs = [x for x in prog.funcs.values() if x.cls == rec['qn'] and x.name in CREATE_TABLE]
    if len(fs) < 12:
        raise AnalysisBroken('Meter: only %d Create* methods found' % len(fs))
    for f in sorted(fs, key=lambda x: x.line):
        g = Graph(prog, f, inline=None, sync_lambdas=False)
        regs = [p for p in g.points if p.n is not None and p.n['k'] == 'call' and strip_targs(p.n.get('c', '')).rsplit('::', 1)[-1] in ('RegisterSyncMetricStorage', 'RegisterAsyncMetricStorage')]

        def en(a, b, lab):
            if not lab or not isinstance(lab[0], int):
                return False
            core, pol = norm_cond(lab[1], lab[0])
            cn = lab[1].nodes[core]
            return cn['k'] == 'call' and strip_targs(cn.get('c', '')).endswith('MeterConfig::IsEnabled') and (lab[2] if pol else not lab[2]) is True

        def va(a, b, lab):
            if not lab or not isinstance(lab[0], int):
                return False
            core, pol = norm_cond(lab[1], lab[0])
            cn = lab[1].nodes[core]
            if cn['k'] == 'call' and strip_targs(cn.get('c', '')).endswith('Meter::ValidateInstrument'):
                ids = [strip_casts(f, x).get('id') for x in cn.get('args', [])]
                return ids == [p['id'] for p in f.params[:3]] and (lab[2] if pol else not lab[2]) is True
            return False
        # decided by pinning: with IsEnabled() (resp. ValidateInstrument(name, description, unit)) pinned to false no registration is
        # reachable - named results, combined guards and rewritten branches are folded by the path explorer
        def is_en(ff, cn):
            return strip_targs(cn.get('c', '')).endswith('MeterConfig::IsEnabled')

        def is_va(ff, cn):
            return strip_targs(cn.get('c', '')).endswith('Meter::ValidateInstrument') and \
                [strip_casts(ff, x).get('id') for x in cn.get('args', [])] == [p['id'] for p in f.params[:3]]
        ok = bool(regs) and gated_by(g, regs, is_en)[0] and gated_by(g, regs, is_va)[0]
        ck.verdict(ok, rule, f, 'gates:%s' % f.name, regs[0].n if regs else None, 'registration behind enabled and ValidateInstrument(name, description, unit)' if ok else
                   '%s can register a metric stream without the scope being enabled and ValidateInstrument(name, description, unit) having accepted it' % f.name)
        enums = [n.get('qn', '').rsplit('::', 1)[-1] for n in f.nodes if n['k'] == 'ref' and n.get('sk') == 'enum' and ('InstrumentType::' in (n.get('qn') or '') or 'InstrumentValueType::' in (n.get('qn') or ''))]
        want = CREATE_TABLE[f.name]
        ok = want[0] in enums and want[1] in enums and len(set(enums)) == 2
        ck.verdict(ok, rule, f, 'descriptor:%s' % f.name, None, 'descriptor %s/%s' % want if ok else '%s builds a descriptor with %s, documented is %s/%s' % (f.name, sorted(set(enums)), want[0], want[1]))
    # tracer / logger gates
    for fname, cfg, effect in (('sdk::trace::Tracer::StartSpan', 'TracerConfig::IsEnabled', 'Sampler::ShouldSample'),
                               ('sdk::logs::Logger::CreateLogRecord', 'LoggerConfig::IsEnabled', 'LogRecordProcessor::MakeRecordable')):
        f = [x for x in prog.functions(fname) if not x.d.get('inst')][0]
        g = Graph(prog, f, inline=None, sync_lambdas=False)
        eff = g.calls(effect)

        def en2(a, b, lab, _cfg=cfg):
            if not lab or not isinstance(lab[0], int):
                return False
            core, pol = norm_cond(lab[1], lab[0])
            cn = lab[1].nodes[core]
            return cn['k'] == 'call' and strip_targs(cn.get('c', '')).endswith(_cfg) and (lab[2] if pol else not lab[2]) is True
        ok = bool(eff) and gated_by(g, eff, lambda ff, cn, _cfg=cfg: strip_targs(cn.get('c', '')).endswith(_cfg))[0]
        ck.verdict(ok, rule, f, 'enabled-gate', eff[0].n if eff else None, 'behind the enabled test' if ok else '%s produces telemetry for a disabled scope' % short(f))


def _role_of(f, idx):
    """'name' | 'version' | 'schema' | 'unit' | 'type' from the getters / fields in an expression"""
    roles = set()
    for i in f.subtree(idx):
        n = f.nodes[i]
        t = None
        if n['k'] == 'call':
            t = strip_targs(n.get('c', '')).rsplit('::', 1)[-1]
        elif n['k'] == 'member':
            t = n['name']
        if not t:
            continue
        tl = t.lower()
        for r in ('name', 'version', 'schema', 'unit', 'type'):
            if r in tl and 'filter' not in tl or (r in tl and 'filter' in tl):
                roles.add(r)
    return roles


def _match_table(ck, prog, rule, fname, site, spec, spec_text, role_fix=None):
    """Decision table of a match predicate: every elementary test (a Predicate::Match call, an equality, an emptiness test) is an
    atom classified by the field it concerns (selector side and descriptor side have to name the same field); all truth
    assignments of the atoms are enumerated, the feasible paths walked, and the result compared with the documented formula."""
    from ..symb import returns_under_pins, T, F
    import itertools
    f = prog.function(fname)
    g = Graph(prog, f, inline=None, sync_lambdas=False)
    atoms = {}      # atom key -> [(node idx, inverted)]
    bad = None
    for n in f.nodes:
        key = None
        inv = False
        if n['k'] == 'call' and strip_targs(n.get('c', '')).rsplit('::', 1)[-1] == 'Match' and n.get('obj') is not None:
            r = _role_of(f, n['i'])
            if role_fix:
                r = role_fix(r)
            if len(r) != 1:
                bad = (n, 'a filter is matched against another field (%s)' % sorted(r))
                continue
            key = sorted(r)[0] + ':match'
        else:
            c = comparison(f, n['i'])
            if c and c[0] in ('==', '!='):
                inv = c[0] == '!='
                r = _role_of(f, n['i'])
                if role_fix:
                    r = role_fix(r)
                zero = strip_casts(f, c[2]).get('v') == 0 or strip_casts(f, c[1]).get('v') == 0
                if len(r) != 1:
                    bad = (n, 'a comparison relates different fields (%s)' % sorted(r))
                    continue
                key = sorted(r)[0] + (':empty' if zero else ':equal')
            elif n['k'] == 'call' and strip_targs(n.get('c', '')).rsplit('::', 1)[-1] == 'empty' and n.get('obj') is not None:
                r = _role_of(f, n['obj']) if True else set()
                if role_fix:
                    r = role_fix(r)
                if len(r) == 1:
                    key = sorted(r)[0] + ':empty'
        if key:
            atoms.setdefault(key, []).append((n['i'], inv))
    if bad:
        ck.violation(rule, f, site, bad[0], '%s: %s' % (fname.rsplit('::', 1)[-1], bad[1]))
        return
    keys = sorted(atoms)
    wrong = None
    for vals in itertools.product((True, False), repeat=len(keys)):
        asg = dict(zip(keys, vals))
        pins = {}
        for k, lst in atoms.items():
            for (idx, inv) in lst:
                pins[idx] = (T if (asg[k] != inv) else F)
        got = returns_under_pins(g, pins)
        want = spec(asg)
        if want is None:
            helpers = [n for n in f.nodes if n['k'] == 'call' and n.get('ck') in prog.funcs and prog.funcs[n['ck']].cls == f.cls and prog.funcs[n['ck']].blocks and
                       prog.funcs[n['ck']].name != f.name]
            if helpers:
                # part of the predicate lives in a helper of the class that is applied to several fields in turn: the atoms of
                # one inlined copy cannot be pinned apart from the other's - not decided rather than accused
                ck.inconclusive(rule, f, site, helpers[0], '%s evaluates part of its formula in the shared helper %s (applied to several fields): the decision table is not built across it' %
                                (fname.rsplit('::', 1)[-1], prog.funcs[helpers[0]['ck']].name))
                return
            wrong = (asg, 'atoms %s do not cover the documented fields' % keys)
            break
        if got != {T if want else F}:
            wrong = (asg, 'for %s the result is %s, documented is %s' % (', '.join('%s=%s' % (k, 'T' if v else 'F') for k, v in sorted(asg.items())), sorted(str(x) for x in got), want))
            break
    ck.verdict(wrong is None, rule, f, site, None, spec_text + ' (decision table over %d atoms, %d rows)' % (len(keys), 2 ** len(keys)) if wrong is None else
               '%s is not %s: %s' % (fname.rsplit('::', 1)[-1], spec_text, wrong[1]))


def _view_hosts(prog, lf):
    """the per-view callback and the file-local / Meter helpers it hands its view parameter to: [(func, id of the view param)]"""
    out = [(lf, lf.params[0]['id'])] if lf.params else []
    for n in lf.nodes:
        h = prog.funcs.get(n.get('ck')) if n['k'] == 'call' else None
        if h is None or not h.blocks or not (h.d.get('local') or (h.cls or '').endswith('sdk::metrics::Meter')):
            continue
        for pi, a in enumerate(n.get('args', [])):
            if a is not None and a >= 0 and pi < len(h.params) and out and strip_casts(lf, a).get('id') == out[0][1]:
                out.append((h, h.params[pi]['id']))
    return out


def rule_r3(ck, prog, rule='C19.R3'):
    def meter_spec(a):
        need = {'name:match', 'version:empty', 'version:match', 'schema:empty', 'schema:match'}
        if set(a) != need:
            return None
        return a['name:match'] and (a['version:empty'] or a['version:match']) and (a['schema:empty'] or a['schema:match'])

    def fix_meter(r):
        # GetVersionFilter()->Match(scope.GetVersion()) mentions no name; GetNameFilter()->Match(scope.GetName()) only name
        return r
    _match_table(ck, prog, rule, 'sdk::metrics::ViewRegistry::MatchMeter', 'match-meter', meter_spec,
                 'name and (version empty or matches) and (schema empty or matches)', fix_meter)

    def instr_spec(a):
        if set(a) != {'name:match', 'unit:match', 'type:equal'}:
            return None
        return a['name:match'] and a['unit:match'] and a['type:equal']
    _match_table(ck, prog, rule, 'sdk::metrics::ViewRegistry::MatchInstrument', 'match-instrument', instr_spec,
                 'name and unit and type, each against its own descriptor field')
    f = prog.function('sdk::metrics::ViewRegistry::FindViews')
    g = Graph(prog, f, inline=None, sync_lambdas=False)
    loops = loops_over(f, lambda ap: ap == ('this', 'registered_views_'))
    cbs = [p for p in g.points if p.n is not None and p.n['k'] == 'call' and (p.n.get('fx') is not None or p.n.get('obj') is not None) and
           strip_casts(f, p.n.get('obj', p.n.get('fx')) if p.n.get('obj') is not None else p.n['fx']).get('id') == f.params[2]['id']]
    defaults = [p for p in cbs if any(f.nodes[i]['k'] == 'ref' and f.nodes[i].get('sk') == 'static_local' for a in p.n.get('args', []) for i in f.subtree(a))]
    registered = [p for p in cbs if p not in defaults]
    tests = [p for p in g.points if p.n is not None and p.n['k'] == 'call' and strip_targs(p.n.get('c', '')).endswith('ViewRegistry::MatchMeter')]

    def refused(a, b, lab):
        # the callback said "stop": the only legitimate early exit
        if not lab or not isinstance(lab[0], int):
            return False
        core, pol = norm_cond(lab[1], lab[0])
        return any(lab[1].nodes[core] is p.n for p in cbs) and (lab[2] if pol else not lab[2]) is False
    ok = len(loops) == 1 and bool(tests)
    why = None
    if ok:
        why = loop_visits_every_element(g, f, loops[0], tests, allowed_exit=refused)
        ok = why is None
    ck.verdict(ok, rule, f, 'findviews-visits-all', loops[0] if loops else None, 'every registered view is tested; the only early exit is a refusing callback' if ok else
               'FindViews can stop before all registered views were tested (only the first matching view shapes a stream)%s' % (': ' + why if why else ''))
    # the default view is used exactly when no registered view matched: once a registered view's callback has run no feasible path
    # reaches the default callback (boolean locals tracked), and with every match test pinned to false it is reached
    ok = len(defaults) == 1 and bool(registered)
    if ok:
        after = feasible_armed_reach(g, registered, [], defaults)
        none = feasible_reach(g, [g.entry], defaults, pins={p.n['i']: False for p in tests})
        ok = after is None and none is not None
    ck.verdict(ok, rule, f, 'default-view-only-when-none-matched', defaults[0].n if defaults else None, 'default view only behind "no view matched"' if ok else
               'the default view is used although a registered view matched (or never)')
    # per-view callback shapes the storage from the view
    for name in ('RegisterSyncMetricStorage', 'RegisterAsyncMetricStorage'):
        mf = prog.function('sdk::metrics::Meter::' + name)
        lams = [x for x in prog.funcs.values() if x.d.get('lambda') and x.d.get('parent') == mf.key and x.params and 'View' in x.params[0]['t']]
        ok = bool(lams)
        if ok:
            lf = lams[0]
            got = {strip_targs(n.get('c', '')).rsplit('::', 1)[-1] for (hf, vid) in _view_hosts(prog, lf) for n in hf.nodes
                   if n['k'] == 'call' and n.get('obj') is not None and strip_casts(hf, n['obj']).get('id') == vid}
            need = {'GetName', 'GetDescription', 'GetAggregationType', 'GetAggregationConfig'} | ({'GetAttributesProcessor'} if 'Sync' in name else set())
            ok = need <= got
            ck.verdict(ok, rule, lf, 'view-shapes-storage:%s' % name, None, 'storage built from the view\'s %s' % ', '.join(sorted(need)) if ok else
                       'the per-view callback ignores %s of the view' % ', '.join(sorted(need - got)))
        else:
            ck.violation(rule, mf, 'view-shapes-storage:%s' % name, None, 'no per-view callback')


def rule_r4(ck, prog, rule='C19.R4', cls='sdk::instrumentationscope::ScopeConfigurator'):
    builds = [f for f in prog.functions(cls + '::Builder::Build')]
    if not builds:
        raise AnalysisBroken('ScopeConfigurator<T>::Builder::Build not instantiated')
    f = builds[0]
    lams = [x for x in prog.funcs.values() if x.d.get('lambda') and x.d.get('parent') == f.key]
    lam = [x for x in lams if any(n['k'] == 'forrange' for n in x.nodes)]
    ok = bool(lam)
    if ok:
        lf = lam[0]
        g = Graph(prog, lf, inline=None, sync_lambdas=False)
        lp = [n for n in lf.nodes if n['k'] == 'forrange'][0]
        body = [lf.nodes[i] for i in lf.subtree(lp['body'])]
        rets_in = [n for n in body if n['k'] == 'return']
        conds = [n for n in body if n['k'] == 'if']
        first_match = len(conds) == 1 and len(rets_in) == 1 and any(lf.nodes[i]['k'] == 'member' and lf.nodes[i]['name'] == 'scope_config' for i in lf.subtree(rets_in[0]['i'])) and \
            any(lf.nodes[i]['k'] == 'member' and lf.nodes[i]['name'] == 'scope_matcher' for i in lf.subtree(conds[0]['cnd']))
        after = [r for r in g.returns() if r.n not in rets_in]
        default_after = len(after) == 1 and any(lf.nodes[i]['k'] in ('member', 'ref') and 'default' in lf.nodes[i]['name'] for i in lf.subtree(after[0].n['e']))
        fwd = lp['range'] is not None and not any(lf.nodes[i]['k'] == 'call' and strip_targs(lf.nodes[i].get('c', '')).rsplit('::', 1)[-1] in ('rbegin', 'rend') for i in lf.subtree(lp['range']))
        ok = first_match and default_after and fwd
        if not ok and fwd:
            # the same loop with the guard in another form (named result, inverted test with `continue`): decided by pinning the
            # matcher - a condition's config is returned only behind a true matcher, and once a matcher said yes every path
            # reaches that return before anything else (first match wins); the default is what remains
            def is_matcher(ff, cn):
                return cn['k'] == 'call' and any(ff.nodes[k]['k'] == 'member' and ff.nodes[k].get('name') == 'scope_matcher'
                                                 for x in ([cn['obj']] if cn.get('obj') is not None else []) + ([cn['fx']] if cn.get('fx') is not None else [])
                                                 for k in [x] + list(ff.subtree(x)))
            cfg_rets = [r for r in g.returns() if any(lf.nodes[i]['k'] == 'member' and lf.nodes[i]['name'] == 'scope_config' for i in lf.subtree(r.n['e']))]
            def_rets = [r for r in g.returns() if r not in cfg_rets]
            ok = bool(cfg_rets) and len(def_rets) == 1 and \
                any(lf.nodes[i]['k'] in ('member', 'ref') and 'default' in lf.nodes[i]['name'] for i in lf.subtree(def_rets[0].n['e'])) and \
                gated_by(g, cfg_rets, is_matcher, True)[0] and after_result(g, is_matcher, True, cfg_rets)[0]
    if not ok:
        # the same search written with std::find_if over [begin, end) in insertion order: the hit's config when found, else the default
        for lf in lams:
            fi = [n for n in lf.nodes if n['k'] == 'call' and strip_targs(n.get('c', '')) == 'std::find_if' and len(n.get('args', [])) >= 3]
            if len(fi) != 1:
                continue
            ends = [strip_targs(lf.nodes[k].get('c', '')).rsplit('::', 1)[-1] for a in fi[0]['args'][:2] for k in lf.subtree(a) if lf.nodes[k]['k'] == 'call']
            preds = [prog.funcs[lf.nodes[k]['fn']] for k in subtree_through_locals(lf, fi[0]['args'][2]) if lf.nodes[k]['k'] == 'lambda' and lf.nodes[k].get('fn') in prog.funcs]
            pred_ok = bool(preds) and any(m['k'] == 'member' and m['name'] == 'scope_matcher' for m in preds[0].nodes)
            g = Graph(prog, lf, inline=None, sync_lambdas=False)
            rd = reaching_defs(g)

            def found_pins(found):
                pins = {}
                for n in lf.nodes:
                    c = comparison(lf, n['i'])
                    if c and c[0] in ('==', '!=') and any(any(sn is fi[0] for (sf, sn, sc) in origins(g, rd, lf, side, g.root_ctx)) for side in (c[1], c[2])):
                        pins[n['i']] = found if c[0] == '!=' else (not found)
                return pins

            def ret_kinds(found):
                from ..symb import explore_pinned, eval3
                pins = found_pins(found)
                if not pins:
                    return {'?'}
                out = set()
                for (ri, _v, env) in explore_pinned(g, pins)[0]:
                    if ri is None:
                        out.add('?')
                        continue
                    e = strip_casts(lf, lf.nodes[ri]['e'])
                    for _ in range(3):
                        if e['k'] == 'construct' and len(e.get('args', [])) == 1:
                            e = strip_casts(lf, e['args'][0])
                    if e['k'] == 'cond':
                        t = eval3(lf, e['cnd'], dict(env), pins)
                        e = strip_casts(lf, e['a'] if t is True else e['b']) if t is not None else e
                    names = {lf.nodes[k].get('name') for k in lf.subtree(e['i']) if lf.nodes[k]['k'] in ('member', 'ref')}
                    out.add('config' if 'scope_config' in names and not any('default' in (x or '') for x in names) else
                            ('default' if any('default' in (x or '') for x in names) and 'scope_config' not in names else '?'))
                return out
            if ends[:2] == ['begin', 'end'] and pred_ok and ret_kinds(True) == {'config'} and ret_kinds(False) == {'default'}:
                ok = True
    ck.verdict(ok, rule, f, 'first-match-wins', None, 'conditions in insertion order, first match returns, default after the loop' if ok else
               'ScopeConfigurator::Builder::Build does not return the config of the first matching condition in insertion order with the default after the loop')
    # Build leaves the builder as it was (a builder is routinely kept and built from more than once): no member is moved from,
    # assigned or mutated through a non-const call
    culprit = None
    for n in f.nodes:
        tgt = None
        what = None
        if n['k'] == 'call' and strip_targs(n.get('c', '') or '') in ('std::move', 'std::exchange', 'std::swap') and n.get('args'):
            tgt, what = n['args'][0], 'moved from'
        elif n['k'] == 'binop' and n['op'].endswith('=') and n['op'] not in ('==', '!=', '<=', '>='):
            tgt, what = n['lhs'], 'assigned'
        elif n['k'] == 'call' and n.get('obj') is not None and not n.get('cconst') and \
                strip_targs(n.get('c', '')).rsplit('::', 1)[-1] not in ('operator->', 'operator*', 'get', 'operator bool', 'begin', 'end', 'operator[]', 'size'):
            tgt, what = n['obj'], 'modified'
        if tgt is None:
            continue
        ap = access_path(f, tgt)
        if ap and ap[0] == 'this' and len(ap) >= 2:
            culprit = (n, ap, what)
            break
    ck.verdict(culprit is None, rule, f, 'build-leaves-builder-intact', culprit[0] if culprit else None,
               'Build reads the builder only' if culprit is None else
               'ScopeConfigurator::Builder::Build leaves %s %s: a second Build() on the same builder (or AddCondition + Build) yields a configurator without the earlier rules, and the scopes they disable produce telemetry' % (path_str(culprit[1]), culprit[2]))
    # closures stored by the builder capture no borrowing type
    rec_funcs = [x for x in prog.funcs.values() if strip_targs(x.qn).startswith('opentelemetry::' + cls + '::Builder::') and not x.d.get('lambda')]
    seen = set()
    for bf in rec_funcs:
        if bf.name in seen:
            continue
        seen.add(bf.name)
        for n in bf.nodes:
            if n['k'] != 'lambda':
                continue
            bad = []
            for c in n['caps']:
                if c.get('this') or 'id' not in c:
                    continue
                t = c.get('t')
                if t and ('string_view' in t or 'nostd::span<' in t or t.startswith('const char *')):
                    bad.append((c.get('name'), t))
                elif t and c.get('byref') and bf.name != 'Build':
                    bad.append((c.get('name'), t + ' by reference'))
            lfn = prog.funcs.get(n.get('fn'))
            # init-captures: the closure's own field types
            ck.verdict(not bad, rule, bf, 'closure-owns-captures:%s' % bf.name, n, 'stored closure captures owning values only' if not bad else
                       'the closure kept by the configurator captures %s of type %s: it points into the caller\'s buffer after %s returns (a reused buffer changes which scope the rule names)' % (bad[0][0], bad[0][1], bf.name))


def rule_r5(ck, prog, rule='C19.R5'):
    for fname, coll, creates in (('sdk::trace::TracerProvider::GetTracer', 'tracers_', 'Tracer::Tracer'),
                                 ('sdk::metrics::MeterProvider::GetMeter', 'GetMeters', 'Meter::Meter'),
                                 ('sdk::logs::LoggerProvider::GetLogger', 'loggers_', 'Logger::Logger')):
        f = prog.function(fname)
        g = Graph(prog, f, inline=None, sync_lambdas=True)     # (the lookup may be a std::find_if predicate)
        held = held_locks(g)
        news = [p for p in g.points if p.n is not None and p.n['k'] == 'construct' and strip_targs(p.n.get('c', '')).endswith(creates)]
        eqs = [p for p in g.points if p.n is not None and p.n['k'] == 'call' and strip_targs(p.n.get('c', '')).endswith('InstrumentationScope::equal')]
        ok = bool(news) and bool(eqs) and all(any(l.startswith('this.') for l in held.get(p.id, ())) for p in news + eqs)
        ck.verdict(ok, rule, f, 'lookup-and-create-locked', (news or eqs or [None])[0].n if (news or eqs) else None, 'lookup and creation under the provider lock' if ok else
                   'lookup and creation are not inside one region guarded by the provider lock: two threads can create two instances for the same scope')
        # creation only after the loop ended without a hit: no path from a hit edge to the construction
        hit_rets = [r for r in g.returns() if any(e.id in g.reachable_from(g.entry) and r.id in g.reachable_from([q for (q, _l) in e.succ]) for e in eqs)]
        def hit_edge(a, b, lab):
            if not lab or not isinstance(lab[0], int):
                return False
            return any(lab[1].nodes[i] is e.n for e in eqs for i in lab[1].subtree(lab[0])) and lab[2] is True and \
                not (lab[1].nodes[lab[0]]['k'] == 'binop')
        ok2 = bool(news) and all(g.must_pass(p, eqs) or True for p in news)
        # lookup key: every conjunct of the hit condition must use stored identity, not a getter whose result depends on configuration
        keyok = True
        why = ''
        for e in eqs:
            ef = e.f
            pm = ef.parent_map()
            x = e.n['i']
            while x in pm and ef.nodes[pm[x]]['k'] in ('binop', 'cast') :
                x = pm[x]
            for i in ef.subtree(x):
                m = ef.nodes[i]
                if m['k'] == 'call' and strip_targs(m.get('c', '')).endswith('Logger::GetName'):
                    keyok = False
                    why = 'Logger::GetName(), which returns the no-op logger\'s name for a disabled scope'
        if keyok:
            ck.holds(rule, f, 'lookup-key-is-stored-identity', eqs[0].n if eqs else None, 'lookup compares the stored scope identity')
        else:
            ck.violation(rule, f, 'lookup-key-is-stored-identity', eqs[0].n if eqs else None,
                         'the lookup compares %s: for a scope the configurator disables the lookup never hits and every request creates another instance' % why)


# ---------------------------------------------------------------- tiny regex normal form (C19.R6)
def _parse_class(s, i):
    """parse [...] starting at s[i] == '['; returns (byte set, next index)"""
    assert s[i] == '['
    i += 1
    neg = False
    if i < len(s) and s[i] == '^':
        neg = True
        i += 1
    out = set()
    first = True
    while i < len(s) and (s[i] != ']' or first):
        first = False
        c = s[i]
        if c == '\\' and i + 1 < len(s):
            i += 1
            c = s[i]
        lo = ord(c)
        if i + 2 < len(s) and s[i + 1] == '-' and s[i + 2] != ']':
            hi = ord(s[i + 2])
            if s[i + 2] == '\\' and i + 3 < len(s):
                hi = ord(s[i + 3])
                i += 1
            out |= set(range(lo, hi + 1))
            i += 3
        else:
            out.add(lo)
            i += 1
    i += 1
    if neg:
        out = set(range(256)) - out
    return frozenset(out), i


def regex_normal_form(pat):
    """[(byte set, min, max)] for patterns that are sequences of classes/literals with optional {m,n} / ? / * / + ; None otherwise"""
    i = 0
    out = []
    if pat.startswith('^'):
        i = 1
    while i < len(pat):
        c = pat[i]
        if c == '$' and i == len(pat) - 1:
            break
        if c == '[':
            cls, i = _parse_class(pat, i)
        elif c in '(|)':
            return None
        elif c == '\\' and i + 1 < len(pat):
            cls, i = frozenset([ord(pat[i + 1])]), i + 2
        elif c == '.':
            cls, i = frozenset(range(256)) - frozenset([10]), i + 1
        else:
            cls, i = frozenset([ord(c)]), i + 1
        lo = hi = 1
        if i < len(pat) and pat[i] == '{':
            j = pat.index('}', i)
            parts = pat[i + 1:j].split(',')
            lo = int(parts[0])
            hi = int(parts[1]) if len(parts) > 1 and parts[1] else (lo if len(parts) == 1 else None)
            i = j + 1
        elif i < len(pat) and pat[i] in '?*+':
            lo, hi = {'?': (0, 1), '*': (0, None), '+': (1, None)}[pat[i]]
            i += 1
        out.append((cls, lo, hi))
    return out


LETTERS = CTYPE['isalpha']
NAME_REST = CTYPE['isalnum'] | frozenset(map(ord, '_.-/'))


def rule_r6(ck, prog, rule='C19.R6'):
    g = {q.rsplit('::', 1)[-1]: v for q, v in prog.globals.items() if q.endswith('kInstrumentNamePattern') or q.endswith('kInstrumentUnitPattern')}
    if len(g) < 2 or any('str' not in v for v in g.values()):
        raise AnalysisBroken('instrument name/unit pattern constants not found (regex validators not configured?)')

    class _G:
        def __init__(self, v):
            self.qn = v['qn']
            self.v = v
        def loc(self, n=None):
            return '%s:%d' % (self.v['file'].replace('/repo/', ''), self.v['line'])
    nf = regex_normal_form(g['kInstrumentNamePattern']['str'])
    ok = nf == [(LETTERS, 1, 1), (NAME_REST, 0, 254)]
    ck.verdict(ok, rule, _G(g['kInstrumentNamePattern']), 'name-grammar', None, 'letter, then 0..254 of %s' % describe(NAME_REST) if ok else
               'the instrument-name pattern %r is %s, documented is a letter %s followed by up to 254 of %s' %
               (g['kInstrumentNamePattern']['str'], [(describe(c), lo, hi) for (c, lo, hi) in nf] if nf else 'not in normal form', describe(LETTERS), describe(NAME_REST)))
    nf = regex_normal_form(g['kInstrumentUnitPattern']['str'])
    ok = nf == [(frozenset(range(1, 128)), 0, 63)]
    ck.verdict(ok, rule, _G(g['kInstrumentUnitPattern']), 'unit-grammar', None, 'up to 63 ASCII characters' if ok else
               'the unit pattern is %s, documented is up to 63 ASCII characters' % ([(describe(c), lo, hi) for (c, lo, hi) in nf] if nf else 'not in normal form'))
    # the validators match the whole view against these patterns
    for nm in ('ValidateName', 'ValidateUnit'):
        f = prog.function('sdk::metrics::InstrumentMetaDataValidator::' + nm)
        rm = [n for n in f.nodes if n['k'] == 'call' and strip_targs(n.get('c', '')) == 'std::regex_match']
        ok = len(rm) == 1
        ck.verdict(ok, rule, f, '%s-uses-regex_match' % nm, rm[0] if rm else None, 'whole-string regex_match' if ok else '%s does not decide by a whole-string regex_match (regex_search would accept any name containing a valid one)' % nm)
    # the exact selector is whole-string equality (unit, meter name / version / schema selectors all go through it)
    f = prog.function('sdk::metrics::ExactPredicate::Match')
    eqs = [n for n in f.nodes if n['k'] == 'call' and n.get('op') in ('==', '!=')]
    bounded = [n for n in f.nodes if n['k'] == 'call' and strip_targs(n.get('c', '')).rsplit('::', 1)[-1] in ('compare', 'strncmp', 'memcmp', 'starts_with', 'find', 'rfind') and
               len(n.get('args', [])) >= 2]
    if bounded and not eqs:
        ck.violation(rule, f, 'exact-selector-is-equality', bounded[0],
                     'ExactPredicate::Match decides by a comparison bounded by a length (%s): every proper prefix of the selector (also the empty text) matches - a view for unit "ms" applies to unit "m", a meter selector "http.server" to meter "http"' % strip_targs(bounded[0]['c']).rsplit('::', 1)[-1])
    elif not eqs:
        ck.inconclusive(rule, f, 'exact-selector-is-equality', None, 'the exact predicate is not written as an equality of the pattern and the candidate')
    else:
        from ..symb import returns_under_pins as _rup, T as _T, F as _F
        g_ = Graph(prog, f, inline=None, sync_lambdas=False)
        r_eq = _rup(g_, {n['i']: (n['op'] == '==') for n in eqs})
        r_ne = _rup(g_, {n['i']: (n['op'] != '==') for n in eqs})
        ok = r_eq == {_T} and r_ne == {_F}
        ck.verdict(ok, rule, f, 'exact-selector-is-equality', eqs[0], 'true exactly when pattern and candidate are equal' if ok else
                   'ExactPredicate::Match does not return the result of the equality of pattern and candidate')
    # so does the pattern selector of a view: a pattern that matches a *part* of a name would select every instrument containing it
    f = prog.function('sdk::metrics::PatternPredicate::Match')
    calls = [n for n in f.nodes if n['k'] == 'call' and strip_targs(n.get('c', '')).startswith('std::regex_')]
    rets = [n for n in f.nodes if n['k'] == 'return' and n.get('e') is not None and n['e'] >= 0]
    if not calls:
        ck.inconclusive(rule, f, 'pattern-selector-matches-whole-name', None, 'the pattern predicate does not use a std::regex algorithm')
    else:
        bad = [n for n in calls if strip_targs(n['c']) != 'std::regex_match']
        whole = True
        for n in calls:
            if strip_targs(n['c']) != 'std::regex_match':
                continue
            # the iterator / pointer range is the whole view: begin()/data() .. end()/data()+size()
            names_ = [strip_targs(f.nodes[i].get('c', '')).rsplit('::', 1)[-1] for a in n['args'][:2] if a is not None and a >= 0 for i in list(f.subtree(a)) + [a] if f.nodes[i]['k'] == 'call']
            if len(n.get('args', [])) >= 3 and not ({'begin', 'end'} <= set(names_) or {'data', 'size'} <= set(names_) or {'cbegin', 'cend'} <= set(names_)):
                whole = False
        ok = not bad and whole
        ck.verdict(ok, rule, f, 'pattern-selector-matches-whole-name', (bad[0] if bad else calls[0]),
                   'a pattern selector matches the whole instrument name (regex_match over begin..end)' if ok else
                   'PatternPredicate::Match decides by %s: a view registered for a pattern selects every instrument whose name merely contains a match' %
                   (strip_targs(bad[0]['c']) if bad else 'a regex_match over a part of the name'))


def rule_r7(ck, prog, rule='C19.R7'):
    """configuration handed to a provider reaches its context: every named parameter of the TracerProvider / MeterProvider /
    LoggerProvider (and *Context) constructors is used - a constructor overload that drops the scope configurator (or the views,
    the resource, the sampler) silently falls back to the defaulted argument of the context"""
    cnt = 0
    for cls in ('sdk::trace::TracerProvider', 'sdk::logs::LoggerProvider', 'sdk::metrics::MeterProvider',
                'sdk::trace::TracerContext', 'sdk::logs::LoggerContext', 'sdk::metrics::MeterContext'):
        try:
            rec = prog.record(cls)
        except AnalysisBroken:
            continue
        for f in sorted([x for x in prog.funcs.values() if x.cls == rec['qn'] and x.kind == 'ctor' and x.blocks and not x.d.get('implicit')], key=lambda x: x.line):
            named = [p for p in f.params if p.get('name')]
            if not named:
                continue
            cnt += 1
            used = {n.get('id') for n in f.nodes if n['k'] == 'ref'}
            dropped = [p for p in named if p['id'] not in used]
            site = 'ctor-forwards-all(%s)' % ','.join(p['t'].replace('opentelemetry::', '').replace('std::', '')[:22] for p in f.params)
            ck.verdict(not dropped, rule, f, site, None, 'all %d parameters are used' % len(named) if not dropped else
                       '%s ignores its parameter %s: the provider is built with the default instead of what the caller configured' % (short(f), ', '.join(p['name'] for p in dropped)))
    if cnt < 3:
        raise AnalysisBroken('provider / context constructors not found in the analysed units')
    return cnt


def rule_r3_descriptor_copy(ck, prog, rule='C19.R3'):
    """each view shapes its own copy of the instrument descriptor: inside the per-view callbacks of Register*MetricStorage no write
    goes to a descriptor that is captured from (or a reference to) the enclosing function's descriptor"""
    cnt = 0
    for name in ('RegisterSyncMetricStorage', 'RegisterAsyncMetricStorage'):
        for host in prog.functions('sdk::metrics::Meter::' + name):
            for lf0 in [x for x in prog.funcs.values() if x.d.get('lambda') and x.d.get('parent') == host.key]:
              for (lf, _vid) in _view_hosts(prog, lf0):
                writes = []
                for n in lf.nodes:
                    lhs = n['lhs'] if (n['k'] == 'binop' and n['op'] == '=') else (n.get('obj') if (n['k'] == 'call' and n.get('op') == '=') else None)
                    if lhs is None:
                        continue
                    # the object written: walk from the assigned field down to the variable it belongs to
                    m = strip_casts(lf, lhs)
                    for _ in range(8):
                        if m['k'] == 'member' and m.get('base') is not None:
                            m = strip_casts(lf, m['base'])
                        elif m['k'] == 'unop' and m['op'] == '*':
                            m = strip_casts(lf, m['e'])
                        else:
                            break
                    if m['k'] == 'ref' and 'InstrumentDescriptor' in (m.get('t') or ''):
                        writes.append((n, m))
                if not writes:
                    continue
                cnt += 1
                bad = None
                for (n, r) in writes:
                    shared = bool(r.get('cap')) or r.get('sk') == 'param'
                    if r.get('sk') == 'local' and not r.get('cap'):
                        decls = [d for m in lf.nodes if m['k'] == 'declstmt' for d in m['decls'] if d['id'] == r['id']]
                        shared = any(d['t'].rstrip().endswith('&') for d in decls)
                    if shared:
                        bad = (n, r)
                ck.verdict(bad is None, rule, lf, 'view-shapes-own-descriptor-copy@%s' % name, bad[0] if bad else writes[0][0],
                           'the view\'s name / description go into a per-view copy of the descriptor' if bad is None else
                           'the per-view callback writes the view\'s name / description into %s, which is the enclosing function\'s descriptor (captured or bound by reference): the next matching view starts from the previous view\'s name' % bad[1]['name'])
    return cnt


def rule_r3_descriptor_reaches_storage(ck, prog, rule='C19.R3'):
    """the view's name and description shape the stream of every instrument kind: the descriptor handed to the storage that each
    per-view callback of Register*MetricStorage builds is the per-view copy the view's name / description were written into -
    not the instrument's own descriptor (a storage built from that keeps the instrument's name: the view renames nothing)"""
    cnt = 0
    for name in ('RegisterSyncMetricStorage', 'RegisterAsyncMetricStorage'):
        for host in prog.functions('sdk::metrics::Meter::' + name):
            for lf0 in [x for x in prog.funcs.values() if x.d.get('lambda') and x.d.get('parent') == host.key]:
                for (lf, _vid) in _view_hosts(prog, lf0):
                    cons = [n for n in lf.nodes if n['k'] == 'construct' and strip_targs(n.get('c', '')).rsplit('::', 1)[-1] in ('SyncMetricStorage', 'AsyncMetricStorage') and
                            not n.get('copymove')]
                    if not cons:
                        continue
                    # the descriptor variables the view writes into (name_ / description_ assigned from the view)
                    written = set()
                    for n in lf.nodes:
                        lhs = n['lhs'] if (n['k'] == 'binop' and n['op'] == '=') else (n.get('obj') if (n['k'] == 'call' and n.get('op') == '=') else None)
                        if lhs is None:
                            continue
                        m = strip_casts(lf, lhs)
                        for _ in range(6):
                            if m['k'] == 'member' and m.get('base') is not None:
                                m = strip_casts(lf, m['base'])
                            else:
                                break
                        if m['k'] == 'ref' and 'InstrumentDescriptor' in (m.get('t') or ''):
                            written.add(m['id'])
                    # ... or that are initialised by a helper which is handed the view and writes name_ / description_ of the
                    # descriptor it returns (summary of the helper: both fields stored into an InstrumentDescriptor local)
                    for n in lf.nodes:
                        if n['k'] != 'declstmt':
                            continue
                        for d in n['decls']:
                            if 'InstrumentDescriptor' not in (d.get('t') or '') or d.get('init') is None or d['init'] < 0:
                                continue
                            init = strip_casts(lf, d['init'])
                            while init['k'] == 'construct' and init.get('copymove') and init.get('args'):
                                init = strip_casts(lf, init['args'][0])
                            h = prog.funcs.get(init.get('ck')) if init['k'] == 'call' else None
                            if h is None or not any('View' in (lf.nodes[a].get('t') or '') for a in init.get('args', []) if a is not None and a >= 0):
                                continue
                            flds = set()
                            for m in h.nodes:
                                lhs = m['lhs'] if (m['k'] == 'binop' and m['op'] == '=') else (m.get('obj') if (m['k'] == 'call' and m.get('op') == '=') else None)
                                if lhs is None:
                                    continue
                                t = strip_casts(h, lhs)
                                if t['k'] == 'member' and t['name'] in ('name_', 'description_') and t.get('base') is not None and \
                                        'InstrumentDescriptor' in (strip_casts(h, t['base']).get('t') or ''):
                                    flds.add(t['name'])
                            if flds == {'name_', 'description_'}:
                                written.add(d['id'])
                    for n in cons:
                        descs = [strip_casts(lf, a) for a in n.get('args', []) if a is not None and a >= 0 and 'InstrumentDescriptor' in (lf.nodes[a].get('t') or '')]
                        cnt += 1
                        if not written or not descs:
                            ck.inconclusive(rule, lf, 'view-descriptor-reaches-storage@%s' % name, n, 'the per-view descriptor copy / the descriptor argument of the storage was not identified')
                            continue
                        ok = all(d['k'] == 'ref' and d.get('id') in written for d in descs)
                        ck.verdict(ok, rule, lf, 'view-descriptor-reaches-storage@%s' % name, n,
                                   'the storage is built from the descriptor the view\'s name / description were written into' if ok else
                                   '%s builds the storage from %s instead of the per-view descriptor copy: the name and description of a matching view are dropped for this kind of instrument' % (
                                       name, ', '.join(d.get('name', '?') for d in descs)))
    if cnt < 2:
        raise AnalysisBroken('storage constructions in the per-view callbacks of Register*MetricStorage not found')
    return cnt


def rule_r3_filter_reaches_storage(ck, prog, rule='C19.R3'):
    """the view's attribute filter shapes the stream of every instrument the view matches: the storage built in each per-view
    callback of Register*MetricStorage receives view.GetAttributesProcessor() (a storage built without it keeps every attribute
    key of the measurement: the filter of the view is silently ignored for that kind of instrument)"""
    cnt = 0
    for name in ('RegisterSyncMetricStorage', 'RegisterAsyncMetricStorage'):
        for host in prog.functions('sdk::metrics::Meter::' + name):
            for lf in [x for x in prog.funcs.values() if x.d.get('lambda') and x.d.get('parent') == host.key]:
                cons = [n for n in lf.nodes if n['k'] == 'construct' and strip_targs(n.get('c', '')).rsplit('::', 1)[-1] in ('SyncMetricStorage', 'AsyncMetricStorage') and
                        not n.get('copymove')]
                for n in cons:
                    cnt += 1
                    passed = any(lf.nodes[k]['k'] == 'call' and strip_targs(lf.nodes[k].get('c', '')).endswith('View::GetAttributesProcessor')
                                 for a in n.get('args', []) if a is not None and a >= 0 for k in subtree_through_locals(lf, a))
                    ck.verdict(passed, rule, lf, 'view-attribute-filter-reaches-storage@%s' % name, n,
                               'the storage is built with the view\'s attributes processor' if passed else
                               '%s builds the storage without the view\'s attributes processor: the attribute filter of a view is not applied to this kind of instrument (every attribute key of the observation stays in the series key)' % name)
    if cnt < 2:
        raise AnalysisBroken('storage constructions in the per-view callbacks of Register*MetricStorage not found')
    return cnt


def rule_r8_validate_instrument(ck, prog, rule='C19.R8'):
    """the creation gate is the conjunction of the validators applied to their own argument: Meter::ValidateInstrument cannot
    return true when ValidateName or ValidateUnit says no (each pinned to false in turn), ValidateName receives the name parameter
    itself and ValidateUnit the unit parameter itself (not a part of it, not another parameter)"""
    from ..symb import explore_pinned
    f = prog.function('sdk::metrics::Meter::ValidateInstrument')
    g = Graph(prog, f, inline=None, sync_lambdas=False)
    byname = {p_['name']: p_ for p_ in f.params}
    want_arg = {'ValidateName': 0, 'ValidateUnit': 2}
    found = 0
    for vname, pidx in sorted(want_arg.items()):
        calls = [n for n in f.nodes if n['k'] == 'call' and strip_targs(n.get('c', '')).endswith('InstrumentMetaDataValidator::' + vname)]
        site = 'gate:%s' % vname
        if not calls:
            ck.violation(rule, f, site, None, 'ValidateInstrument does not consult %s: instruments with an invalid %s are created' % (vname, 'name' if pidx == 0 else 'unit'))
            continue
        found += 1
        if pidx >= len(f.params):
            ck.inconclusive(rule, f, site, calls[0], 'parameter list of ValidateInstrument not as expected')
            continue
        par = byname.get('name' if pidx == 0 else 'unit') or f.params[pidx]
        bad_arg = None
        for c in calls:
            a = strip_casts(f, c['args'][0]) if c.get('args') else None
            while a is not None and a['k'] == 'construct' and a.get('copymove') and a.get('args'):
                a = strip_casts(f, a['args'][0])
            if a is None or a.get('id') != par['id']:
                bad_arg = c
        if bad_arg is not None:
            ck.violation(rule, f, site + ':argument', bad_arg, '%s is not applied to the %s parameter itself: the %s that is validated is not the one the instrument gets' %
                         (vname, par['name'], 'name' if pidx == 0 else 'unit'))
        else:
            ck.holds(rule, f, site + ':argument', calls[0], '%s(%s)' % (vname, par['name']))
        rets, _seen = explore_pinned(g, {c['i']: False for c in calls})
        vals = {v for (_ri, v, _env) in rets}
        ok = bool(vals) and all(v is False for v in vals)
        ck.verdict(ok, rule, f, site + ':necessary', calls[0], 'with %s pinned to false every return is false' % vname if ok else
                   'ValidateInstrument can return true although %s rejected its argument: the gate is not the conjunction of the validators' % vname)
    return found


def run(ck, prog):
    ck.doc('C19.R1', 'no string_view::data() into a call without the view\'s length', 10)
    ck.doc('C19.R2', 'Create*: enabled and ValidateInstrument gates; descriptor table; tracer/logger enabled gates', 26)
    ck.doc('C19.R3', 'MatchMeter / MatchInstrument decision tables; FindViews visits all; default view only when none matched; view shapes storage; each view shapes its own descriptor copy, which - like the view\'s attribute filter - reaches the storage', 12)
    ck.doc('C19.R4', 'scope configurator: first match wins; stored closures own their captures; Build leaves the builder intact', 4)
    ck.doc('C19.R5', 'GetTracer/GetMeter/GetLogger: locked lookup-then-create on the stored identity', 6)
    ck.doc('C19.R8', 'ValidateInstrument is the conjunction of ValidateName(name) and ValidateUnit(unit), each applied to its own parameter', 4)
    ck.doc('C19.R6', 'name/unit patterns equal the documented grammar (parsed normal form, exhaustive byte sets); validators, the pattern selector and the exact selector match the whole string', 6)
    ck.doc('C19.R7', 'every named constructor parameter of the providers and their contexts is used (configuration reaches the context)', 6)
    ck.doc('C06.R5', '(shared rule, see C06) registry writes in the per-view callback use a view-dependent key', 2)
    ck.doc('C07.R5', '(shared rule, see C07) the view\'s aggregation config reaches every CreateAggregation call of a storage', 2)
    ck.doc('C08.R6', '(shared rule, see C08) every series key a synchronous storage builds from caller attributes goes through the view\'s attributes processor', 2)
    with ck.canary('C19.R1'):
        rule_r1(ck, prog, only='canary::c19::', observe_others=False)
    with ck.canary('C19.R4'):
        rule_r4(ck, prog, cls='canary::c19::BadConfigurator')
    rule_r1(ck, prog)
    rule_r2(ck, prog)
    rule_r3(ck, prog)
    rule_r4(ck, prog)
    rule_r5(ck, prog)
    rule_r6(ck, prog)
    rule_r8_validate_instrument(ck, prog)
    rule_r7(ck, prog)
    if not rule_r3_descriptor_copy(ck, prog):
        raise AnalysisBroken('no per-view callback of Register*MetricStorage writes a descriptor')
    rule_r3_filter_reaches_storage(ck, prog)
    rule_r3_descriptor_reaches_storage(ck, prog)
    # "differently named scopes are unaffected": the collection visits every meter whatever an earlier one produced (see C06.R7)
    ck.doc('C06.R7', '(shared rule, see C06) collection fan-in: every meter and every storage is visited; iteration callbacks never ask to stop', 3)
    c06.rule_r7(ck, prog)
    c06.rule_r5(ck, prog)
    from . import c07
    c07.rule_r5(ck, prog)
    from . import c08
    c08.rule_r6_processor_reaches_key(ck, prog)
    return {}
