"""C09 - W3C trace-context propagation round-trips and only accepts well-formed headers (structural part)."""
import string

from ..ir import AnalysisBroken, strip_targs, qmatch
from ..graph import Graph
from ..expr import access_path, path_str, reaching_defs, norm_cond, origins, leaves, defs_in_node
from ..linear import linear, relation, fmt, rel_str
from .common import strip_casts, short, comparison
from ..symb import feasible_reach

UNITS = []
DRIVERS = ['propagators.cc']
CANARIES = ['c09_canary.cc']

EXPLANATION = (
    'C09.R1 (constant bounds): in HttpTraceContext::InjectImpl every write into the traceparent buffer has a constant '
    'index / constant-size span that stays inside the 55-byte array, the written ranges partition [0,55) exactly, the '
    'literal bytes are "00-", "-", "-", and the view handed to the carrier has the array\'s size. C09.R2 (table/sibling '
    'agreement): the digit table of TraceId/SpanId/TraceFlags::ToLowerBase16 is "0123456789abcdef" in all three and the '
    'reader\'s 256-entry table maps exactly those digits and their upper-case forms to 0..15 and every other byte to -1. '
    'C09.R3 (bounded index): every subscript into a constant-size array in the trace/propagation/common headers is '
    'bounded by a constant, the index type (uint8_t) or a mask/modulo. C09.R4 (guard agreement): the success return of '
    'ExtractContextFromTraceHeaders is behind: 4 fields; field sizes 2/32/16/2; all four fields hex; version != 0xFF; '
    '(version > 0 and |header| >= 55) or (version == 0 and |header| == 55); both ids valid; every other return is the '
    'invalid context; the result is remote. C09.R5 (dominance): Inject writes only behind IsValid(); Extract installs only '
    'a valid extracted context and otherwise returns the caller\'s context parameter itself; the flags byte, trace id and '
    'span id handed to the new context are the decoded bytes themselves (no mask, no arithmetic); the id buffers have the '
    'sizes of the ids. C09.R6 (unsigned wrap): in StringUtil::Trim the loop that decrements the right index is entered '
    'only behind the exit of the loop that establishes that str[left] is not a space (or left > right).')
EXPLANATION += ' C09.R5 also requires that after traceparent the tracestate Set can only be skipped on the empty() edge of the header string. C09.R7 (re-entrancy): no function-local static of the parse/validate/inject functions is modified after its initialisation.'
EXPLANATION += ' C09.R8 (bounded regex): every std::regex applied to header bytes either has a finite maximal match length (computed from the pattern by the same normal form as C14.R7) or is reached only behind a size guard - an unbounded quantifier over attacker-sized input recurses without bound in libstdc++.'
ROUND2_EXPLANATION = (' C09.R9: every memcmp / memcpy on the representation of TraceId / SpanId covers the static extent of the array. C09.R10: the fields are split from Trim(carrier.Get(traceparent)) and the trace state is parsed from carrier.Get(tracestate) (dependence through the inlined private helpers). Shared C16.R5: HttpTraceContext is a function of (carrier, given context).')
ROUND2_EXPLANATION += (' C09.R3 also folds value ranges of index expressions through narrow unsigned types, masks, shifts and locals initialised once. C09.R10 follows ?: selections inside the inlined trim helper.')
ROUND2_EXPLANATION += (' C09.R11: the trace id, span id and flags of the extracted context are decoded from fields 1 / 2 / 3 of the traceparent and the context is marked remote (field table, shared implementation with C16.R6).')
EXPLANATION += ROUND2_EXPLANATION
NOT_DECIDED = ('that exactly the W3C-well-formed byte strings are accepted over all inputs; memory safety of HexToBinary\'s '
               'variable-index writes (relational bound buffer_pos < buffer_size).')

HEXCHARS = '0123456789abcdef'


def rule_r1(ck, prog, rule='C09.R1', fname='HttpTraceContext::InjectImpl', want_size=55, want=None, allow_nonliteral=()):
    f = prog.function(fname)
    bufs = [d for n in f.nodes if n['k'] == 'declstmt' for d in n['decls'] if d['t'].startswith('char[')]
    if not bufs:
        raise AnalysisBroken('InjectImpl: traceparent buffer not found')
    buf = bufs[0]
    size = int(buf['t'][5:-1])
    ranges = []
    lits = {}
    bad = []
    # the buffer may be filled by helpers that receive it as an array reference of the same size
    hosts = [(f, buf['id'])]
    for n in f.nodes:
        if n['k'] == 'call' and n.get('ck') in prog.funcs:
            callee = prog.funcs[n['ck']]
            for ai, a in enumerate(n.get('args', [])):
                if a is not None and a >= 0 and strip_casts(f, a).get('id') == buf['id'] and ai < len(callee.params):
                    if callee.params[ai]['t'].replace(' ', '') == 'char(&)[%d]' % size and callee.blocks:
                        hosts.append((callee, callee.params[ai]['id']))
                    elif not strip_targs(n.get('c', '')).endswith('string_view'):
                        bad.append((n, 'the buffer is handed to %s, which is not analysed' % strip_targs(n.get('c', ''))))
    f0 = f
    for (f, bid) in hosts:
      # pointer aliases into the buffer: `char *const p = &buf[K];` (never re-pointed) - p[j] is buf[K + j]
      alias = {}
      for m in f.nodes:
          if m['k'] == 'declstmt':
              for d in m['decls']:
                  if d.get('init') is not None and d['init'] >= 0 and d['t'].replace('const', '').replace(' ', '') == 'char*':
                      a_ = strip_casts(f, d['init'])
                      if a_['k'] == 'unop' and a_['op'] == '&':
                          sb = strip_casts(f, a_['e'])
                          if sb['k'] == 'subscript' and strip_casts(f, sb['base']).get('id') == bid and f.nodes[sb['index']].get('v') is not None:
                              rewritten = [x for x in f.nodes for (v_, s_, vx_) in defs_in_node(f, x) if v_ == d['id'] and x['k'] != 'declstmt' and s_]
                              if not rewritten:
                                  alias[d['id']] = (f.nodes[sb['index']]['v'], sb['i'])
      alias_anchor = {v[1] for v in alias.values()}
      for n in f.nodes:
        base_id = strip_casts(f, n['base']).get('id') if n['k'] == 'subscript' else None
        if n['k'] == 'subscript' and (base_id == bid or base_id in alias):
            if n['i'] in alias_anchor:
                continue      # the `&buf[K]` that initialises an alias: not an access
            iv = f.nodes[n['index']].get('v')
            if iv is not None and base_id in alias:
                iv += alias[base_id][0]
            if iv is None:
                bad.append((n, 'index is not a compile-time constant'))
                continue
            if not (0 <= iv < size):
                bad.append((n, 'index %d outside [0,%d)' % (iv, size)))
            pm = f.parent_map()
            par = f.nodes[pm[n['i']]] if n['i'] in pm else None
            if par is not None and par['k'] == 'binop' and par['op'] == '=' and par['lhs'] == n['i']:
                if not any(r_[0] == iv and r_[1] == iv + 1 for r_ in ranges):     # (the same byte written in two exclusive branches counts once)
                    ranges.append((iv, iv + 1, n))
                v_new = f.nodes[par['rhs']].get('v')
                lits[iv] = v_new if (iv not in lits or lits[iv] == v_new) else None
            elif par is not None and par['k'] == 'unop' and par['op'] == '&':
                # &buf[k] handed to a span<char,N>
                gp = f.nodes[pm[par['i']]] if par['i'] in pm else None
                if gp is not None and gp['k'] == 'construct' and 'span<char, ' in (gp.get('t') or ''):
                    N = int(gp['t'].split('span<char, ')[1].rstrip('>'))
                    cnt = f.nodes[gp['args'][1]].get('v') if len(gp.get('args', [])) > 1 else None
                    if cnt is not None and cnt != N:
                        bad.append((gp, 'span extent %d differs from its count argument %d' % (N, cnt)))
                    if iv + N > size:
                        bad.append((gp, 'span [%d,%d) runs past the %d-byte buffer' % (iv, iv + N, size)))
                    ranges.append((iv, iv + N, gp))
                else:
                    bad.append((n, 'address of a buffer element escapes in an unrecognised way'))
    f = f0
    ranges.sort(key=lambda r: r[0])
    pos = 0
    part_ok = True
    for (a, b, n) in ranges:
        if a != pos:
            part_ok = False
            bad.append((n, 'written ranges leave a gap or overlap at offset %d (next write starts at %d)' % (pos, a)))
            break
        pos = b
    if part_ok and pos != size:
        bad.append((None, 'written ranges cover [0,%d), the buffer has %d bytes: uninitialised bytes are sent' % (pos, size)))
    if bad:
        ck.violation(rule, f, 'buffer-partition', bad[0][0], 'header buffer: ' + bad[0][1])
    else:
        ck.holds(rule, f, 'buffer-partition', None, '%d writes partition [0,%d) exactly' % (len(ranges), size))
    if want is None:
        want = {0: ord('0'), 1: ord('0'), 2: ord('-'), 35: ord('-'), 52: ord('-')}
    ok = size == want_size and all(lits.get(k) == v for k, v in want.items()) and set(lits) - set(allow_nonliteral) == set(want)
    ck.verdict(ok, rule, f, 'literal-bytes', None, 'separators/literals at %s' % sorted(want) if ok else
               'the literal bytes of the header are not %s (found %s, buffer %d bytes)' % ({k: chr(v) for k, v in sorted(want.items())}, {k: chr(v) if v else v for k, v in sorted(lits.items())}, size))
    sv = [n for n in f.nodes if n['k'] == 'construct' and strip_targs(n.get('c', '')).endswith('string_view::string_view') and
          len(n.get('args', [])) == 2 and strip_casts(f, n['args'][0]).get('id') == buf['id']]
    ok = bool(sv) and f.nodes[sv[0]['args'][1]].get('v') == size
    ck.verdict(ok, rule, f, 'view-has-buffer-size', sv[0] if sv else None, 'carrier receives all %d bytes' % size if ok else 'the view handed to the carrier does not have the size of the buffer')


def _digit_literal(f):
    for n in f.nodes:
        if n['k'] == 'declstmt':
            for d in n['decls']:
                if d['t'].startswith('const char[') and 'init' in d and f.nodes[d['init']]['k'] == 'str':
                    return f.nodes[d['init']].get('s'), d
    return None, None


def rule_r2(ck, prog, rule='C09.R2'):
    n = 0
    for cls in ('trace::TraceId', 'trace::SpanId', 'trace::TraceFlags'):
        f = prog.function(cls + '::ToLowerBase16')
        s, d = _digit_literal(f)
        n += 1
        ok = s == HEXCHARS
        ck.verdict(ok, rule, f, 'writer-digits', None, 'digit table "%s"' % s if ok else
                   '%s::ToLowerBase16 uses the digit table %r, not "0123456789abcdef": the injected header is not lower-case hex' % (cls.rsplit('::', 1)[-1], s))
    tab = [g for q, g in prog.globals.items() if q.endswith('propagation::detail::kHexDigits')]
    if not tab or 'arr' not in tab[0]:
        raise AnalysisBroken('reader digit table kHexDigits not found / not constant')
    arr = tab[0]['arr']

    class _G:
        qn = tab[0]['qn']
        def loc(self, n=None):
            return '%s:%d' % (tab[0]['file'].replace('/repo/', ''), tab[0]['line'])
    wrong = []
    if len(arr) != 256:
        wrong.append('table has %d entries' % len(arr))
    for b in range(min(256, len(arr))):
        c = chr(b)
        exp = int(c, 16) if c in string.hexdigits else -1
        if arr[b] != exp:
            wrong.append('entry %d (%r) is %d, expected %d' % (b, c, arr[b], exp))
    ck.verdict(not wrong, rule, _G(), 'reader-table', None, 'all 256 entries agree with the hex alphabet' if not wrong else
               'the hex decode table is wrong: ' + '; '.join(wrong[:3]))
    return n


def rule_r3(ck, prog, rule='C09.R3', path_filters=('/api/include/opentelemetry/trace/', '/api/include/opentelemetry/common/string_util.h',
                                                   '/api/include/opentelemetry/baggage/', '/api/include/opentelemetry/common/kv_properties.h'),
            only=None):
    cnt = 0
    for f in sorted(prog.funcs.values(), key=lambda x: (x.file, x.line)):
        if only is not None:
            if not strip_targs(f.qn).startswith(only):
                continue
        elif not any(p in f.file for p in path_filters):
            continue
        for n in f.nodes:
            if n['k'] != 'subscript' or 'extent' not in n:
                continue
            cnt += 1
            ext = n['extent']
            idx = f.nodes[n['index']]
            site = 'index@%s' % (strip_casts(f, n['base']).get('name') or 'array')
            ok = False
            why = ''
            if 'v' in idx:
                ok = 0 <= idx['v'] < ext
                why = 'constant %d' % idx['v']
            else:
                x = strip_casts(f, n['index'])
                it = n.get('it') or ''
                if it in ('unsigned char', 'uint8_t') and ext >= 256:
                    ok, why = True, 'index of type unsigned char, table of %d' % ext
                elif x['k'] == 'binop' and x['op'] == '&' and ('v' in f.nodes[x['rhs']] or 'v' in f.nodes[x['lhs']]):
                    m = f.nodes[x['rhs']].get('v', f.nodes[x['lhs']].get('v'))
                    ok, why = 0 <= m < ext, 'masked with %d' % m
                elif x['k'] == 'binop' and x['op'] == '%' and 'v' in f.nodes[x['rhs']]:
                    ok, why = f.nodes[x['rhs']]['v'] <= ext, 'modulo %d' % f.nodes[x['rhs']]['v']
                elif x['k'] == 'ref' and x.get('sk') == 'local' and _loop_bounded(f, n, x, ext):
                    ok, why = True, 'loop counter bounded by the loop condition'
                elif it in ('char', 'signed char', 'int8_t'):
                    ok, why = False, 'index of signed type %s: bytes >= 0x80 index before the table' % it
                else:
                    # a converted signed char
                    src = f.nodes[n['index']]
                    inner = src
                    hops = 0
                    while inner['k'] == 'cast' and hops < 4:
                        inner = f.nodes[inner['e']]
                        hops += 1
                    if inner.get('t') in ('char', 'signed char') and (src.get('t') or '') not in ('unsigned char',):
                        ok, why = False, 'a plain char converted to %s keeps its sign: bytes >= 0x80 index out of the table' % src.get('t')
                    elif _ubound(f, n['index']) is not None:
                        ub = _ubound(f, n['index'])
                        ok, why = ub < ext, 'value range 0..%d (types, masks, shifts and once-initialised locals folded)' % ub
                    else:
                        why = 'index %s of type %s is not bounded by a constant, its type or a mask' % (x['k'], it)
                        ck.inconclusive(rule, f, site, n, why) if only is None else ck.violation(rule, f, site, n, why)
                        continue
            if ok:
                ck.holds(rule, f, site, n, '%s < extent %d' % (why, ext))
            else:
                ck.violation(rule, f, site, n, 'subscript into an array of %d elements: %s' % (ext, why))
    return cnt


_UMAX = {'unsigned char': 255, 'uint8_t': 255, 'const uint8_t': 255, 'const unsigned char': 255, 'unsigned short': 65535, 'uint16_t': 65535,
         'const uint16_t': 65535, 'const unsigned short': 65535, 'bool': 1}


def _ubound(f, i, depth=0):
    """an upper bound of an index expression that is provably non-negative (unsigned narrow type, mask, shift of a bounded value,
    remainder by a constant, a local initialised once with such a value); None when no bound follows from the shape"""
    if i is None or i < 0 or depth > 8:
        return None
    n = f.nodes[i]
    if 'v' in n:
        return n['v'] if isinstance(n['v'], int) and n['v'] >= 0 else None
    k = n['k']
    tmax = _UMAX.get((n.get('t') or '').replace('std::', ''))
    if k == 'cast':
        inner = _ubound(f, n['e'], depth + 1)
        if tmax is not None:
            # conversion to a narrow unsigned type: the value is reduced modulo 2^N, so the type bounds it whatever the operand was
            return tmax if inner is None else min(tmax, inner)
        return inner
    if k == 'binop':
        a, b = _ubound(f, n['lhs'], depth + 1), _ubound(f, n['rhs'], depth + 1)
        op = n['op']
        if op == '&':
            c = [x for x in (a, b) if x is not None]
            return min(c) if c else None
        if op == '>>' and a is not None and 'v' in f.nodes[n['rhs']] and 0 <= f.nodes[n['rhs']]['v'] < 64:
            return a >> f.nodes[n['rhs']]['v']
        if op == '%' and a is not None and b is not None and 'v' in f.nodes[n['rhs']] and b > 0:
            return min(a, b - 1)
        if op == '/' and a is not None and 'v' in f.nodes[n['rhs']] and (b or 0) > 0:
            return a // b
        return None
    if k == 'ref' and n.get('sk') == 'local':
        from .common import once_init
        decls = [d for m in f.nodes if m['k'] == 'declstmt' for d in m['decls'] if d['id'] == n['id']]
        inits = [d['init'] for d in decls if d.get('init') is not None and d['init'] >= 0]
        if len(inits) == 1 and once_init(f, i) is not n:
            inner = _ubound(f, inits[0], depth + 1)
            if inner is not None:
                return inner if tmax is None else min(inner, tmax)
        return tmax
    if k in ('ref', 'member', 'subscript', 'call'):
        return tmax
    return None


def _loop_bounded(f, sub, ref, ext):
    """the subscript sits in `for (T i = c0; i < C; ++i)` with 0 <= c0, C <= ext and no other write to i"""
    pm = f.parent_map()
    x = sub['i']
    while x in pm:
        x = pm[x]
        lp = f.nodes[x]
        if lp['k'] != 'for':
            continue
        c = comparison(f, lp['cnd']) if lp.get('cnd') is not None else None
        if not c or c[0] != '<' or strip_casts(f, c[1]).get('id') != ref['id']:
            continue
        C = f.nodes[c[2]].get('v', strip_casts(f, c[2]).get('v'))
        if C is None or C > ext:
            continue
        init = f.nodes[lp['init']] if lp.get('init') is not None else None
        if not (init is not None and init['k'] == 'declstmt' and any(d['id'] == ref['id'] and 'init' in d and (f.nodes[d['init']].get('v') or 0) >= 0 and 'v' in f.nodes[d['init']] for d in init['decls'])):
            continue
        inc = f.nodes[lp['inc']] if lp.get('inc') is not None else None
        if not (inc is not None and inc['k'] == 'unop' and inc['op'] == '++' and strip_casts(f, inc['e']).get('id') == ref['id']):
            continue
        writes = [n for n in (f.nodes[i] for i in f.subtree(lp['body'])) for (v, s_, vx) in defs_in_node(f, n) if v == ref['id']]
        if writes:
            continue
        return True
    return False


def rule_r4(ck, prog, rule='C09.R4'):
    f = prog.function('HttpTraceContext::ExtractContextFromTraceHeaders')
    g = Graph(prog, f, inline=None, sync_lambdas=False)
    rd = reaching_defs(g)
    rets = g.returns()
    succ = [r for r in rets if strip_casts(f, r.n['e'])['k'] == 'construct' and strip_targs(strip_casts(f, r.n['e']).get('c', '')).endswith('SpanContext::SpanContext')
            and len(strip_casts(f, r.n['e']).get('args', [])) >= 4]
    inval = [r for r in rets if any(f.nodes[i]['k'] == 'call' and strip_targs(f.nodes[i].get('c', '')).endswith('SpanContext::GetInvalid') for i in f.subtree(r.n['e']))]
    if len(succ) != 1:
        raise AnalysisBroken('ExtractContextFromTraceHeaders: success return not found')
    s = succ[0]
    ok = len(inval) + 1 == len(rets)
    ck.verdict(ok, rule, f, 'every-failure-returns-invalid', None, '%d failure returns, all the invalid context' % len(inval) if ok else 'a return other than the success one does not return the invalid context')
    # which string_view local is which field
    field_of = {}
    for n in f.nodes:
        if n['k'] == 'declstmt':
            for d in n['decls']:
                if 'init' in d:
                    for i in f.subtree(d['init']):
                        m = f.nodes[i]
                        if m['k'] == 'call' and m.get('op') == '[]' and m.get('args') and 'v' in f.nodes[m['args'][0]] and 'array' in strip_targs(m.get('c', '')):
                            field_of[d['id']] = f.nodes[m['args'][0]]['v']
    tp = f.params[0]

    def size_sym(lin):
        """map the symbols of a linear form to roles"""
        out = {}
        for sname, c in lin:
            role = sname
            if sname.endswith('.size()'):
                base = sname[:-7]
                if base.startswith('local:'):
                    vid = int(base.split(':')[1])
                    if vid in field_of:
                        role = '|F%d|' % field_of[vid]
                elif base == 'param:%s' % tp['name']:
                    role = '|header|'
            elif sname.startswith('local:'):
                role = 'V:' + sname.split(':', 2)[2]
            out[role] = c
        return frozenset(out.items())

    def edge_rel(a, lab):
        if not lab or not isinstance(lab[0], int):
            return None
        rel = relation(g, rd, lab[1], lab[0], a.ctx, lab[2])
        if rel is None:
            return None
        return (rel[0], size_sym(rel[1]))

    # region table: the comparisons over the header length, the field lengths and the version byte are evaluated for representative
    # values of those quantities (pinned), named booleans and conditional expressions are folded by the path explorer, every other
    # test stays open; the success return must be reachable exactly in the regions the W3C grammar allows
    cmp_nodes = []
    for n in f.nodes:
        if comparison(f, n['i']):
            rel = relation(g, rd, f, n['i'], g.root_ctx, True)
            if rel is not None:
                cmp_nodes.append((n['i'], rel[0], dict(size_sym(rel[1]))))

    def region_reach(assign):
        pins = {}
        for (ni, op, lin) in cmp_nodes:
            if not all(k == '1' or k in assign for k in lin) or not any(k != '1' for k in lin):
                continue
            v = sum(c * (1 if k == '1' else assign[k]) for k, c in lin.items())
            pins[ni] = (v >= 0) if op == '>=0' else ((v == 0) if op == '==0' else (v != 0))
        return feasible_reach(g, [g.entry], [s], pins=pins) is not None

    def need_regions(desc, site, good, bad, why):
        acc = [a for a in good if not region_reach(a)]
        rej = [a for a in bad if region_reach(a)]
        ok = not acc and not rej
        fmt_a = lambda a: ', '.join('%s=%d' % kv for kv in sorted(a.items()) if kv[0] in why_syms)
        ck.verdict(ok, rule, f, site, s.n, desc if ok else
                   (('the success return is reachable with %s: ' % fmt_a(rej[0]) + why) if rej else
                    'a well-formed header (%s) can no longer reach the success return' % fmt_a(acc[0])))
    # field count: comparison of SplitString(...) with 4
    def count_edge(a, b, lab):
        if not lab or not isinstance(lab[0], int):
            return False
        core, pol = norm_cond(lab[1], lab[0])
        c = comparison(lab[1], core)
        if not c:
            return False
        op, l, r = c
        ln, rn = strip_casts(f, l), strip_casts(f, r)
        if rn['k'] == 'call' and ln['k'] != 'call':
            ln, rn = rn, ln      # `4 != SplitString(...)`: equality tests are symmetric
        if not (ln['k'] == 'call' and strip_targs(ln.get('c', '')).endswith('SplitString') and rn.get('v') == 4 and f.nodes[ln['args'][3]].get('v') == 4):
            return False
        truth = lab[2] if pol else (not lab[2])
        return (op == '!=' and truth is False) or (op == '==' and truth is True)
    ok = g.must_pass_edge(s, count_edge)
    ck.verdict(ok, rule, f, 'guard:field-count', s.n, 'exactly 4 dash-separated fields' if ok else 'the success return is not behind "SplitString(...,4) == 4"')
    vers = [d for n in f.nodes if n['k'] == 'declstmt' for d in n['decls'] if d['t'] in ('unsigned char', 'uint8_t') and 'init' not in d]
    vname = vers[0]['name'] if vers else 'version_binary'
    base = {'|header|': 55, '|F0|': 2, '|F1|': 32, '|F2|': 16, '|F3|': 2, 'V:' + vname: 0}
    why_syms = set(base)
    for i, sz in ((0, 2), (1, 32), (2, 16), (3, 2)):
        need_regions('|field %d| == %d' % (i, sz), 'guard:size-field-%d' % i, [base], [dict(base, **{'|F%d|' % i: sz - 1}), dict(base, **{'|F%d|' % i: sz + 1})],
                     'a field of the wrong length is decoded')
    # hex validity of all four
    for i in range(4):
        def hex_edge(a, b, lab, _i=i):
            if not lab or not isinstance(lab[0], int):
                return False
            core, pol = norm_cond(lab[1], lab[0])
            cn = lab[1].nodes[core]
            if cn['k'] == 'call' and strip_targs(cn.get('c', '')).endswith('IsValidHex'):
                an = strip_casts(f, cn['args'][0])
                if an['k'] == 'ref' and field_of.get(an.get('id')) == _i:
                    return (lab[2] if pol else not lab[2]) is True
            return False
        ok = g.must_pass_edge(s, hex_edge)
        ck.verdict(ok, rule, f, 'guard:hex-field-%d' % i, s.n, 'field %d is hex' % i if ok else 'field %d is not checked to be hexadecimal before it is decoded' % i)
    # version byte and the length rule
    V = 'V:' + vname
    need_regions('version != 0xFF', 'guard:version-not-ff', [dict(base, **{V: 254, '|header|': 55})], [dict(base, **{V: 255}), dict(base, **{V: 255, '|header|': 60})],
                 'version ff is accepted')
    need_regions('(version > 0 and |header| >= 55) or (version == 0 and |header| == 55)', 'guard:length-by-version',
                 [base, dict(base, **{V: 1}), dict(base, **{V: 1, '|header|': 56}), dict(base, **{V: 254, '|header|': 70})],
                 [dict(base, **{'|header|': 54}), dict(base, **{'|header|': 56}), dict(base, **{V: 1, '|header|': 54})],
                 'the length rule is not "version 00: exactly 55 characters; higher versions: at least 55": over-long version-00 headers (or short future ones) are accepted')
    # ids valid
    for nm in ('TraceId', 'SpanId'):
        def valid_edge(a, b, lab, _nm=nm):
            if not lab or not isinstance(lab[0], int):
                return False
            core, pol = norm_cond(lab[1], lab[0])
            cn = lab[1].nodes[core]
            if cn['k'] == 'call' and strip_targs(cn.get('c', '')).endswith(_nm + '::IsValid'):
                return (lab[2] if pol else not lab[2]) is True
            return False
        ok = g.must_pass_edge(s, valid_edge)
        ck.verdict(ok, rule, f, 'guard:%s-valid' % nm.lower(), s.n, '%s non-zero' % nm if ok else 'an all-zero %s is accepted' % nm)
    c = strip_casts(f, s.n['e'])
    ok = f.nodes[c['args'][3]].get('v') == 1 or strip_casts(f, c['args'][3]).get('v') == 1
    ck.verdict(ok, rule, f, 'result-is-remote', s.n, 'extracted context is remote' if ok else 'the extracted context is not marked remote')


def rule_r5(ck, prog, rule='C09.R5', cls='trace::propagation::HttpTraceContext'):
    f = prog.function(cls + '::Inject')
    g = Graph(prog, f, inline=None, sync_lambdas=False)

    def valid_edge(a, b, lab):
        if not lab or not isinstance(lab[0], int):
            return False
        core, pol = norm_cond(lab[1], lab[0])
        cn = lab[1].nodes[core]
        if cn['k'] == 'call' and strip_targs(cn.get('c', '')).endswith('SpanContext::IsValid'):
            return (lab[2] if pol else not lab[2]) is True
        return False
    sinks = [p for p in g.points if p.n is not None and p.n['k'] == 'call' and
             (strip_targs(p.n.get('c', '')).endswith('InjectImpl') or strip_targs(p.n.get('c', '')).endswith('TextMapCarrier::Set'))]
    ok = bool(sinks) and all(g.must_pass_edge(p, valid_edge) for p in sinks)
    ck.verdict(ok, rule, f, 'inject-only-valid', sinks[0].n if sinks else None, 'headers written only for a valid context' if ok else 'an invalid span context can be injected')
    f = prog.function(cls + '::Extract')
    g = Graph(prog, f, inline=None, sync_lambdas=False)
    setspan = g.calls('trace::SetSpan')
    ok = bool(setspan) and all(g.must_pass_edge(p, valid_edge) for p in setspan)
    ck.verdict(ok, rule, f, 'install-only-valid', setspan[0].n if setspan else None, 'SetSpan only behind IsValid()' if ok else 'an invalid extracted context can be installed')
    ctxp = f.params[1]
    other = [r for r in g.returns() if not any(f.nodes[i]['k'] == 'call' and strip_targs(f.nodes[i].get('c', '')).endswith('trace::SetSpan') for i in f.subtree(r.n['e']))]
    ok = bool(other) and all(strip_casts(f, r.n['e']).get('id') == ctxp['id'] for r in other)
    ck.verdict(ok, rule, f, 'otherwise-callers-context', other[0].n if other else None, 'otherwise the caller\'s context is returned unchanged' if ok else 'on failure Extract does not return the caller\'s context itself')
    # pass-through of the decoded bytes
    for name, tyname in (('TraceFlagsFromHex', 'TraceFlags'), ('TraceIdFromHex', 'TraceId'), ('SpanIdFromHex', 'SpanId')):
        f = prog.function(cls + '::' + name)
        rets = [n for n in f.nodes if n['k'] == 'return']
        ok = False
        why = 'return shape not recognised'
        if rets:
            c = strip_casts(f, rets[0]['e'])
            if c['k'] == 'construct' and c.get('args'):
                a = f.nodes[c['args'][0]]
                an = strip_casts(f, c['args'][0])
                hops = 0
                while an['k'] == 'construct' and len(an.get('args', [])) == 1 and hops < 3:
                    an = strip_casts(f, an['args'][0])   # span<const uint8_t,N>(buf)
                    hops += 1
                ok = an['k'] == 'ref' and an.get('sk') == 'local' and a['k'] in ('ref', 'construct', 'cast')
                # any arithmetic between the local and the constructor?
                arith = [f.nodes[i] for i in f.subtree(c['args'][0]) if f.nodes[i]['k'] in ('binop', 'unop', 'cond')]
                if arith:
                    ok = False
                    why = 'the decoded %s is modified (%s) before it is handed on' % (tyname, arith[0].get('op'))
        hb = [n for n in f.nodes if n['k'] == 'call' and strip_targs(n.get('c', '')).endswith('HexToBinary')]
        if ok and hb:
            sz = f.nodes[hb[0]['args'][2]].get('v')
            want = {'TraceFlags': 1, 'TraceId': 16, 'SpanId': 8}[tyname]
            if sz != want:
                ok = False
                why = 'decodes into %s bytes, a %s has %d' % (sz, tyname, want)
        ck.verdict(ok, rule, f, 'decoded-bytes-pass-through', rets[0] if rets else None,
                   'the decoded bytes are handed to %s unmodified' % tyname if ok else '%s: %s: the extracted value differs from what the header encodes' % (name, why))


def rule_r5_tracestate(ck, prog, rule='C09.R5', cls='trace::propagation::HttpTraceContext'):
    """the tracestate header is written whenever the state's header form is non-empty: the only way around the Set call is the
    emptiness test of that string"""
    f = prog.function(cls + '::InjectImpl')
    g = Graph(prog, f, inline=None, sync_lambdas=False)
    sets = [p for p in g.points if p.n is not None and p.n['k'] == 'call' and strip_targs(p.n.get('c', '')).endswith('TextMapCarrier::Set')]

    def keyname(p):
        return {f.nodes[j].get('name') for j in f.subtree(p.n['args'][0]) if f.nodes[j]['k'] == 'ref'}
    ts = [p for p in sets if 'kTraceState' in keyname(p)]
    tp = [p for p in sets if 'kTraceParent' in keyname(p)]
    if not tp:
        raise AnalysisBroken('InjectImpl: write of the traceparent header not found')
    if not ts:
        ck.violation(rule, f, 'tracestate-written-when-non-empty', tp[0].n, 'InjectImpl never writes the tracestate header')
        return
    hids = [f.nodes[j]['id'] for j in f.subtree(ts[0].n['args'][1]) if f.nodes[j]['k'] == 'ref' and f.nodes[j].get('sk') == 'local']
    if len(hids) != 1:
        raise AnalysisBroken('InjectImpl: the tracestate header value is not a single local')
    hid = hids[0]

    def empty_edge(a, b, lab):
        if not lab or not isinstance(lab[0], int):
            return False
        core, pol = norm_cond(lab[1], lab[0])
        cn = lab[1].nodes[core]
        truth = lab[2] if pol else (not lab[2])
        if cn['k'] == 'call' and strip_targs(cn.get('c', '')).rsplit('::', 1)[-1] == 'empty' and cn.get('obj') is not None and \
                strip_casts(lab[1], cn['obj']).get('id') == hid:
            return truth is True
        c = comparison(lab[1], core)
        if c:
            op, l, r = c
            ln, rn = strip_casts(lab[1], l), strip_casts(lab[1], r)
            if ln['k'] == 'call' and strip_targs(ln.get('c', '')).rsplit('::', 1)[-1] in ('size', 'length') and ln.get('obj') is not None and \
                    strip_casts(lab[1], ln['obj']).get('id') == hid and rn.get('v') == 0:
                return (op == '==' and truth is True) or (op in ('!=', '>') and truth is False)
        return False
    r = g.reachable_from([q for (q, _l) in tp[0].succ], avoid=ts, avoid_edges=empty_edge)
    ok = g.exit.id not in r
    ck.verdict(ok, rule, f, 'tracestate-written-when-non-empty', ts[0].n, 'after traceparent, the tracestate Set is skipped only on the empty() edge of the header string' if ok else
               'a non-empty tracestate can be left out of the injected headers (a condition other than emptiness guards the Set): the receiver extracts an empty trace state, the round trip loses it',
               path=None if ok else g.describe_path(g.path(tp[0], g.exit, avoid=ts, avoid_edges=empty_edge) or []))


def rule_r7(ck, prog, rule='C09.R7', prefixes=('opentelemetry::trace::', 'opentelemetry::common::', 'opentelemetry::context::', 'opentelemetry::baggage::')):
    """re-entrancy: the parse / validate / inject functions keep no mutable function-local static: a static that is written after
    its initialisation is shared by all threads (one thread's key validated against another thread's buffer)"""
    cnt = 0
    bad = 0
    for f in sorted(prog.funcs.values(), key=lambda x: x.key):
        if not any(f.qn.startswith(p) for p in prefixes):
            continue
        statics = {}
        for n in f.nodes:
            if n['k'] == 'declstmt':
                for d in n['decls']:
                    if d.get('static') and not d.get('tls'):
                        statics[d['id']] = (d, n)
        if not statics:
            continue
        for vid, (d, dn) in sorted(statics.items()):
            cnt += 1
            writes = []
            for n in f.nodes:
                if n is dn:
                    continue
                for (v, strong, vx) in defs_in_node(f, n):
                    if v == vid:
                        writes.append(n)
            const = d['t'].startswith('const ')
            init_lv = leaves(f, d['init']) if d.get('init') is not None and d['init'] >= 0 else set()
            per_call = sorted(str(l[1]) for l in init_lv if l[0] in ('param', 'field'))
            if per_call:
                bad += 1
                ck.violation(rule, f, 'static-local-not-mutated:%s' % d['name'], dn,
                             'the function-local static %s is initialised from per-call data (%s): it keeps the value of the first call for the life of the process, every later call (and every other thread) sees that stale value' % (d['name'], ', '.join(per_call[:3])))
            elif writes and not const:
                bad += 1
                ck.violation(rule, f, 'static-local-not-mutated:%s' % d['name'], writes[0],
                             'the function-local static %s (%s) is modified on every call: it is shared by all threads, so concurrent calls validate / parse one another\'s data' % (d['name'], d['t'][:40]))
            else:
                ck.holds(rule, f, 'static-local-not-mutated:%s' % d['name'], dn, 'static %s is only read after its initialisation' % d['name'])
    return cnt


def rule_r8(ck, prog, rule='C09.R8'):
    """std::regex_match on header bytes recurses once per matched character in libstdc++: every pattern applied to a header field has
    a finite maximal match length (all repeats bounded), or the call is dominated by a size guard on the matched string. An
    unbounded repeat with the length tested after the match overflows the stack on a long, valid-looking value."""
    from ..regexnf import language
    cnt = 0
    for f in sorted(prog.funcs.values(), key=lambda x: x.key):
        if not (f.qn.startswith('opentelemetry::trace::') or f.qn.startswith('opentelemetry::baggage::') or f.qn.startswith('opentelemetry::common::')):
            continue
        rms = [n for n in f.nodes if n['k'] == 'call' and strip_targs(n.get('c', '')) in ('std::regex_match', 'std::regex_search')]
        if not rms:
            continue
        pats = [n['s'] for n in f.nodes if n['k'] == 'str']
        unbounded = []
        for pt in pats:
            lang = language(pt)
            if lang is None:
                unbounded.append((pt, 'outside the supported fragment'))
            elif any(hi is None for seq in lang for (_c, _lo, hi) in seq):
                unbounded.append((pt, 'has an unbounded repeat'))
        g = Graph(prog, f, inline=None, sync_lambdas=False)
        rd = reaching_defs(g)

        def size_guard(a, b, lab):
            if not lab or not isinstance(lab[0], int):
                return False
            rel = relation(g, rd, lab[1], lab[0], a.ctx, lab[2])
            if rel and rel[0] == '>=0':
                d = dict(rel[1])
                syms = [k for k in d if k != '1']
                return len(syms) == 1 and syms[0].endswith('.size()') and d[syms[0]] == -1 and d.get('1', 0) > 0
            return False
        for n in rms:
            cnt += 1
            p = g.point_of.get((id(g.root_ctx), n['i']))
            guarded = p is not None and g.must_pass_edge(p, size_guard)
            ok = not unbounded or guarded
            ck.verdict(ok, rule, f, 'regex-match-length-bounded', n,
                       'all repeats of the pattern(s) are bounded' if not unbounded else ('the match is behind a size guard' if guarded else '') if ok else
                       'pattern %r %s and regex_match is not dominated by a size guard: libstdc++ recurses once per matched character, a long header value overflows the stack (crash on arbitrary header bytes)' % (unbounded[0][0][:40], unbounded[0][1]))
    return cnt


def rule_r6(ck, prog, rule='C09.R6'):
    fs = [f for f in prog.functions('StringUtil::Trim') if len(f.params) == 3]
    if not fs:
        raise AnalysisBroken('StringUtil::Trim(str,left,right) vanished')
    f = fs[0]
    g = Graph(prog, f, inline=None, sync_lambdas=False)
    decs = [p for p in g.points if p.n is not None and p.n['k'] == 'unop' and p.n['op'] == '--' and 'unsigned' in (f.nodes[p.n['e']].get('t') or 'unsigned long')]
    if not decs:
        ck.holds(rule, f, 'unsigned-decrement-guarded', None, 'no decrement of an unsigned index')
        return
    left = f.params[1]

    def established(a, b, lab):
        """exit edge of the loop that skips leading spaces: isspace(str[left]) false, or left <= right false"""
        if not lab or not isinstance(lab[0], int):
            return False
        core, pol = norm_cond(lab[1], lab[0])
        cn = lab[1].nodes[core]
        truth = lab[2] if pol else (not lab[2])
        # any predicate over str[left] (isspace(str[left]), str[left] <= ' ', ...): its false outcome ends the left loop
        reads_left = False
        for i in f.subtree(core):
            m = f.nodes[i]
            if (m['k'] == 'call' and m.get('op') == '[]' and m.get('args') and strip_casts(f, m['args'][0]).get('id') == left['id']) or \
               (m['k'] == 'subscript' and strip_casts(f, m['index']).get('id') == left['id']):
                reads_left = True
        if reads_left and not comparison(lab[1], core) or (reads_left and comparison(lab[1], core) and
                                                           {strip_casts(f, comparison(lab[1], core)[1]).get('id'), strip_casts(f, comparison(lab[1], core)[2]).get('id')} != {f.params[1]['id'], f.params[2]['id']}):
            return truth is False
        c = comparison(lab[1], core)
        if c:
            ln, rn = strip_casts(f, c[1]), strip_casts(f, c[2])
            if {ln.get('id'), rn.get('id')} == {f.params[1]['id'], f.params[2]['id']}:
                op = c[0]
                if ln.get('id') == f.params[2]['id']:
                    op = {'<': '>', '>': '<', '<=': '>=', '>=': '<='}.get(op, op)
                # left op right
                return (op == '<=' and truth is False) or (op == '>' and truth is True)
        return False
    bad = [d for d in decs if not g.must_pass_edge(d, established)]
    ck.verdict(not bad, rule, f, 'unsigned-decrement-guarded', (bad or decs)[0].n,
               'the right index is decremented only after str[left] is known not to be a space (or left > right)' if not bad else
               'the unsigned right index can be decremented before the left edge is known to stop it: for an all-whitespace input it wraps below zero and str[right] reads out of bounds')


def rule_r9_id_blocks(ck, prog, rule='C09.R9', classes=('trace::TraceId', 'trace::SpanId')):
    """every block operation on the representation of a trace / span id (memcmp, memcpy, memset, memmove) covers the whole array:
    the length argument folds to the static extent of rep_ - a validity or equality test over a part of the id treats ids that
    differ (or are non-zero) only in the remaining bytes as equal (or invalid)"""
    import re as _re
    from ..inteval import ieval
    from ..expr import reaching_defs as _rd
    cnt = 0
    for cls in classes:
        rec = prog.record(cls)
        ext = None
        for fd in rec['fields']:
            m = _re.search(r'\[(\d+)\]$', fd['t'])
            if m:
                ext = (fd['name'], int(m.group(1)))
        if ext is None:
            raise AnalysisBroken('%s: representation array not found' % cls)
        for f in sorted([x for x in prog.funcs.values() if x.cls == rec['qn'] and x.blocks], key=lambda x: x.key):
            g = None
            for n in f.nodes:
                if n['k'] != 'call' or strip_targs(n.get('c', '') or '').rsplit('::', 1)[-1] not in ('memcmp', 'memcpy', 'memset', 'memmove') or len(n.get('args', [])) != 3:
                    continue
                touches = any(f.nodes[i]['k'] == 'member' and f.nodes[i].get('name') == ext[0] for a in n['args'][:2] if a is not None and a >= 0 for i in list(f.subtree(a)) + [a])
                if not touches:
                    continue
                if g is None:
                    g = Graph(prog, f, inline=None, sync_lambdas=False)
                    rdx = _rd(g)
                v = ieval(g, rdx, f, n['args'][2], g.root_ctx, {})
                cnt += 1
                site = 'whole-id:%s::%s:%s' % (cls.rsplit('::', 1)[-1], f.name if f.kind != 'ctor' else 'ctor', strip_targs(n['c']).rsplit('::', 1)[-1])
                if v is None:
                    ck.inconclusive(rule, f, site, n, 'length argument does not fold')
                else:
                    ck.verdict(v == ext[1], rule, f, site, n, 'covers all %d bytes' % ext[1] if v == ext[1] else
                               '%s of %s::%s covers %s of the %d bytes of the id: ids that differ from the other operand only in the remaining bytes are treated as equal to it (an id with %d leading zero bytes is "invalid")' %
                               (strip_targs(n['c']).rsplit('::', 1)[-1], cls.rsplit('::', 1)[-1], f.name, v, ext[1], v if isinstance(v, int) else 0))
    return cnt


def rule_r10_header_sources(ck, prog, rule='C09.R10', cls='trace::propagation::HttpTraceContext'):
    """which header feeds what (dependence through the private helpers of the propagator, which are inlined): the text that is split
    into the four traceparent fields is the carrier's traceparent value after StringUtil::Trim (surrounding whitespace is legal),
    and the trace state of the extracted context is parsed from the carrier's tracestate value - not from the other header"""
    from .common import same_class_inline
    f = prog.function(cls + '::ExtractImpl')
    g = Graph(prog, f, inline=same_class_inline(prog, f.cls or ''), sync_lambdas=False, max_depth=2)
    rd = reaching_defs(g)

    def header_of(sf, sn):
        # 'traceparent' / 'tracestate' when sn is carrier.Get(k...) of that header
        if sn['k'] == 'call' and strip_targs(sn.get('c', '')).endswith('TextMapCarrier::Get') and sn.get('args'):
            names = {sf.nodes[i].get('name') for i in list(sf.subtree(sn['args'][0])) + [sn['args'][0]] if sf.nodes[i]['k'] == 'ref'}
            if 'kTraceParent' in names:
                return 'traceparent'
            if 'kTraceState' in names:
                return 'tracestate'
        return None

    def sources(sf0, sc0, idx, under_trim=False, depth=0):
        """set of (header, whether a StringUtil::Trim lies on the derivation) the expression derives from"""
        out = set()
        for (sf, sn, sc) in origins(g, rd, sf0, idx, sc0):
            h = header_of(sf, sn)
            if h:
                out.add((h, under_trim))
                continue
            if depth >= 6:
                continue
            if sn['k'] == 'cond':
                # a ?: that selects between two derivations of the text (inside an inlined helper or at the read itself)
                for br in (sn.get('a'), sn.get('b')):
                    if br is not None and br >= 0:
                        out |= sources(sf, sc, br, under_trim, depth + 1)
            elif sn['k'] in ('call', 'construct'):
                if sn['k'] == 'call' and strip_targs(sn.get('c', '')).endswith('StringUtil::Trim') and sn.get('args'):
                    out |= sources(sf, sc, sn['args'][0], True, depth + 1)
                else:
                    # a conversion / sub-view of a view: follow the object or the first operand
                    nxt = sn['obj'] if sn.get('obj') is not None else (sn['args'][0] if sn.get('args') else None)
                    if nxt is not None and nxt >= 0:
                        out |= sources(sf, sc, nxt, under_trim, depth + 1)
        return out
    splits = [p for p in g.points if p.n is not None and p.n['k'] == 'call' and strip_targs(p.n.get('c', '')).endswith('detail::SplitString') and p.n.get('args')]
    parses = [p for p in g.points if p.n is not None and p.n['k'] == 'call' and strip_targs(p.n.get('c', '')).endswith('TraceState::FromHeader') and p.n.get('args')]
    if not splits or not parses:
        raise AnalysisBroken('C09.R10: SplitString / TraceState::FromHeader not reached from %s::ExtractImpl' % cls)
    src = sources(splits[0].f, splits[0].ctx, splits[0].n['args'][0])
    h = {x for (x, _t) in src}
    # trimmed: every read of the traceparent header in this function is (through once-initialised locals) the operand of a Trim call
    from .common import subtree_through_locals
    gets = [n for n in f.nodes if header_of(f, n) == 'traceparent']
    trims = [n for n in f.nodes if n['k'] == 'call' and strip_targs(n.get('c', '')).endswith('StringUtil::Trim') and n.get('args')]
    t = bool(gets) and all(any(gn['i'] in set(subtree_through_locals(f, tn['args'][0])) | {tn['args'][0]} for tn in trims) for gn in gets)
    if not h:
        ck.inconclusive(rule, f, 'traceparent-fields-from-trimmed-traceparent', splits[0].n, 'the origin of the text that is split into fields was not resolved')
    else:
        ok = h == {'traceparent'} and t
        ck.verdict(ok, rule, f, 'traceparent-fields-from-trimmed-traceparent', splits[0].n,
                   'the fields are split from Trim(carrier.Get(traceparent))' if ok else
                   ('the traceparent is parsed without trimming surrounding whitespace: a well-formed header with leading / trailing blanks is rejected' if h == {'traceparent'} else
                    'the traceparent fields are split from %s' % sorted(h)))
    h = {x for (x, _t) in sources(parses[0].f, parses[0].ctx, parses[0].n['args'][0])}
    if not h:
        ck.inconclusive(rule, f, 'trace-state-from-tracestate-header', parses[0].n, 'the origin of the parsed trace state text was not resolved')
    else:
        ok = h == {'tracestate'}
        ck.verdict(ok, rule, f, 'trace-state-from-tracestate-header', parses[0].n,
                   'the trace state is parsed from carrier.Get(tracestate)' if ok else
                   'the trace state of the extracted context is parsed from %s instead of the tracestate header: the vendor list is lost (or garbage is parsed)' % sorted(h))


W3C_FIELD_TABLE = {
    # traceparent = version "-" trace-id "-" parent-id "-" trace-flags
    'trace::propagation::HttpTraceContext::ExtractContextFromTraceHeaders': ({('field', 1)}, {('field', 2)}, {('field', 3)}),
}


def rule_r11_field_table(ck, prog, rule='C09.R11'):
    """the ids and flags of the extracted context are decoded from the documented fields of the traceparent (shared implementation
    with C16.R6: dependence through locals, decode helpers and their output buffers)"""
    from . import c16
    c16.rule_r6_extracted_context(ck, prog, rule=rule, table=W3C_FIELD_TABLE)


def run(ck, prog):
    ck.doc('C09.R11', 'trace id / span id / flags of the extracted context come from fields 1 / 2 / 3 of the traceparent; the context is remote', 4)
    ck.doc('C09.R1', 'InjectImpl: constant-bounded writes partition the 55-byte buffer; literal bytes; view size', 3)
    ck.doc('C09.R2', 'writer digit tables are lower-case hex in all three siblings; reader table exact over 256 entries', 4)
    ck.doc('C09.R3', 'every subscript into a constant-size array is bounded by constant, type or mask', 12)
    ck.doc('C09.R4', 'extraction guards equal the W3C constants and dominate the success return', 15)
    ck.doc('C09.R5', 'inject/install only valid contexts; failure returns the caller\'s context; decoded bytes pass through; tracestate written when non-empty', 7)
    ck.doc('C09.R6', 'Trim: the unsigned right index cannot wrap', 1)
    ck.doc('C09.R8', 'every regex applied to header bytes has a bounded match length or a size guard in front (no unbounded recursion)', 0)
    ck.doc('C09.R7', 're-entrancy: no function-local static of the parse/validate/inject functions is modified after initialisation', 1)
    with ck.canary('C09.R3'):
        rule_r3(ck, prog, only='canary::c09::')
    rule_r1(ck, prog)
    rule_r11_field_table(ck, prog)
    rule_r2(ck, prog)
    rule_r3(ck, prog)
    rule_r4(ck, prog)
    rule_r5(ck, prog)
    rule_r5_tracestate(ck, prog)
    rule_r6(ck, prog)
    if not rule_r8(ck, prog):
        ck.note('C09.R8 not applicable in this configuration: no regex validators compiled')
    with ck.canary('C09.R7'):
        rule_r7(ck, prog, prefixes=('canary::c09::',))
    n7 = rule_r7(ck, prog)
    if not n7:
        ck.holds('C09.R7', prog.function('trace::propagation::HttpTraceContext::Extract'), 'no-static-locals', None, 'no function-local statics in the analysed API functions')
    ck.doc('C09.R10', 'header sources: fields split from the trimmed traceparent value; trace state parsed from the tracestate value', 2)
    rule_r10_header_sources(ck, prog)
    ck.doc('C09.R9', 'every memcmp/memcpy on the representation of a trace / span id covers the whole array (validity, equality, copies)', 2)
    rule_r9_id_blocks(ck, prog)
    from . import c16
    ck.doc('C16.R5', '(shared rule, see C16) HttpTraceContext is a function of (carrier, given context): no thread state, Extract only installs into / returns its context parameter', 4)
    c16.rule_r5_purity(ck, prog, classes=('trace::propagation::HttpTraceContext',))
    return {}
