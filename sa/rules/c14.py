"""C14 - TraceState stays a valid, duplicate-free W3C list under every update (structural part)."""
from ..ir import AnalysisBroken, strip_targs, qmatch
from ..graph import Graph
from ..expr import access_path, path_str, reaching_defs, norm_cond, origins, leaves, defs_in_node
from ..linear import linear, relation, fmt, rel_str
from ..symb import eval3
from ..charclass import byteset, describe, CTYPE
from .common import strip_casts, short, comparison, member_funcs, gated_by, after_result, same_class_inline, deparam, once_init, subtree_through_locals
from ..symb import feasible_reach

UNITS = []
DRIVERS = ['propagators.cc']
CANARIES = ['c14_canary.cc']

EXPLANATION = (
    'C14.R1 (who-may-write): no non-constructor member of TraceState writes, resets or mutates anything rooted in this (Set and '
    'Delete are non-const members, so const-correctness proves nothing). C14.R2 (dominance): the validity gates dominate every '
    'construction in Set/Delete and the invalid outcome returns the default state; FromHeader returns the default for more than '
    '32 tokens or an invalid pair and resets to an empty state on an invalid key/value. C14.R3 (no second member with the same '
    'key): in Set and Delete the AddEntry of the copy callback is behind a comparison of the entry key with the method\'s key; '
    'the decision to insert the new pair is true whenever the key already exists (three-valued evaluation with the lookup pinned '
    'to true), so an update is never refused; the allocation grows exactly when a new key is added. C14.R4 (guards): a new key '
    'is added only while size < 32; KeyValueProperties::AddEntry writes only behind num < max at index num. C14.R5 (whole-key '
    'lookup): KeyValueProperties::GetValue matches with string_view equality, not a prefix/length-limited comparison. C14.R6 '
    '(character class): the trimming predicate of StringUtil::Trim is exactly the whitespace class on both edges (byte sets '
    'computed over all 256 bytes), so invalid bytes stay visible to the validators.')
EXPLANATION += ' C14.R3 also checks that Delete allocates one member less only behind the key-present edge. C14.R7: the regular expressions of the configured validators, parsed into a normal form over exhaustive byte sets, denote exactly the W3C key / value grammar, and the validator returns true exactly when one of them matches the whole string. The shared rule C09.R7 (no mutable function-local static) is evaluated.'
EXPLANATION += " C14.R2's gates are decided by pinning: with every call of the validator pinned to false no construction / insertion is reachable, and after a false result every path to the exit passes the reset / default return (named booleans, conjunctions, De Morgan forms and conditional expressions are folded by the path explorer)."
ROUND2_EXPLANATION = (" C14.R2 also: with the tokenizer's validity flag and both validators pinned to valid, no path leaves an iteration of FromHeader's member loop without AddEntry. C14.R3: captured flags that the copy callback itself modifies are not pinned. C14.R8: Set inserts the new pair before it copies the existing members; Get is true exactly for a valid key the lookup found (4 rows); ToHeader writes the separator exactly when the first-member flag is false and clears the flag (shared with C15).")
ROUND2_EXPLANATION += (" C14.R8 also: the per-member callback of ToHeader (TraceState and, shared, Baggage) appends text derived from each of its two parameters on every path; the separator rule also reads the idiom 'output still empty' for 'first member'.")
EXPLANATION += ROUND2_EXPLANATION
NOT_DECIDED = ('that std::regex implements the parsed normal form; the hand-written validators of the non-regex configuration; '
               'parse/serialise round trip over all strings; Get returning the most recent value over arbitrary histories.')


def rule_r1(ck, prog, cls='trace::TraceState', field='kv_properties_', rule='C14.R1'):
    rec = prog.record(cls)
    cnt = 0
    for f in sorted(member_funcs(prog, rec['qn']), key=lambda x: x.line):
        if f.kind in ('ctor', 'dtor') or f.d.get('static'):
            continue
        cnt += 1
        bad = None
        for n in f.nodes:
            tgt = None
            if n['k'] == 'binop' and n['op'].endswith('=') and n['op'] not in ('==', '!=', '<=', '>='):
                tgt = n['lhs']
            elif n['k'] == 'call' and n.get('obj') is not None and not n.get('cconst') and \
                    strip_targs(n.get('c', '')).rsplit('::', 1)[-1] not in ('operator->', 'operator*', 'get', 'operator bool'):
                tgt = n['obj']
            elif n['k'] == 'unop' and n['op'] in ('++', '--'):
                tgt = n['e']
            if tgt is None:
                continue
            ap = access_path(f, tgt)
            if ap[0] == 'this' and len(ap) >= 2:
                bad = (n, ap)
                break
        host = f
        while host.d.get('lambda') and host.d.get('parent') in prog.funcs:
            host = prog.funcs[host.d['parent']]
        site = 'no-write-to-this:%s%s' % (host.name, ':lambda' if f.d.get('lambda') else '')
        if bad:
            ck.violation(rule, f, site, bad[0], '%s modifies %s of the object it was called on: a state that was handed out changes afterwards' % (short(host), path_str(bad[1])))
        else:
            ck.holds(rule, f, site, None, 'nothing rooted in this is written')
    return cnt


def _valid_edge(name, want, var_id=None):
    """edge on which validator `name` returned `want`; with var_id, only when it was applied to that variable"""
    def pred(a, b, lab):
        if not lab or not isinstance(lab[0], int):
            return False
        core, pol = norm_cond(lab[1], lab[0])
        cn = lab[1].nodes[core]
        if cn['k'] == 'call' and strip_targs(cn.get('c', '')).endswith(name):
            if var_id is not None and not any(lab[1].nodes[j]['k'] == 'ref' and lab[1].nodes[j].get('id') == var_id
                                              for a_ in cn.get('args', []) if a_ is not None and a_ >= 0 for j in lab[1].subtree(a_)):
                return False
            return (lab[2] if pol else not lab[2]) is want
        return False
    return pred


def _validator(name, var_id=None):
    """call predicate: a call of validator `name` (with var_id: applied to that very variable)"""
    def pred(ff, cn):
        if not strip_targs(cn.get('c', '')).endswith(name):
            return False
        if var_id is not None and not any(ff.nodes[j]['k'] == 'ref' and ff.nodes[j].get('id') == var_id
                                          for a_ in cn.get('args', []) if a_ is not None and a_ >= 0 for j in ff.subtree(a_)):
            return False
        return True
    return pred


def rule_r2_validated_is_stored(ck, prog, cls='trace::TraceState', rule='C14.R2', names=('Set', 'FromHeader')):
    """what is stored is what was validated: every AddEntry(k, v) of a caller-supplied or parsed member is behind IsValidKey applied
    to that very k and IsValidValue applied to that very v"""
    for name in names:
        f = prog.function(cls + '::' + name)
        g = Graph(prog, f, inline=None, sync_lambdas=False)
        adds = [p for p in g.calls('KeyValueProperties::AddEntry') if p.ctx is g.root_ctx and len(p.n.get('args', [])) == 2]
        bad = None
        n_ok = 0
        for p in adds:
            def the_var(a):
                refs = [f.nodes[j] for j in f.subtree(a) if f.nodes[j]['k'] == 'ref' and f.nodes[j].get('sk') in ('local', 'param')]
                return refs[0] if len({r['id'] for r in refs}) == 1 else {'k': '?'}
            k, v = the_var(p.n['args'][0]), the_var(p.n['args'][1])
            if k['k'] != 'ref' or v['k'] != 'ref':
                continue
            if not gated_by(g, [p], _validator('IsValidKey', k['id']))[0]:
                bad = (p, 'IsValidKey', k['name'])
            elif not gated_by(g, [p], _validator('IsValidValue', v['id']))[0]:
                bad = (p, 'IsValidValue', v['name'])
            else:
                n_ok += 1
        ck.verdict(bad is None and n_ok > 0, rule, f, '%s:validated-is-stored' % name, (bad[0] if bad else (adds[0] if adds else None)).n if (bad or adds) else None,
                   'the stored key and value are the ones IsValidKey / IsValidValue accepted' if bad is None and n_ok else
                   ('%s stores `%s` without %s having been applied to it (the validator is applied to something else): an invalid member enters the list and is re-injected' % (name, bad[2], bad[1])
                    if bad else 'no insertion of a validated member found'))


def rule_r2(ck, prog, cls='trace::TraceState', rule='C14.R2'):
    for name, gates in (('Set', ('IsValidKey', 'IsValidValue')), ('Delete', ('IsValidKey',))):
        f = prog.function(cls + '::' + name)
        _sci = same_class_inline(prog, f.cls)
        # private helpers are inlined; the public GetDefault() (the empty state of the reject path) and the validators are not
        g = Graph(prog, f, inline=lambda caller, call, callee, depth: _sci(caller, call, callee, depth) and callee.name != 'GetDefault' and not callee.name.startswith('IsValid'),
                  sync_lambdas=True, max_depth=2)
        news = [p for p in g.points if p.n is not None and p.n['k'] == 'new' and not p.ctx.lambda_of and p.f.cls == f.cls and p.f.kind != 'ctor']
        for gate in gates:
            ok = bool(news) and gated_by(g, news, _validator(gate))[0]
            ck.verdict(ok, rule, f, '%s:%s-gate' % (name, gate), news[0].n if news else None, 'construction behind %s' % gate if ok else
                       '%s can build a new state without %s having accepted its argument: invalid members enter the list' % (name, gate))
            # the rejecting edge returns the default state
            rets = [r for r in g.returns() if r.ctx is g.root_ctx]
            dflt = [r for r in rets if any(f.nodes[i]['k'] == 'call' and strip_targs(f.nodes[i].get('c', '')).endswith('TraceState::GetDefault') for i in f.subtree(r.n['e']))]
            ok = bool(dflt) and after_result(g, _validator(gate), False, dflt)[0]
            ck.verdict(ok, rule, f, '%s:%s-reject-returns-default' % (name, gate), dflt[0].n if dflt else None, 'invalid => default state' if ok else
                       'an argument rejected by %s does not lead to the default (empty) state' % gate)
    f = prog.function(cls + '::FromHeader')
    g = Graph(prog, f, inline=None, sync_lambdas=False)
    rd = reaching_defs(g)
    news = [p for p in g.points if p.n is not None and p.n['k'] == 'new' and 'TraceState' in (p.n.get('ty') or '')]

    def count_ok(a, b, lab):
        if not lab or not isinstance(lab[0], int):
            return False
        rel = relation(g, rd, lab[1], lab[0], a.ctx, lab[2])
        if rel and rel[0] == '>=0':
            d = dict(rel[1])
            syms = [s for s in d if s != '1']
            # 32 - cnt >= 0
            return len(syms) == 1 and d[syms[0]] == -1 and d.get('1') == 32
        return False
    ok = bool(news) and all(g.must_pass_edge(p, count_ok) for p in news)
    ck.verdict(ok, rule, f, 'FromHeader:at-most-32', news[0].n if news else None, 'state built only for at most 32 tokens' if ok else 'a header with more than 32 members is not rejected up front')
    adds = g.calls('KeyValueProperties::AddEntry')
    ok = bool(adds) and gated_by(g, adds, _validator('IsValidKey'))[0] and gated_by(g, adds, _validator('IsValidValue'))[0]
    ck.verdict(ok, rule, f, 'FromHeader:members-validated', adds[0].n if adds else None, 'every member added behind IsValidKey and IsValidValue' if ok else
               'a parsed member is added without both validators having accepted it')
    resets = [p for p in g.points if p.n is not None and p.n['k'] == 'call' and strip_targs(p.n.get('c', '')).rsplit('::', 1)[-1] == 'reset']
    # on the invalid edge the partial state is discarded: from the false edge of a validator, reset or default return before exit
    dflt = [r for r in g.returns() if any(f.nodes[i]['k'] == 'call' and strip_targs(f.nodes[i].get('c', '')).endswith('TraceState::GetDefault') for i in f.subtree(r.n['e']))]
    ok = after_result(g, _validator('IsValidKey'), False, resets + dflt)[0] and after_result(g, _validator('IsValidValue'), False, resets + dflt)[0]
    ck.verdict(ok, rule, f, 'FromHeader:invalid-discards-partial', resets[0].n if resets else None, 'an invalid member empties the state' if ok else
               'after an invalid member FromHeader can return the members parsed so far (a partial state)')


def _decl_init(f, vid):
    for n in f.nodes:
        if n['k'] == 'declstmt':
            for d in n['decls']:
                if d['id'] == vid and 'init' in d:
                    return d['init']
    return None


def _eval_with_locals(f, idx, pins, depth=0):
    """three-valued evaluation that looks through const locals initialised once"""
    env = {}
    for i in f.subtree(idx):
        n = f.nodes[i]
        if n['k'] == 'ref' and n.get('sk') == 'local' and n.get('id') not in env and depth < 6:
            init = _decl_init(f, n['id'])
            writes = [m for m in f.nodes for (v, s, vx) in defs_in_node(f, m) if v == n['id'] and m['k'] != 'declstmt']
            if init is not None and not writes:
                env[n['id']] = _eval_with_locals(f, init, pins, depth + 1)
    return eval3(f, idx, env, pins)


def rule_r3(ck, prog, cls='trace::TraceState', rule='C14.R3', api='KeyValueProperties'):
    rule_r3_copy(ck, prog, cls, rule, api)
    rule_r3_update(ck, prog, cls, rule, api)
    if cls == 'trace::TraceState':
        rule_r3_alloc(ck, prog, cls, rule, api)


def rule_r3_copy(ck, prog, cls='trace::TraceState', rule='C14.R3', api='KeyValueProperties'):
    for name in ('Set', 'Delete'):
        f = prog.function(cls + '::' + name)
        key = f.params[0]
        # the copy callback: a lambda of the function itself, or of a private helper it hands the key to (the helper's parameter
        # bound to the key is then the name the comparison uses)
        cands = [(x, key['name']) for x in prog.funcs.values() if x.d.get('lambda') and x.d.get('parent') == f.key]
        for n in f.nodes:
            h = prog.funcs.get(n.get('ck')) if n['k'] == 'call' else None
            if h is None or h.cls != f.cls or not h.blocks:
                continue
            for pi, a in enumerate(n.get('args', [])):
                if a is not None and a >= 0 and pi < len(h.params) and once_init(f, a).get('id') == key['id'] or \
                        (a is not None and a >= 0 and pi < len(h.params) and strip_casts(f, a)['k'] == 'construct' and len(strip_casts(f, a).get('args', [])) == 1 and
                         strip_casts(f, strip_casts(f, a)['args'][0]).get('id') == key['id']):
                    cands += [(x, h.params[pi]['name']) for x in prog.funcs.values() if x.d.get('lambda') and x.d.get('parent') == h.key]
        ok = False
        why = 'no copy callback found'
        for (lf, keyname) in cands:
            lg = Graph(prog, lf, inline=None, sync_lambdas=False)
            adds = lg.calls(api + '::AddEntry')
            if not adds:
                continue

            # decision table: the comparison of the entry's key with the given key is pinned to "equal" and the captured "a member
            # is inserted" flag of Set to true: the entry must not be copied; with "different" it must be
            # captured flags the callback itself modifies carry state from one entry to the next: they are not a fixed "a member is
            # inserted" fact and stay open (an exclusion that only holds for the first matching entry is no exclusion)
            written = {lf.nodes[i_].get('name') for wn in lf.nodes if wn['k'] == 'binop' and wn['op'].endswith('=') and wn['op'] not in ('==', '!=', '<=', '>=')
                       for i_ in list(lf.subtree(wn['lhs'])) + [wn['lhs']] if lf.nodes[i_]['k'] == 'ref'}
            written |= {lf.nodes[i_].get('name') for wn in lf.nodes if wn['k'] == 'unop' and wn['op'] in ('++', '--') for i_ in list(lf.subtree(wn['e'])) + [wn['e']] if lf.nodes[i_]['k'] == 'ref'}

            def pins_for(equal):
                pins = {}
                for cn in lf.nodes:
                    if cn['k'] == 'call' and cn.get('op') in ('==', '!='):
                        ops = ([cn['obj']] if cn.get('obj') is not None else []) + cn.get('args', [])
                        names = {lf.nodes[i_]['name'] for o in ops for i_ in lf.subtree(o) if lf.nodes[i_]['k'] == 'ref'}
                        if keyname in names and lf.params[0]['name'] in names:
                            pins[cn['i']] = equal if cn['op'] == '==' else (not equal)
                    elif cn['k'] == 'ref' and cn.get('cap') and 'bool' in (cn.get('t') or '') and cn.get('name') not in written:
                        pins[cn['i']] = True
                return pins
            ok = bool(pins_for(True)) and feasible_reach(lg, [lg.entry], adds, pins=pins_for(True)) is None and \
                feasible_reach(lg, [lg.entry], adds, pins=pins_for(False)) is not None
            why = 'the copy callback adds every existing entry unconditionally'
        ck.verdict(ok, rule, f, '%s:copy-excludes-key' % name, None, 'existing entries are copied only when their key differs from the given key' if ok else
                   '%s: %s: the old entry of the key survives next to the new one (duplicate member)' % (name, why) if name == 'Set' else '%s: %s: the key is not removed' % (name, why))


def rule_r3_alloc(ck, prog, cls='trace::TraceState', rule='C14.R3', api='KeyValueProperties'):
    """Delete: the copy is allocated one member smaller only when the key is known to be present (AddEntry silently drops what
    does not fit, so a too small allocation loses the last member)"""
    f = prog.function(cls + '::Delete')
    # (the allocation may sit in a private helper that receives the size: helpers are inlined, the argument is followed back)
    g = Graph(prog, f, inline=same_class_inline(prog, f.cls), sync_lambdas=False, max_depth=2)
    rd = reaching_defs(g)
    cname = cls.rsplit('::', 1)[-1]
    news = [p for p in g.points if p.n is not None and p.n['k'] == 'construct' and qmatch(p.n.get('c', ''), cls + '::' + cname) and p.n.get('args')]
    if not news:
        raise AnalysisBroken('%s::Delete: allocation of the copy not found' % cname)
    np_ = news[0]
    lookups = [n for c_ in g.ctxs for n in c_.f.nodes if n['k'] == 'call' and strip_targs(n.get('c', '')).endswith(api + '::GetValue')]

    def present_edge(a, b, lab):
        if not lab or not isinstance(lab[0], int):
            return False
        core, pol = norm_cond(lab[1], lab[0])
        for (sf, sn, sc) in origins(g, rd, lab[1], core, a.ctx):
            if any(sn is l for l in lookups):
                return (lab[2] if pol else not lab[2]) is True
        return False

    def size_sym(lin):
        return [k for k in lin if k.endswith('Size()')] if lin else []
    af, ai, ac = deparam(np_.f, np_.n['args'][0], np_.ctx)
    arg = strip_casts(af, ai)
    apt = g.point_of.get((id(ac), arg['i'])) if 'i' in arg else None
    verdict = None   # (ok, why, node)
    if arg['k'] == 'ref' and arg.get('sk') == 'local':
        defs = [g.points[d] for (v, d) in rd.get((apt or np_).id, ()) if v == arg['id']]
        for dp in defs:
            for (v, strong, vx) in defs_in_node(dp.f, dp.n):
                if v != arg['id'] or vx is None:
                    continue
                vn = strip_casts(dp.f, vx)
                if dp.n['k'] == 'binop' and dp.n['op'] in ('-=', '+=') or (dp.n['k'] == 'unop' and dp.n['op'] in ('--', '++')):
                    amt = 1 if dp.n['k'] == 'unop' else strip_casts(dp.f, dp.n['rhs']).get('v')
                    if dp.n['op'] in ('+=', '++'):
                        continue
                    if amt == 1 and g.must_pass_edge(dp, present_edge):
                        continue
                    verdict = (False, 'the size of the copy is reduced without the key being known to be present', dp.n)
                    continue
                lin = linear(g, rd, dp.f, vx, dp.ctx)
                ss = size_sym(lin)
                if lin is not None and len(ss) == 1 and lin.get(ss[0]) == 1 and set(lin) <= {ss[0], '1'}:
                    dec = -lin.get('1', 0)
                    if dec <= 0:
                        continue
                    if dec == 1 and g.must_pass_edge(dp, present_edge):
                        continue
                    verdict = (False, 'the copy is allocated %d member(s) smaller than the list without the key being known to be present' % dec, dp.n)
                elif vn['k'] == 'cond':
                    srcs = origins(g, rd, dp.f, norm_cond(dp.f, vn['cnd'])[0], dp.ctx)
                    if any(any(sn is l for l in lookups) for (sf, sn, sc) in srcs):
                        continue
                    verdict = (False, 'the size of the copy is chosen by a condition that does not say whether the key is present', dp.n)
                else:
                    verdict = verdict or (None, 'size expression of the copy not recognised', dp.n)
    else:
        lin = linear(g, rd, af, ai, ac)
        ss = size_sym(lin)
        if lin is not None and len(ss) == 1 and lin.get(ss[0]) == 1 and set(lin) <= {ss[0], '1'}:
            dec = -lin.get('1', 0)
            if dec > 0:
                verdict = (False, 'the copy is allocated %d member(s) smaller than the list without the key being known to be present' % dec, np_.n)
        elif arg['k'] == 'cond':
            srcs = origins(g, rd, af, norm_cond(af, arg['cnd'])[0], ac)
            if not any(any(sn is l for l in lookups) for (sf, sn, sc) in srcs):
                verdict = (False, 'the size of the copy is chosen by a condition that does not say whether the key is present', np_.n)
        else:
            verdict = (None, 'size expression of the copy not recognised', np_.n)
    if verdict is None:
        ck.holds(rule, f, 'Delete:allocation-fits-the-copy', np_.n, 'allocated Size(), or Size()-1 behind the key-present edge')
    elif verdict[0] is False:
        ck.violation(rule, f, 'Delete:allocation-fits-the-copy', verdict[2], verdict[1] + ': deleting a key that is not a member drops the last member (AddEntry ignores what does not fit)')
    else:
        ck.inconclusive(rule, f, 'Delete:allocation-fits-the-copy', verdict[2], verdict[1])


def rule_r3_update(ck, prog, cls='trace::TraceState', rule='C14.R3', api='KeyValueProperties'):
    # Set: an update of an existing key is never refused
    f = prog.function(cls + '::Set')
    g = Graph(prog, f, inline=None, sync_lambdas=False)
    first = [p for p in g.calls(api + '::AddEntry') if p.ctx is g.root_ctx and
             [strip_casts(f, a).get('id') for a in p.n.get('args', [])] == [f.params[0]['id'], f.params[1]['id']]]
    lookups = [n for n in f.nodes if n['k'] == 'call' and strip_targs(n.get('c', '')).endswith(api + '::GetValue')]
    if not first:
        ck.violation(rule, f, 'Set:inserts-new-pair', None, 'Set never inserts the given key/value')
        return
    if not lookups:
        ck.violation(rule, f, 'Set:update-never-refused', first[0].n,
                     'Set does not look the key up: it cannot tell an update from an insertion (an update on a full list is refused, or the old entry is duplicated)')
        return
    # with the key present (lookup true) and key/value valid, no feasible path reaches a return without having inserted the pair
    from ..symb import feasible_reach
    pins = {lookups[0]['i']: True}
    for n in f.nodes:
        if n['k'] == 'call' and strip_targs(n.get('c', '')).rsplit('::', 1)[-1].startswith('IsValid'):
            pins[n['i']] = True
    rets = [r for r in g.returns() if r.ctx is g.root_ctx]
    pth = feasible_reach(g, [g.entry], rets, avoid=first, pins=pins)
    ck.verdict(pth is None, rule, f, 'Set:update-never-refused', first[0].n, 'the new pair is inserted whenever the key already exists' if pth is None else
               'with the key already present a feasible path returns without inserting the new pair: an update of an existing key can be refused (e.g. on a list that already holds 32 members)',
               path=None if pth is None else g.describe_path(pth))


def rule_r5_tokenizer(ck, prog, rule='C14.R5'):
    """the tokenizer hands out exactly the parts of the (trimmed) member left and right of the separator: the key and value
    out-parameters are assigned substr(...) of the member (or the default), with no further transformation - trimming the parts
    repairs members such as `k1 =v1` that have to be rejected, and strips blanks a value may legitimately start with"""
    fs = [x for x in prog.functions('common::KeyValueStringTokenizer::next') if len(x.params) == 3]
    if not fs:
        raise AnalysisBroken('KeyValueStringTokenizer::next vanished')
    f = fs[0]
    outs = {f.params[1]['id']: f.params[1]['name'], f.params[2]['id']: f.params[2]['name']}
    bad = None
    n = 0
    for nd in f.nodes:
        if nd['k'] == 'call' and nd.get('op') == '=' and nd.get('obj') is not None and strip_casts(f, nd['obj']).get('id') in outs and nd.get('args'):
            n += 1
            for j in f.subtree(nd['args'][0]):
                m = f.nodes[j]
                if m['k'] == 'call':
                    nm = strip_targs(m.get('c', '')).rsplit('::', 1)[-1]
                    if nm not in ('substr', 'GetDefaultKeyOrValue', 'string_view', 'data', 'size', 'length'):
                        bad = (nd, outs[strip_casts(f, nd['obj'])['id']], strip_targs(m.get('c', '')).rsplit('::', 2)[-2:])
    if n < 2:
        raise AnalysisBroken('KeyValueStringTokenizer::next: assignments to the key/value out-parameters not found')
    ck.verdict(bad is None, rule, f, 'tokenizer-parts-untransformed', bad[0] if bad else None,
               'key and value are substr(...) of the member' if bad is None else
               'the tokenizer passes the %s part through %s before handing it out: `k1 =v1` is repaired instead of rejected, and leading blanks of a value are lost on the way header -> state -> header' % (bad[1], '::'.join(bad[2])))


def rule_r4(ck, prog, rule='C14.R4'):
    f = prog.function('common::KeyValueProperties::AddEntry')
    g = Graph(prog, f, inline=None, sync_lambdas=False)
    rd = reaching_defs(g)
    writes = [p for p in g.points if p.n is not None and p.n['k'] == 'call' and p.n.get('op') == '=' and p.n.get('obj') is not None and
              f.nodes[p.n['obj']]['k'] in ('subscript',) or (p.n is not None and p.n['k'] == 'call' and p.n.get('op') == '=' and p.n.get('obj') is not None and f.nodes[p.n['obj']]['k'] == 'call' and f.nodes[p.n['obj']].get('op') == '[]')]

    def room_edge(a, b, lab):
        if not lab or not isinstance(lab[0], int):
            return False
        rel = relation(g, rd, lab[1], lab[0], a.ctx, lab[2])
        return rel == ('>=0', frozenset({('this.max_num_entries_', 1), ('this.num_entries_', -1), ('1', -1)}))
    ok = bool(writes) and all(g.must_pass_edge(p, room_edge) for p in writes)
    ck.verdict(ok, rule, f, 'AddEntry:bounded', writes[0].n if writes else None, 'entry written only behind num < max' if ok else
               'KeyValueProperties::AddEntry can write past the allocated entries')
    f = prog.function('trace::TraceState::Set')
    g = Graph(prog, f, inline=None, sync_lambdas=False)
    rd = reaching_defs(g)
    has32 = False
    for n in f.nodes:
        c = comparison(f, n['i'])
        if c and c[0] == '<' and (f.nodes[c[2]].get('v') == 32 or strip_casts(f, c[2]).get('v') == 32):
            has32 = True
        if c and c[0] in ('<=', '>', '>=') and (f.nodes[c[2]].get('v') in (31, 32, 33)):
            has32 = False
            break
    ck.verdict(has32, rule, f, 'Set:room-for-new-key', None, 'a new key is added only while size < 32' if has32 else 'the 32-member limit is not tested as size < 32')


def rule_r5(ck, prog, rule='C14.R5'):
    f = prog.function('common::KeyValueProperties::GetValue')
    g = Graph(prog, f, inline=None, sync_lambdas=False)
    trues = [r for r in g.returns() if strip_casts(f, r.n['e']).get('v') == 1]
    key = f.params[0]

    def eq_edge(a, b, lab):
        if not lab or not isinstance(lab[0], int):
            return False
        core, pol = norm_cond(lab[1], lab[0])
        cn = lab[1].nodes[core]
        if cn['k'] == 'call' and cn.get('op') in ('==', '!=') and 'string_view' in strip_targs(cn.get('c', '') + str(cn.get('ck', ''))):
            ops = ([cn['obj']] if cn.get('obj') is not None else []) + cn.get('args', [])
            names = {f.nodes[i]['name'] for o in ops for i in f.subtree(o) if f.nodes[i]['k'] == 'ref'}
            calls = {strip_targs(f.nodes[i].get('c', '')).rsplit('::', 1)[-1] for o in ops for i in f.subtree(o) if f.nodes[i]['k'] == 'call'}
            if key['name'] in names and 'GetKey' in calls:
                return (lab[2] if pol else not lab[2]) is (cn['op'] == '==')
        return False
    ok = bool(trues) and all(g.must_pass_edge(r, eq_edge) for r in trues)
    if not ok and trues:
        # the same search written with a standard algorithm: find_if / any_of over the entries with a predicate that compares the
        # whole key, and the hit behind "found != last"
        rd = reaching_defs(g)
        algos = [n for n in f.nodes if n['k'] == 'call' and strip_targs(n.get('c', '')) in ('std::find_if', 'std::any_of') and len(n.get('args', [])) >= 3]
        for al in algos:
            lams = [prog.funcs[f.nodes[k]['fn']] for k in subtree_through_locals(f, al['args'][2]) if f.nodes[k]['k'] == 'lambda' and f.nodes[k].get('fn') in prog.funcs]
            if not lams:
                continue
            lf = lams[0]
            rets = [n for n in lf.nodes if n['k'] == 'return' and n.get('e') is not None and n['e'] >= 0]
            def whole_eq(idx):
                cn = strip_casts(lf, idx)
                if cn['k'] == 'call' and cn.get('op') == '==' and 'string_view' in strip_targs(cn.get('c', '') + str(cn.get('ck', ''))):
                    ops = ([cn['obj']] if cn.get('obj') is not None else []) + cn.get('args', [])
                    names = {lf.nodes[i]['name'] for o in ops for i in lf.subtree(o) if lf.nodes[i]['k'] == 'ref'}
                    calls = {strip_targs(lf.nodes[i].get('c', '')).rsplit('::', 1)[-1] for o in ops for i in lf.subtree(o) if lf.nodes[i]['k'] == 'call'}
                    return key['name'] in names and 'GetKey' in calls
                return False
            if not (len(rets) == 1 and whole_eq(rets[0]['e'])):
                continue

            def found_edge(a, b, lab, _al=al):
                if not lab or not isinstance(lab[0], int):
                    return False
                core, pol = norm_cond(lab[1], lab[0])
                truth = lab[2] if pol else (not lab[2])
                cn = lab[1].nodes[core]
                if cn is _al and strip_targs(_al['c']) == 'std::any_of':
                    return truth is True
                c = comparison(lab[1], core)
                if c and c[0] in ('==', '!='):
                    for side in (c[1], c[2]):
                        if any(sn is _al for (sf, sn, sc) in origins(g, rd, lab[1], side, a.ctx)):
                            return truth is (c[0] == '!=')
                return False
            if all(g.must_pass_edge(r, found_edge) for r in trues):
                ok = True
    ck.verdict(ok, rule, f, 'whole-key-match', trues[0].n if trues else None, 'a hit requires string_view equality of the whole key' if ok else
               'GetValue reports a hit without full string_view equality of the keys (prefix or length-limited comparison): "vendor" finds "vendor2"')


def rule_r6(ck, prog, rule='C14.R6'):
    fs = [f for f in prog.functions('StringUtil::Trim') if len(f.params) == 3]
    f = fs[0]
    loops = [n for n in f.nodes if n['k'] in ('while', 'for', 'do') and n.get('cnd') is not None and n['cnd'] >= 0]
    want = CTYPE['isspace']
    sides = {}

    def is_subj(i):
        m = f.nodes[i]
        return m['k'] == 'call' and m.get('op') == '[]' and m.get('obj') is not None and strip_casts(f, m['obj']).get('id') == f.params[0]['id']
    for lp in loops:
        # which end the loop trims: the parameter its subject str[<index>] is indexed with
        idx_ids = {strip_casts(f, f.nodes[i]['args'][0]).get('id') for i in f.subtree(lp['cnd']) if is_subj(i) and f.nodes[i].get('args')}
        side = 'left' if idx_ids == {f.params[1]['id']} else ('right' if idx_ids == {f.params[2]['id']} else None)
        if side is None or side in sides:
            continue
        sides[side] = lp
        # the predicate part: conjunct that mentions the subject
        cnd = f.nodes[lp['cnd']]
        parts = [cnd['rhs'], cnd['lhs']] if cnd['k'] == 'binop' and cnd['op'] == '&&' else [lp['cnd']]
        pred = None
        for pt in parts:
            if any(is_subj(i) for i in f.subtree(pt)):
                pred = pt
        bs = byteset(f, pred, is_subj) if pred is not None else None
        ok = bs == want
        ck.verdict(ok, rule, f, 'trim-class:%s' % side, lp, 'trims exactly the whitespace class %s' % describe(bs) if ok else
                   'the %s trimming predicate accepts %s, whitespace is %s: bytes that make a member invalid are silently removed before validation' % (side, describe(bs), describe(want)))
    if set(sides) != {'left', 'right'}:
        ck.inconclusive(rule, f, 'trim-class', None, 'expected a loop trimming each end')
        return
    # the right index (unsigned) cannot step below zero: every decrement is behind the exit of the left-trimming loop (then a
    # whitespace at `right` implies right > left) or behind a guard that implies right > left / right >= 1
    g = Graph(prog, f, inline=None, sync_lambdas=False)
    rd = reaching_defs(g)
    rid, lid = f.params[2]['id'], f.params[1]['id']
    decs = [p for p in g.points if p.n is not None and ((p.n['k'] == 'unop' and p.n['op'] == '--' and strip_casts(f, p.n['e']).get('id') == rid) or
                                                         (p.n['k'] == 'binop' and p.n['op'] == '-=' and strip_casts(f, p.n['lhs']).get('id') == rid))]
    left_cond = set(f.subtree(sides['left']['cnd'])) | {sides['left']['cnd']}

    def safe_edge(a, b, lab):
        if not lab or not isinstance(lab[0], int) or lab[1] is not f:
            return False
        if lab[0] in left_cond and lab[2] is False:
            return True
        rel = relation(g, rd, f, lab[0], a.ctx, lab[2])
        if rel and rel[0] == '>=0':
            d = {k.split(':')[-1] if k != '1' else k: v for k, v in rel[1]}
            rn, ln = f.params[2]['name'], f.params[1]['name']
            if d in ({rn: 1, ln: -1, '1': -1}, {rn: 1, '1': -1}):
                return True
        return False
    ok = bool(decs) and all(g.must_pass_edge(p, safe_edge) for p in decs)
    ck.verdict(ok, rule, f, 'trim-right-cannot-underflow', decs[0].n if decs else None,
               'the right index is only decremented after the left end has been trimmed (or behind right > left)' if ok else
               'the right index can be decremented when it equals left (0 for a leading whitespace-only member): it wraps to SIZE_MAX and the view is read out of bounds')


LC_DIGIT = frozenset(range(ord('a'), ord('z') + 1)) | frozenset(range(ord('0'), ord('9') + 1))
KEY_REST = LC_DIGIT | frozenset(map(ord, '_-*/'))
VAL_ANY = frozenset(range(0x20, 0x7f)) - frozenset(map(ord, ',='))
VAL_LAST = VAL_ANY - frozenset([0x20])
KEY_LANG = frozenset({((LC_DIGIT, 1, 1), (KEY_REST, 0, 255)),
                      ((LC_DIGIT, 1, 1), (KEY_REST, 0, 240), (frozenset([ord('@')]), 1, 1), (LC_DIGIT, 1, 1), (KEY_REST, 0, 13))})
VAL_LANG = frozenset({((VAL_ANY, 0, 255), (VAL_LAST, 1, 1))})


def rule_r7(ck, prog, rule='C14.R7'):
    """the regular expressions of the configured validators denote the W3C key / value grammar (parsed normal form over
    exhaustive byte sets), and the validator returns true exactly when one of them matches the whole string"""
    from ..regexnf import language, describe as rdesc
    from ..symb import returns_under_pins, T, F
    done = 0
    for name, want, what in (('IsValidKeyRegEx', KEY_LANG, 'key = (lcalpha|digit) 0*255(keychar) | tenant(1..241) "@" system(1..14)'),
                             ('IsValidValueRegEx', VAL_LANG, 'value = 0*255(chr) nblk-chr, chr = %x20-7E except "," and "="')):
        fs = prog.functions('trace::TraceState::' + name)
        if not fs:
            continue
        done += 1
        f = fs[0]
        pats = [n['s'] for n in f.nodes if n['k'] == 'str']
        rms = [n for n in f.nodes if n['k'] == 'call' and strip_targs(n.get('c', '')) in ('std::regex_match', 'std::regex_search')]
        search = [n for n in rms if strip_targs(n['c']) == 'std::regex_search']
        lang = frozenset()
        bad = None
        for pt in pats:
            l = language(pt)
            if l is None:
                bad = pt
                break
            lang |= l
        site = '%s-language' % ('key' if 'Key' in name else 'value')
        # a separate length test `x.size() <= K` that the decision is conjoined with caps an otherwise unbounded repeat
        g0 = Graph(prog, f, inline=None, sync_lambdas=False)
        rd0 = reaching_defs(g0)
        size_tests = {}
        for n in f.nodes:
            c = comparison(f, n['i'])
            if c and c[0] in ('<=', '<', '>', '>='):
                rel = relation(g0, rd0, f, n['i'], g0.root_ctx, True)
                if rel and rel[0] == '>=0':
                    d = dict(rel[1])
                    syms = [k for k in d if k != '1']
                    if len(syms) == 1 and syms[0].endswith('.size()') and d[syms[0]] == -1:
                        size_tests[n['i']] = (d.get('1', 0), True)      # true means size <= K
                    elif len(syms) == 1 and syms[0].endswith('.size()') and d[syms[0]] == 1:
                        size_tests[n['i']] = (-d.get('1', 0) - 1, False)   # true means size >= K+1
        if size_tests and bad is None and len({k for (k, _w) in size_tests.values()}) == 1:
            K = list(size_tests.values())[0][0]
            capped = set()
            for seq in lang:
                unb = [k for k, (_c, _lo, hi) in enumerate(seq) if hi is None]
                if len(unb) == 1 and all(lo == hi for k, (_c, lo, hi) in enumerate(seq) if k != unb[0]):
                    fixed = sum(lo for k, (_c, lo, hi) in enumerate(seq) if k != unb[0])
                    seq = tuple((c_, lo, (K - fixed) if k == unb[0] else hi) for k, (c_, lo, hi) in enumerate(seq))
                capped.add(seq)
            lang = frozenset(capped)
        if bad is not None:
            ck.inconclusive(rule, f, site, None, 'pattern %r is outside the supported regex fragment' % bad)
        elif search:
            ck.violation(rule, f, site, search[0], 'the validator uses regex_search: any string containing a valid %s is accepted' % site.split('-')[0])
        else:
            ck.verdict(lang == want, rule, f, site, rms[0] if rms else None, what if lang == want else
                       'the %s pattern(s) accept %s; the W3C grammar is %s' % (site.split('-')[0], rdesc(lang, describe), rdesc(want, describe)))
        # decision: true iff some match
        g = Graph(prog, f, inline=None, sync_lambdas=False)
        ok = bool(rms) and len(rms) == len(pats)
        if ok:
            base = {k: (T if w else F) for k, (_K, w) in size_tests.items()}
            def _m(a, b):
                r = dict(a)
                r.update(b)
                return r
            allf = returns_under_pins(g, _m(base, {n['i']: F for n in rms}))
            ok = allf == {F}
            for n in rms:
                pins = _m(base, {m['i']: F for m in rms})
                pins[n['i']] = T
                if returns_under_pins(g, pins) != {T}:
                    ok = False
                if size_tests and returns_under_pins(g, _m(pins, {k: (F if w else T) for k, (_K, w) in size_tests.items()})) != {F}:
                    ok = False
        ck.verdict(ok, rule, f, site.replace('language', 'decision'), rms[0] if rms else None,
                   'returns true exactly when one of its %d pattern(s) matches the whole string' % len(rms) if ok else
                   'the validator does not return true exactly when one of its patterns matches')
    return done


def rule_r2_valid_member_is_stored(ck, prog, rule='C14.R2', cls='trace::TraceState'):
    """parsing and Set accept the same members: inside the member loop of FromHeader a member the tokenizer reported well-formed and
    that passes IsValidKey / IsValidValue is stored - with those three pinned to "valid" no path leaves the iteration (next member,
    early return, break) without AddEntry.  An extra gate in front of the validators (a stricter length pre-check, say) makes the
    header of a state that Set built parse back to the empty state."""
    from .common import body_entry
    f = prog.function(cls + '::FromHeader')
    g = Graph(prog, f, inline=same_class_inline(prog, f.cls or ''), sync_lambdas=False, max_depth=1)
    loops = [l for l in f.nodes if l['k'] in ('while', 'for', 'do') and any(f.nodes[i]['k'] == 'call' and strip_targs(f.nodes[i].get('c', '')).endswith('::AddEntry') for i in f.subtree(l['body']))]
    if len(loops) != 1:
        raise AnalysisBroken('%s::FromHeader: member loop not found' % cls)
    lp = loops[0]
    start = body_entry(g, f, lp)
    body = set(f.subtree(lp['body']))
    adds = [p for p in g.points if p.f is f and p.n is not None and p.n['i'] in body and p.n['k'] == 'call' and strip_targs(p.n.get('c', '')).endswith('::AddEntry')]
    if start is None or not adds:
        ck.inconclusive(rule, f, 'valid-member-is-stored', lp, 'iteration start / insertion not found')
        return
    pins = {}
    env0 = {}
    # the tokenizer's validity flag: the bool local its next() call fills
    flags = set()
    for n in f.nodes:
        if n['k'] == 'call' and strip_targs(n.get('c', '')).endswith('KeyValueStringTokenizer::next'):
            for a in n.get('args', [])[:1]:
                an = strip_casts(f, a)
                if an['k'] == 'ref':
                    flags.add(an['id'])
    for i in sorted(body):
        n = f.nodes[i]
        if n['k'] == 'call' and strip_targs(n.get('c', '')).rsplit('::', 1)[-1] in ('IsValidKey', 'IsValidValue'):
            pins[i] = True
        c = comparison(f, i)
        if c and c[0] in ('==', '!='):
            l, r = strip_casts(f, c[1]), strip_casts(f, c[2])
            for x, y in ((l, r), (r, l)):
                if x['k'] == 'ref' and x.get('id') in flags and y.get('v') in (0, 1):
                    pins[i] = (bool(y['v']) is True) if c[0] == '==' else (bool(y['v']) is not True)
        if n['k'] == 'ref' and n.get('id') in flags:
            pins.setdefault(i, True)
    if not any(f.nodes[i]['k'] == 'call' for i in pins):
        ck.inconclusive(rule, f, 'valid-member-is-stored', lp, 'validator calls not found in the member loop')
        return
    nxt = [q for (q, _l) in start.succ] or [start]
    leak = feasible_reach(g, [start], [g.exit], avoid=adds, pins=pins)
    again = feasible_reach(g, nxt, [start], avoid=adds, pins=pins) if leak is None else None
    ok = leak is None and again is None
    wit = (leak or again or [])
    ck.verdict(ok, rule, f, 'valid-member-is-stored', lp,
               'a well-formed member that passes both validators is always stored' if ok else
               'a member the tokenizer accepted and both validators pass can still be discarded (path through line %s): FromHeader is stricter than Set / IsValidKey / IsValidValue, so ToHeader of a valid state does not parse back' %
               (', '.join(str(p.line) for p in wit[1:6] if p.n is not None) or '?'))


def rule_r8_order_and_get(ck, prog, rule='C14.R8', cls='trace::TraceState'):
    """(a) Set places the given key first: the insertion of the new pair precedes the copy of the existing members (the copy call is
    not followed by the insertion).  (b) Get answers what the lookup answered: decision table over IsValidKey x "the key was found".
    (c) ToHeader writes the member separator before every member except the first: the separator is appended exactly on the
    paths on which the "first member" flag is false, and the flag is cleared once a member has been written."""
    from ..symb import returns_under_pins, T, F
    cnt = 0
    # (a)
    f = prog.function(cls + '::Set')
    g = Graph(prog, f, inline=None, sync_lambdas=False)
    key, val = f.params[0], f.params[1]
    ins = [p for p in g.points if p.f is f and p.n is not None and p.n['k'] == 'call' and strip_targs(p.n.get('c', '')).endswith('::AddEntry') and len(p.n.get('args', [])) == 2 and
           strip_casts(f, p.n['args'][0]).get('id') == key['id'] and strip_casts(f, p.n['args'][1]).get('id') == val['id']]
    copies = [p for p in g.points if p.f is f and p.n is not None and p.n['k'] == 'call' and strip_targs(p.n.get('c', '')).endswith('::GetAllEntries')]
    cnt += 1
    if not ins or not copies:
        ck.inconclusive(rule, f, 'set-places-the-key-first', None, 'insertion of the new pair / copy of the existing members not found in Set itself')
    else:
        after = set()
        for c_ in copies:
            after |= g.reachable_from([q for (q, _l) in c_.succ])
        late = [p for p in ins if p.id in after]
        ck.verdict(not late, rule, f, 'set-places-the-key-first', (late or ins)[0].n,
                   'the new pair is inserted before the existing members are copied' if not late else
                   'Set inserts the given key after the existing members have been copied: the updated key ends up last instead of first (the W3C list is ordered, most recently updated vendor first)')
    # (b)
    f = prog.function(cls + '::Get')
    g = Graph(prog, f, inline=None, sync_lambdas=False)
    valids = [n for n in f.nodes if n['k'] == 'call' and strip_targs(n.get('c', '')).rsplit('::', 1)[-1] == 'IsValidKey']
    looks = [n for n in f.nodes if n['k'] == 'call' and strip_targs(n.get('c', '')).endswith('::GetValue')]
    cnt += 1
    if not valids or not looks:
        ck.inconclusive(rule, f, 'get-answers-the-lookup', None, 'validity test / lookup not found in Get')
    else:
        bad = None
        for (v_, l_, want) in ((True, True, {T}), (True, False, {F}), (False, True, {F}), (False, False, {F})):
            pins = {n['i']: v_ for n in valids}
            pins.update({n['i']: l_ for n in looks})
            got = returns_under_pins(g, pins)
            if got != want and bad is None:
                bad = 'for a %s key that is %s Get returns %s' % ('valid' if v_ else 'invalid', 'present' if l_ else 'absent', sorted(str(x) for x in got))
        ck.verdict(bad is None, rule, f, 'get-answers-the-lookup', looks[0], 'Get is true exactly for a valid key that the lookup found (4 rows)' if bad is None else
                   'TraceState::Get does not report what the lookup found: ' + bad)
    return cnt


def rule_separator_between_members(ck, prog, fn, rule):
    """ToHeader: the member separator is written before every member except the first (see rule_r8_order_and_get (c))"""
    from ..symb import feasible_reach
    f = prog.function(fn)
    lams = [x for x in prog.funcs.values() if x.d.get('lambda') and x.d.get('parent') == f.key]
    for lf in lams:
        seps = [n for n in lf.nodes if n['k'] == 'call' and strip_targs(n.get('c', '')).rsplit('::', 1)[-1] in ('append', 'push_back', 'operator+=') and
                any(lf.nodes[i]['k'] == 'ref' and 'MembersSeparator' in (lf.nodes[i].get('name') or '') for a in n.get('args', []) if a is not None and a >= 0 for i in list(lf.subtree(a)) + [a])]
        if not seps:
            continue
        flags = sorted({lf.nodes[i]['name'] for n in lf.nodes if n['k'] == 'binop' and n['op'] == '=' for i in [n['lhs']] if strip_casts(lf, i)['k'] == 'ref' and 'bool' in (strip_casts(lf, i).get('t') or '')})
        if len(flags) != 1:
            # no assignment (left): the captured boolean the callback tests
            flags = sorted({n['name'] for n in lf.nodes if n['k'] == 'ref' and 'bool' in (n.get('t') or '') and (n.get('cap') or n.get('sk') in ('capture', 'local'))})
        if len(flags) != 1:
            # the other idiom: "something has been written already" read off the output string itself - `if (!out.empty())` in front of
            # the separator, with out empty before the walk and every member appending at least one character on every path
            out_refs = [strip_casts(lf, s_['obj']) for s_ in seps if s_.get('obj') is not None]
            out_names = {o.get('name') for o in out_refs if o['k'] == 'ref'}
            empties = [n for n in lf.nodes if n['k'] == 'call' and strip_targs(n.get('c', '')).rsplit('::', 1)[-1] == 'empty' and n.get('obj') is not None and
                       strip_casts(lf, n['obj']).get('name') in out_names and not n.get('args')]
            if len(out_names) == 1 and empties:
                out = sorted(out_names)[0]
                g = Graph(prog, lf, inline=None, sync_lambdas=False)
                sp = [p for p in g.points if p.f is lf and p.n is not None and any(p.n is s_ for s_ in seps)]
                appends = [p for p in g.points if p.f is lf and p.n is not None and p.n['k'] == 'call' and p.n.get('obj') is not None and
                           strip_casts(lf, p.n['obj']).get('name') == out and strip_targs(p.n.get('c', '')).rsplit('::', 1)[-1] in ('push_back', 'operator+=') and p not in sp] + \
                          [p for p in g.points if p.f is lf and p.n is not None and p.n['k'] == 'call' and p.n.get('obj') is not None and strip_casts(lf, p.n['obj']).get('name') == out and
                           strip_targs(p.n.get('c', '')).rsplit('::', 1)[-1] == 'append' and p not in sp and len(p.n.get('args', [])) == 2 and
                           strip_casts(lf, p.n['args'][0]).get('v') not in (None, 0) and 'char' in (lf.nodes[p.n['args'][1]].get('t') or '')]
                # before the walk: the string is a default-constructed local of the enclosing function that nothing writes outside the callback
                decl_ok = any(d.get('name') == out and (d.get('init') is None or d['init'] < 0 or (f.nodes[d['init']]['k'] == 'construct' and not f.nodes[d['init']].get('args')))
                              for n in f.nodes if n['k'] == 'declstmt' for d in n['decls'])
                outer_writes = [n for n in f.nodes if n['k'] == 'call' and n.get('obj') is not None and strip_casts(f, n['obj']).get('name') == out and
                                strip_targs(n.get('c', '')).rsplit('::', 1)[-1] in ('append', 'push_back', 'operator+=', 'assign', 'operator=', 'insert')]
                pin_first = {n['i']: True for n in empties}
                pin_later = {n['i']: False for n in empties}
                why = None
                if not decl_ok or outer_writes:
                    ck.inconclusive(rule, lf, 'separator-between-members', seps[0], 'the output string is not shown to be empty before the first member')
                    return 1
                if not appends or g.exit.id in g.reachable_from(g.entry, avoid=appends):
                    ck.inconclusive(rule, lf, 'separator-between-members', seps[0], 'a member is not shown to add at least one character on every path: emptiness of the output does not identify the first member')
                    return 1
                if feasible_reach(g, [g.entry], sp, pins=pin_first) is not None:
                    why = 'a separator is written in front of the first member'
                elif feasible_reach(g, [g.entry], [g.exit], avoid=sp, pins=pin_later) is not None:
                    why = 'a later member can be written without a separator in front of it'
                ck.verdict(why is None, rule, lf, 'separator-between-members', seps[0],
                           'a separator precedes every member but the first (first = the output is still empty)' if why is None else
                           'ToHeader: %s - the header does not parse back to the same list' % why)
                return 1
            ck.inconclusive(rule, lf, 'separator-between-members', seps[0], 'the "first member" flag of the callback was not recognised')
            return 1
        flag = flags[0]
        g = Graph(prog, lf, inline=None, sync_lambdas=False)
        sp = [p for p in g.points if p.f is lf and p.n is not None and any(p.n is s_ for s_ in seps)]
        clears = [p for p in g.points if p.f is lf and p.n is not None and p.n['k'] == 'binop' and p.n['op'] == '=' and strip_casts(lf, p.n['lhs']).get('name') == flag and
                  strip_casts(lf, p.n['rhs']).get('v') == 0]
        pin_first = {n['i']: True for n in lf.nodes if n['k'] == 'ref' and n.get('name') == flag}
        pin_later = {n['i']: False for n in lf.nodes if n['k'] == 'ref' and n.get('name') == flag}
        # the flag's initial value in the enclosing function
        init_true = any(d.get('name') == flag and d.get('init') is not None and strip_casts(f, d['init']).get('v') == 1 for n in f.nodes if n['k'] == 'declstmt' for d in n['decls'])
        why = None
        if not init_true:
            why = 'the flag %s does not start as true' % flag
        elif feasible_reach(g, [g.entry], sp, pins=pin_first) is not None:
            why = 'a separator is written in front of the first member'
        elif feasible_reach(g, [g.entry], [g.exit], avoid=sp, pins=pin_later) is not None:
            why = 'a later member can be written without a separator in front of it'
        elif not clears or feasible_reach(g, [g.entry], [g.exit], avoid=clears, pins=pin_first) is not None:
            why = 'the flag is not cleared after the first member: no separator is ever written'
        ck.verdict(why is None, rule, lf, 'separator-between-members', seps[0],
                   'a separator precedes every member but the first' if why is None else
                   'ToHeader: %s - the header does not parse back to the same list' % why)
        return 1
    ck.inconclusive(rule, f, 'separator-between-members', None, 'the callback that writes the separator was not found')
    return 1


def rule_member_parts_written(ck, prog, fn, rule):
    """ToHeader: the callback that writes one member appends text derived from each of its parameters (key and value) to the
    output on every path - a member written with one part missing or doubled does not parse back to the same pair"""
    from .common import subtree_through_locals
    f = prog.function(fn)
    lams = [x for x in prog.funcs.values() if x.d.get('lambda') and x.d.get('parent') == f.key and len(x.params) == 2 and all('string_view' in p_['t'] for p_ in x.params)]
    if not lams:
        ck.inconclusive(rule, f, 'member-parts-written', None, 'the per-member callback of ToHeader was not found')
        return 0
    lf = lams[0]
    g = Graph(prog, lf, inline=None, sync_lambdas=False)
    appends = [p for p in g.points if p.f is lf and p.n is not None and p.n['k'] == 'call' and p.n.get('obj') is not None and
               strip_targs(p.n.get('c', '')).rsplit('::', 1)[-1] in ('append', 'push_back', 'operator+=', 'insert') and 'string' in (lf.nodes[p.n['obj']].get('t') or '')]
    for par in lf.params:
        mine = [p for p in appends if any(lf.nodes[j]['k'] == 'ref' and lf.nodes[j].get('id') == par['id']
                                           for a in p.n.get('args', []) if a is not None and a >= 0 for j in list(subtree_through_locals(lf, a)) + [a])]
        ok = bool(mine) and g.exit.id not in g.reachable_from(g.entry, avoid=mine)
        ck.verdict(ok, rule, lf, 'member-parts-written:%s' % ('first' if par is lf.params[0] else 'second'), (mine or appends or [None])[0].n if (mine or appends) else None,
                   'text derived from the %s parameter is appended on every path' % par['name'] if ok else
                   'ToHeader can write a member without its %s (parameter %s of the callback never reaches the output on some path)' % ('key' if par is lf.params[0] else 'value', par['name']))
    return 1


def run(ck, prog):
    ck.doc('C14.R1', 'no member of TraceState modifies the object it is called on', 5)
    ck.doc('C14.R2', 'validity gates dominate construction; invalid => default/empty; at most 32 members when parsing; what is stored is what was validated; a valid member is always stored', 12)
    ck.doc('C14.R3', 'copy excludes the updated/deleted key; an update of an existing key is never refused; Delete allocates enough', 4)
    ck.doc('C14.R4', 'AddEntry bounded by the allocation; new key only while size < 32', 2)
    ck.doc('C14.R5', 'key lookup compares whole keys; the tokenizer hands out the member parts untransformed', 2)
    ck.doc('C14.R6', 'Trim removes exactly the whitespace class on both edges; the right index cannot step below zero', 3)
    ck.doc('C14.R8', 'Set inserts the given key before it copies the others; Get answers exactly what the lookup found (4-row table); ToHeader writes a separator before every member but the first', 3)
    ck.doc('C14.R7', 'the validators\' regular expressions denote the W3C key/value grammar; true iff a whole-string match', 0)
    ck.doc('C09.R7', '(shared rule) no function-local static of the parse/validate functions is modified after initialisation', 1)
    with ck.canary('C14.R1'):
        rule_r1(ck, prog, cls='canary::c14::BadState', field='kv_')
    rule_r1(ck, prog)
    rule_r2(ck, prog)
    rule_r2_validated_is_stored(ck, prog)
    rule_r2_valid_member_is_stored(ck, prog)
    rule_r8_order_and_get(ck, prog)
    rule_separator_between_members(ck, prog, 'trace::TraceState::ToHeader', 'C14.R8')
    rule_member_parts_written(ck, prog, 'trace::TraceState::ToHeader', 'C14.R8')
    rule_r3(ck, prog)
    rule_r4(ck, prog)
    rule_r5(ck, prog)
    rule_r5_tokenizer(ck, prog)
    rule_r6(ck, prog)
    if not rule_r7(ck, prog):
        ck.note('C14.R7 not applicable in this configuration: the regex validators are not compiled (OPENTELEMETRY_HAVE_WORKING_REGEX=0)')
    from . import c09
    c09.rule_r7(ck, prog)
    return {}
