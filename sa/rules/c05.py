"""C05 - new spans get correct identity, parentage, flags and trace state."""
import re
from ..ir import AnalysisBroken, strip_targs, qmatch
from ..graph import Graph
from ..expr import access_path, path_str, reaching_defs, norm_cond, origins, leaves, defs_in_node, is_transparent_call
from .common import once_init, strip_casts, short, comparison, gated_by

UNITS = ['sdk/src/trace/tracer.cc', 'sdk/src/common/random.cc', 'sdk/src/trace/random_id_generator.cc', 'sdk/src/trace/span.cc']
DRIVERS = ['api_context.cc', 'trace_headers.cc']
CANARIES = ['c05_canary.cc']

EXPLANATION = (
    'C05.R1 (bit provenance): forward dataflow over an 8-bit abstract vector (each bit 0, 1, parent-bit or unknown) of '
    'the flags byte that reaches the TraceFlags of the new SpanContext in Tracer::StartSpan, split on the outcome of '
    'SamplingResult::IsSampled(): sampled side => bit 0 is 1, not-sampled side => bit 0 is 0, bits 1-7 are 0 on every '
    'path. C05.R2 (decision table over restricted reaching definitions): for each of the six parent scenarios '
    '(explicit SpanContext valid/invalid, explicit Context with valid span / invalid+root / invalid+not root, no '
    'explicit parent) exactly the documented source (explicit context, span of the explicit Context, the invalid '
    'context, the active span) reaches the parent used for sampling and identity. C05.R3 (dependence): trace id from '
    'the parent on the valid-parent edge and from GenerateTraceId otherwise; span id always from GenerateSpanId; the '
    'trace-state argument is sampler\'s-if-set, else parent\'s on the valid edge, else default; the remote flag of the '
    'new context is false. C05.R4 (dominance): the not-recording edge builds a NoopSpan from the same span context and '
    'never the SDK Span; the recording edge builds the SDK Span with parent and context. C05.R5 (storage facts): the '
    'random engine and its guard object have thread storage, the engine is seeded from a non-static seed built from '
    'std::random_device in the same call; the runtime-context stack has thread storage.')
EXPLANATION += ' C05.R2 also checks the atoms of the table: trace::IsRootSpan / trace::GetSpan return the value stored under their key (behind holds_alternative) or the default.'
EXPLANATION += ' C05.R6 (forwarding): every inline StartSpan overload of the API Tracer forwards each of its parameters (name, attributes, links, options) to the overload it delegates to; evaluated on a driver unit that instantiates the six overloads.'
ROUND2_EXPLANATION = (" C05.R2 also: the sampler is consulted on every path to the new span context, receives the resolved parent variable, and the recording Span receives that same variable. Shared C04.R5: the Span constructor feeds identity, parent id and flags from the span's own context / the resolved parent.")
EXPLANATION += ROUND2_EXPLANATION
NOT_DECIDED = 'freshness / non-zero ids (the generator has no retry: probabilistic), uniqueness across threads beyond the storage facts.'

P = 'P'   # parent's bit
U = 'T'   # unknown


def _bits(v):
    return tuple((v >> i) & 1 for i in range(8))


def rule_r1(ck, prog, f, rule='C05.R1'):
    g = Graph(prog, f, inline=None, sync_lambdas=False)
    rd = reaching_defs(g)
    # sink: construction of TraceFlags from a local byte
    sinks = [p for p in g.calls('trace::TraceFlags::TraceFlags') if p.n.get('args') and not p.n.get('copymove') and
             strip_casts(f, p.n['args'][0])['k'] == 'ref' and strip_casts(f, p.n['args'][0]).get('sk') == 'local' and
             'TraceFlags' not in (strip_casts(f, p.n['args'][0]).get('t') or '')]
    if not sinks:
        raise AnalysisBroken('%s: construction of TraceFlags from the flags byte not found' % short(f))
    sink = sinks[0]
    vid = strip_casts(f, sink.n['args'][0])['id']
    # the flags byte handed through a helper of the program (`flags = WithSampledBit(flags, decision)`): the bit evaluator works on
    # the expressions of this function only - it says so instead of reporting bits it cannot see
    for n in f.nodes:
        for (v_, st_, vx_) in (defs_in_node(f, n) if n['k'] in ('binop', 'declstmt') else []):
            if v_ != vid or vx_ is None or vx_ < 0:
                continue
            helpers = [f.nodes[i] for i in list(f.subtree(vx_)) + [vx_] if f.nodes[i]['k'] == 'call' and f.nodes[i].get('ck') in prog.funcs and
                       prog.funcs[f.nodes[i]['ck']].blocks and not strip_targs(f.nodes[i].get('c', '')).startswith('opentelemetry::trace::TraceFlags')]
            if helpers and any(f.nodes[j]['k'] == 'ref' and f.nodes[j].get('id') == vid for h in helpers for a in h.get('args', []) if a is not None and a >= 0 for j in list(f.subtree(a)) + [a]):
                ck.inconclusive(rule, f, 'sampled-bit-equals-decision', helpers[0], 'the flags byte is rewritten by the helper %s: the bit-provenance evaluator does not enter helpers' % strip_targs(helpers[0]['c']).rsplit('::', 1)[-1])
                ck.inconclusive(rule, f, 'only-level-1-bits', helpers[0], 'see sampled-bit-equals-decision')
                return

    def is_parent_flags(idx):
        for l in leaves(f, idx, follow_locals=False):
            if l[0] == 'call' and l[1].endswith('TraceFlags::flags'):
                return True
        return False

    def b_or(a, b):
        if a == 1 or b == 1:
            return 1
        if a == 0:
            return b
        if b == 0:
            return a
        return P if (a == P and b == P) else U

    def b_and(a, b):
        if a == 0 or b == 0:
            return 0
        if a == 1:
            return b
        if b == 1:
            return a
        return P if (a == P and b == P) else U

    def b_not(a):
        return {0: 1, 1: 0}.get(a, U)

    def b_xor(a, b):
        if a in (0, 1) and b in (0, 1):
            return a ^ b
        if b == 0:
            return a
        if a == 0:
            return b
        return U

    def is_decision(idx):
        core, pol = norm_cond(f, idx)
        cn = f.nodes[core]
        if cn['k'] == 'call' and qmatch(cn.get('c', ''), 'SamplingResult::IsSampled'):
            return pol
        return None

    def abs_eval(idx, bits, dec, depth=0):
        """abstract value of an 8-bit expression: set of (bit vector, decision); conditional expressions on the sampler's
        decision split the state"""
        n = f.nodes[idx]
        if n.get('v') is not None and n['k'] != 'ref':
            return {(_bits(n['v'] & 0xff), dec)}
        k = n['k']
        if k in ('cast', 'paren') and n.get('e') is not None:
            return abs_eval(n['e'], bits, dec, depth + 1)
        if k == 'ref':
            if n.get('id') == vid:
                return {(bits, dec)}
            if n.get('v') is not None:
                return {(_bits(n['v'] & 0xff), dec)}
            return {(tuple([U] * 8), dec)}
        if k == 'unop' and n['op'] == '~':
            return {(tuple(b_not(x) for x in b), d) for (b, d) in abs_eval(n['e'], bits, dec, depth + 1)}
        if k == 'binop' and n['op'] in ('|', '&', '^'):
            fn = {'|': b_or, '&': b_and, '^': b_xor}[n['op']]
            out = set()
            for (lb, ld) in abs_eval(n['lhs'], bits, dec, depth + 1):
                for (rb, rd_) in abs_eval(n['rhs'], bits, ld, depth + 1):
                    out.add((tuple(fn(lb[i], rb[i]) for i in range(8)), rd_))
            return out
        if k == 'cond':
            pol = is_decision(n['cnd'])
            if pol is not None and dec is None:
                return abs_eval(n['a'], bits, pol, depth + 1) | abs_eval(n['b'], bits, (not pol), depth + 1)
            if pol is not None:
                return abs_eval(n['a'] if dec is pol else n['b'], bits, dec, depth + 1)
            return abs_eval(n['a'], bits, dec, depth + 1) | abs_eval(n['b'], bits, dec, depth + 1)
        if is_parent_flags(idx):
            return {(tuple([P] * 8), dec)}
        return {(tuple([U] * 8), dec)}

    def transfer(p, st):
        n = p.n
        if n is None:
            return st
        out = set()
        for (bits, dec) in st:
            res = {(bits, dec)}
            if n['k'] == 'declstmt':
                for d in n['decls']:
                    if d['id'] == vid:
                        res = abs_eval(d['init'], tuple([U] * 8), dec) if d.get('init') is not None and d['init'] >= 0 else {(tuple([U] * 8), dec)}
            elif n['k'] == 'binop' and strip_casts(f, n['lhs']).get('id') == vid:
                op = n['op']
                if op == '=':
                    res = abs_eval(n['rhs'], bits, dec)
                elif op in ('|=', '&=', '^='):
                    fn = {'|=': b_or, '&=': b_and, '^=': b_xor}[op]
                    res = {(tuple(fn(bits[i], rb[i]) for i in range(8)), rd_) for (rb, rd_) in abs_eval(n['rhs'], bits, dec)}
                else:
                    res = {(tuple([U] * 8), dec)}
            elif n['k'] in ('call', 'construct'):
                for (v, strong, vx) in defs_in_node(f, n):
                    if v == vid:
                        res = {(tuple([U] * 8), dec)}
            out |= res
        return frozenset(out)

    def edge_transfer(p, q, lab, st):
        if not lab or not isinstance(lab[0], int):
            return st
        core, pol = norm_cond(lab[1], lab[0])
        cn = lab[1].nodes[core]
        if cn['k'] == 'call' and qmatch(cn.get('c', ''), 'SamplingResult::IsSampled'):
            truth = lab[2] if pol else (not lab[2])
            return frozenset((b, truth) for (b, _d) in st)
        return st

    def meet(sts):
        r = sts[0]
        for s in sts[1:]:
            r = r | s
        return r
    init = frozenset({(tuple([U] * 8), None)})
    IN, OUT = g.forward(frozenset(), transfer, meet, entry_state=init, edge_transfer=edge_transfer)
    st = IN.get(sink.id, frozenset())
    if not st:
        raise AnalysisBroken('%s: flags sink unreachable' % short(f))
    bad0 = []
    badhi = []
    for (bits, dec) in st:
        if dec is True and bits[0] != 1:
            bad0.append('sampled side: bit 0 is %s' % _bname(bits[0]))
        if dec is False and bits[0] != 0:
            bad0.append('not-sampled side: bit 0 is %s' % _bname(bits[0]))
        if dec is None:
            bad0.append('a path reaches the flags without having branched on SamplingResult::IsSampled() (bit 0 is %s)' % _bname(bits[0]))
        for i in range(1, 8):
            if bits[i] != 0:
                badhi.append('bit %d is %s' % (i, _bname(bits[i])))
    if bad0:
        ck.violation(rule, f, 'sampled-bit-equals-decision', sink.n,
                     'the sampled flag of the new span context does not equal the sampler\'s decision: ' + '; '.join(sorted(set(bad0))))
    else:
        ck.holds(rule, f, 'sampled-bit-equals-decision', sink.n, 'bit 0 = 1 on the sampled side, 0 on the other (%d abstract states)' % len(st))
    if badhi:
        ck.violation(rule, f, 'only-w3c-level1-bits', sink.n,
                     'flag bits other than the W3C level-1 sampled bit can be set in the new context: ' + '; '.join(sorted(set(badhi))[:4]))
    else:
        ck.holds(rule, f, 'only-w3c-level1-bits', sink.n, 'bits 1-7 are 0 on every path')


def _bname(b):
    return {P: "the parent's bit", U: 'unknown', 0: '0', 1: '1'}[b]


def _atoms(g, rd, f):
    """classify branch conditions of StartSpan by role"""
    roles = {}
    for p in g.points:
        for (q, lab) in p.succ:
            if not lab or not isinstance(lab[0], int):
                continue
            f = lab[1]
            if (id(f), lab[0]) in roles:
                continue
            core, pol = norm_cond(f, lab[0])
            cn = f.nodes[core]
            role = None
            if cn['k'] == 'ref' and cn.get('sk') == 'local':
                # a named boolean: classify what it was computed from
                for (sf, sn, sc) in origins(g, rd, f, core, p.ctx):
                    if sn['k'] == 'call' and sf is f:
                        cn = sn
            if cn['k'] == 'call':
                c = strip_targs(cn.get('c', ''))
                ck_ = cn.get('ck', '')
                if c.endswith('holds_alternative'):
                    if 'holds_alternative<opentelemetry::trace::SpanContext' in ck_:
                        role = 'holdsSC'
                    elif 'holds_alternative<opentelemetry::context::Context' in ck_:
                        role = 'holdsCtx'
                elif c.endswith('SpanContext::IsValid') and cn.get('obj') is not None:
                    srcs = origins(g, rd, f, cn['obj'], p.ctx)
                    names = set()
                    for (sf, sn, sc) in srcs:
                        for j in sf.subtree(sn['i']):
                            m = sf.nodes[j]
                            if m['k'] == 'call':
                                names.add(strip_targs(m.get('c', '')) + '|' + (m.get('ck') or ''))
                    if any('::get|' in x and 'get<opentelemetry::trace::SpanContext' in x for x in names):
                        role = 'validSC'
                    elif any(x.split('|')[0].endswith('trace::GetSpan') for x in names):
                        role = 'validCtxSpan'
                elif c.endswith('trace::IsRootSpan'):
                    role = 'isRoot'
            if role:
                roles[(id(f), lab[0])] = (role, pol)
    return roles


def _classify_def(g, rd, f, dp, vid):
    """kinds of source the definition at dp gives variable vid (one per origin of the defining value; with an inlined helper the
    origins are the helper's returns that reach under the given, possibly scenario-restricted, flow)"""
    val = None
    for (v, strong, vx) in defs_in_node(dp.f, dp.n):
        if v == vid:
            val = vx
    if val is None:
        return set()
    kinds = set()
    for (sf, sn, sc) in origins(g, rd, dp.f, val, dp.ctx):
        calls = set()
        invalid = False
        for j in sf.subtree(sn['i']):
            m = sf.nodes[j]
            if m['k'] in ('call', 'construct'):
                calls.add(strip_targs(m.get('c', '')) + '|' + (m.get('ck') or ''))
            if m['k'] == 'construct' and strip_targs(m.get('c', '')).endswith('SpanContext::SpanContext') and \
                    len(m.get('args', [])) == 2 and all(sf.nodes[a].get('v') == 0 for a in m['args']):
                invalid = True
        if invalid:
            kinds.add('invalid')
        elif any('get<opentelemetry::trace::SpanContext' in c for c in calls):
            kinds.add('explicit-span-context')
        elif any(c.split('|')[0].endswith('trace::GetSpan') for c in calls):
            kinds.add('span-of-explicit-context')
        elif any(c.split('|')[0].endswith('GetCurrentSpan') for c in calls):
            kinds.add('active-span')
        elif sn['k'] == 'ref' and sn.get('sk') == 'param' and sc is not None and sc.call is not None:
            continue   # an unbound parameter of an inlined helper: followed by origins already
        else:
            kinds.add('other:' + ','.join(sorted(c.split('|')[0].rsplit('::', 1)[-1] for c in calls))[:60])
    return kinds


SCENARIOS = [
    ('explicit SpanContext, valid', {'holdsSC': True, 'validSC': True}, {'explicit-span-context'}),
    ('explicit SpanContext, invalid', {'holdsSC': True, 'validSC': False}, {'active-span'}),
    ('explicit Context with a valid span', {'holdsSC': False, 'holdsCtx': True, 'validCtxSpan': True}, {'span-of-explicit-context'}),
    ('explicit Context without span, marked root', {'holdsSC': False, 'holdsCtx': True, 'validCtxSpan': False, 'isRoot': True}, {'invalid'}),
    ('explicit Context without span, not root', {'holdsSC': False, 'holdsCtx': True, 'validCtxSpan': False, 'isRoot': False}, {'active-span'}),
    ('no explicit parent', {'holdsSC': False, 'holdsCtx': False}, {'active-span'}),
]


def rule_r2(ck, prog, f, rule='C05.R2', need_span=True):
    from .common import same_class_inline
    g = Graph(prog, f, inline=same_class_inline(prog, f.cls or ''), max_depth=2, sync_lambdas=False)
    rd = reaching_defs(g)
    atoms = _atoms(g, rd, f)
    have = {r for (r, _p) in atoms.values()}
    need = {'holdsSC', 'holdsCtx', 'validSC', 'validCtxSpan', 'isRoot'}
    if not need <= have:
        ck.violation(rule, f, 'parent-decision-atoms', None,
                     'the parent resolution no longer tests %s: the documented precedence (explicit SpanContext, explicit Context, root marker, active span) cannot be implemented without it' %
                     ', '.join(sorted(need - have)))
        have_all = False
    # sink: the call of the sampler
    sinks = g.calls('Sampler::ShouldSample')
    if not sinks:
        raise AnalysisBroken('Tracer::StartSpan: call of the sampler vanished')
    sink = sinks[0]
    pa = strip_casts(f, sink.n['args'][0])
    while pa['k'] == 'construct' and pa.get('copymove') and pa.get('args'):
        pa = strip_casts(f, pa['args'][0])
    if pa['k'] == 'construct' and 'SpanContext' in (pa.get('c') or '') and len(pa.get('args', [])) >= 2:
        ck.violation(rule, f, 'sampler-receives-resolved-parent', sink.n,
                     'the sampler is handed a span context assembled on the spot instead of the resolved parent: parent-based sampling decides on something that is not the parent')
        return g, rd, sink, None
    if pa['k'] != 'ref':
        direct = {strip_targs(f.nodes[j].get('c', '')).rsplit('::', 1)[-1] for j in list(f.subtree(sink.n['args'][0])) + [sink.n['args'][0]] if f.nodes[j]['k'] == 'call'}
        if direct & {'GetCurrentSpan', 'GetSpan', 'GetContext', 'GetInvalid'}:
            ck.violation(rule, f, 'sampler-receives-resolved-parent', sink.n,
                         'the sampler is not handed the resolved parent but an expression computed on the spot (%s): an explicitly given parent is ignored by parent-based sampling' % ', '.join(sorted(direct)))
            return g, rd, sink, None
        raise AnalysisBroken('Tracer::StartSpan: sampler parent argument is not a local')
    vid = pa['id']
    for (name, scen, expect) in SCENARIOS:
        def skip(a, b, lab, _scen=scen):
            if not lab or not isinstance(lab[0], int) or (id(lab[1]), lab[0]) not in atoms:
                return False
            role, pol = atoms[(id(lab[1]), lab[0])]
            if role not in _scen:
                return False
            truth = lab[2] if pol else (not lab[2])
            return truth is not _scen[role]
        rds = reaching_defs(g, skip_edge=skip)
        defs = [g.points[d] for (v, d) in rds.get(sink.id, ()) if v == vid]
        kinds = set()
        for dp in defs:
            kinds |= _classify_def(g, rds, f, dp, vid)
        kinds.discard('none')
        site = 'parent:%s' % name
        if kinds == expect:
            ck.holds(rule, f, site, sink.n, 'parent comes from %s' % ','.join(sorted(kinds)))
        else:
            ck.violation(rule, f, site, defs[0].n if defs else sink.n,
                         'scenario "%s": the parent used for sampling/identity comes from {%s}, the documented source is {%s}' %
                         (name, ','.join(sorted(kinds)) or 'nothing', ','.join(sorted(expect))))
    # the sampler decides for every span: no path builds the new span context without having consulted it
    ctors_ = [p for p in g.calls('trace::SpanContext::SpanContext') if len(p.n.get('args', [])) >= 4]
    skipped = [c for c in ctors_ if not g.must_pass(c, sinks)]
    if ctors_:
        ck.verdict(not skipped, rule, f, 'sampler-consulted-on-every-path', (skipped[0].n if skipped else sink.n),
                   'every path to the new span context passes ShouldSample' if not skipped else
                   'a span context is built on a path that never asked the configured sampler (e.g. children of an unsampled parent): AlwaysOn / ratio decisions are not honoured and the decision depends on more than the sampler')
    # every other consumer of "the parent" uses the very variable the sampler saw, with no redefinition in between: the validity test
    # that selects the trace id, and the parent handed to the recording Span (its span id becomes the exported parent span id)
    spans = [p for p in g.points if p.f is f and p.n is not None and p.n['k'] == 'construct' and strip_targs(p.n.get('c', '')).endswith('sdk::trace::Span::Span')]
    for sp in spans:
        callee = prog.funcs.get(sp.n.get('ck'))
        idx = None
        if callee is not None:
            for pi, prm in enumerate(callee.params):
                if re.search(r'trace::SpanContext$', prm['t'].replace('const ', '').rstrip(' &')):
                    idx = pi
        else:
            cand = [ai for ai, a in enumerate(sp.n['args']) if a is not None and a >= 0 and re.search(r'trace::SpanContext$', (f.nodes[a].get('t') or '').replace('const ', '').rstrip(' &'))]
            idx = cand[0] if len(cand) == 1 else None
        if idx is None or idx >= len(sp.n['args']):
            ck.inconclusive(rule, f, 'span-parent-is-resolved-parent', sp.n, 'parent parameter of the Span constructor not identified')
            continue
        an = strip_casts(f, sp.n['args'][idx])
        hops = 0
        while an['k'] == 'ref' and an.get('id') != vid and an.get('sk') == 'local' and hops < 4:
            # a once-initialised alias / copy of the resolved parent
            init = once_init(f, an['i'])
            if 'i' not in init or init['i'] == an['i']:
                break
            an = strip_casts(f, init['i'])
            hops += 1
        same = an['k'] == 'ref' and an.get('id') == vid
        redefined = False
        if same:
            between = g.reachable_from([sink], avoid=[sp])
            for q in g.points:
                if q.id in between and q.n is not None and q is not sink and any(v == vid and st for (v, st, _x) in defs_in_node(q.f, q.n)):
                    # a strong redefinition on a path from the sampler call to the constructor
                    if sp.id in g.reachable_from([q]):
                        redefined = True
        ck.verdict(same and not redefined, rule, f, 'span-parent-is-resolved-parent', sp.n,
                   'the recording span receives the resolved parent the sampler saw' if same and not redefined else
                   'the parent handed to the recording Span is not the resolved parent the sampler and the trace id were computed from: the exported parent span id (and parent-is-remote) belong to another span')
    if not spans and need_span:
        raise AnalysisBroken('Tracer::StartSpan: construction of the recording Span vanished')
    return g, rd, sink, vid


def _read_behind_holds(g, sf, get_node, rp):
    """the point at which get<T>(variant) is evaluated is only reachable over the edge on which holds_alternative<T> was true
    (either polarity of the source condition; `holds && get(...)` evaluates the get behind the short-circuit edge)"""
    pt = g.point_of.get((id(rp.ctx), get_node['i']))
    if pt is None:
        return False

    def holds_true(a, b, lab):
        if not lab or not isinstance(lab[0], int):
            return False
        core, pol = norm_cond(lab[1], lab[0])
        cn = lab[1].nodes[core]
        if cn['k'] == 'call' and strip_targs(cn.get('c', '')).endswith('holds_alternative'):
            return (lab[2] if pol else not lab[2]) is True
        return False
    return g.must_pass_edge(pt, holds_true)


def rule_r2_predicates(ck, prog, rule='C05.R2'):
    """The atoms of the decision table are calls of IsRootSpan / GetSpan: they have to report what the Context stores."""
    for (fname, key, alt, site) in (('trace::IsRootSpan', 'kIsRootSpanKey', 'bool', 'root-marker-is-stored-bool'),
                                    ('trace::GetSpan', 'kSpanKey', 'shared_ptr<opentelemetry::trace::Span', 'span-is-stored-span')):
        fs = [x for x in prog.functions(fname) if x.params and 'Context' in x.params[0]['t']]
        if not fs:
            raise AnalysisBroken('%s(Context) not found' % fname)
        f = fs[0]
        g = Graph(prog, f, inline=None, sync_lambdas=False)
        rd = reaching_defs(g)
        rets = g.returns()
        bad = None
        stored = 0
        for rp in rets:
            if rp.n.get('e', -1) is None or rp.n.get('e', -1) < 0:
                continue
            e = strip_casts(f, rp.n['e'])
            if e['k'] == 'lit' and not e.get('v'):
                continue   # literal false
            calls = {}
            for (sf, sn, sc) in origins(g, rd, f, rp.n['e'], rp.ctx):
                for j in sf.subtree(sn['i']):
                    m = sf.nodes[j]
                    if m['k'] in ('call', 'construct'):
                        calls[strip_targs(m.get('c', '')).rsplit('::', 1)[-1] + '|' + (m.get('ck') or '')] = (sf, m)
            gets = [v for k, v in calls.items() if k.startswith('get|') and re.search(r'::get<[^,]*' + re.escape(alt), k)]
            if gets:
                # the variant read is the one GetValue(<key>) returned
                (sf, m) = gets[0]
                src_ok = False
                for (of, on, oc) in origins(g, rd, sf, m['args'][0], rp.ctx):
                    for j in of.subtree(on['i']):
                        x = of.nodes[j]
                        if x['k'] == 'call' and strip_targs(x.get('c', '')).endswith('Context::GetValue'):
                            if any(of.nodes[k].get('k') == 'ref' and (of.nodes[k].get('qn') or '').endswith(key) for a in x['args'] for k in of.subtree(a)):
                                src_ok = True
                if not src_ok:
                    bad = (rp, 'the value returned is not read from GetValue(%s)' % key)
                elif not _read_behind_holds(g, sf, m, rp):
                    bad = (rp, 'the stored alternative is read without holds_alternative having been true')
                else:
                    stored += 1
                continue
            if fname.endswith('GetSpan') and any(k.split('|')[0] == 'GetInvalid' for k in calls):
                continue   # the invalid default span
            bad = (rp, 'returns a value that is neither the stored %s nor the default: {%s}' % (alt.split('::')[-1], ','.join(sorted(k.split('|')[0] for k in calls)) or e['k']))
        if bad is None and not stored:
            bad = (rets[0] if rets else None, 'never returns the value stored under %s' % key)
        ck.verdict(bad is None, rule, f, site, bad[0].n if bad and bad[0] else None,
                   '%s returns the %s stored under %s (behind holds_alternative) or the default' % (fname.split('::')[-1], alt.split('::')[-1], key) if bad is None else
                   '%s: %s — the parent decision table is evaluated on a different fact than the Context holds' % (fname.split('::')[-1], bad[1]))


def rule_r3(ck, prog, f, g, rd, parent_vid, rule='C05.R3'):
    ctor = [p for p in g.calls('trace::SpanContext::SpanContext') if len(p.n.get('args', [])) >= 4]
    if not ctor:
        raise AnalysisBroken('Tracer::StartSpan: construction of the new SpanContext vanished')
    sc = ctor[0]
    args = sc.n['args']

    def parent_valid_edge(want):
        def pred(a, b, lab):
            if not lab or not isinstance(lab[0], int):
                return False
            core, pol = norm_cond(lab[1], lab[0])
            cn = lab[1].nodes[core]
            if cn['k'] == 'call' and strip_targs(cn.get('c', '')).endswith('SpanContext::IsValid') and \
                    cn.get('obj') is not None and strip_casts(lab[1], cn['obj']).get('id') == parent_vid:
                return (lab[2] if pol else not lab[2]) is want
            return False
        return pred
    def parent_valid_call(ff, cn):
        return strip_targs(cn.get('c', '')).endswith('SpanContext::IsValid') and cn.get('obj') is not None and \
            strip_casts(ff, cn['obj']).get('id') == parent_vid
    # trace id (decided by pinning the validity test of the parent: named booleans and rewritten guards are folded)
    tn = strip_casts(f, args[0])
    ok = True
    why = []
    if tn['k'] == 'ref':
        pt = g.point_of.get((id(sc.ctx), tn['i']))
        defs = [g.points[d] for (v, d) in rd.get(pt.id if pt else sc.id, ()) if v == tn['id']]
        kinds = {}
        for dp in defs:
            val = [vx for (v, s, vx) in defs_in_node(f, dp.n) if v == tn['id']][0]
            if val is None:
                continue
            names = {strip_targs(f.nodes[j].get('c', '')).rsplit('::', 1)[-1] for j in f.subtree(val) if f.nodes[j]['k'] == 'call'}
            if 'trace_id' in names:
                kinds['parent'] = dp
                if not gated_by(g, [dp], parent_valid_call, True)[0]:
                    ok = False
                    why.append('the parent\'s trace id is taken on a path where the parent is not known valid')
            elif 'GenerateTraceId' in names:
                kinds['fresh'] = dp
                if not gated_by(g, [dp], parent_valid_call, False)[0]:
                    ok = False
                    why.append('a fresh trace id is generated although the parent is valid: the child leaves its parent\'s trace')
            else:
                ok = False
                why.append('trace id from %s' % ','.join(sorted(names)))
        if set(kinds) != {'parent', 'fresh'}:
            ok = False
            why.append('trace id sources are %s, expected parent and GenerateTraceId' % sorted(kinds))
    else:
        ok = False
        why.append('trace id argument is not a local')
    if not ok and tn['k'] == 'ref' and not kinds:
        # neither source is visible in this function (the id arrives through a helper's result, a pair, a struct): not decided
        ck.inconclusive(rule, f, 'trace-id-source', sc.n, 'the trace id of the new context is produced outside the expressions of StartSpan (helper result / aggregate): its two sources are not visible to this rule')
    else:
        ck.verdict(ok, rule, f, 'trace-id-source', sc.n, 'parent\'s trace id on the valid edge, GenerateTraceId otherwise' if ok else '; '.join(why))
    # span id
    srcs = origins(g, rd, f, args[1], sc.ctx)
    ok = bool(srcs) and all(sn['k'] == 'call' and strip_targs(sn.get('c', '')).endswith('GenerateSpanId') for (_f, sn, _c) in srcs)
    ck.verdict(ok, rule, f, 'span-id-fresh', sc.n, 'span id always from GenerateSpanId' if ok else 'the span id of the new context does not always come from GenerateSpanId')
    # remote flag false
    ok = f.nodes[args[3]].get('v') == 0 or strip_casts(f, args[3]).get('v') == 0
    ck.verdict(ok, rule, f, 'not-remote', sc.n, 'is_remote is false' if ok else 'a locally started span is marked remote')
    # trace state: sampler's if set, else parent's when the parent is valid, else the default - decided per scenario: the
    # conditions that test "sampler supplied a state" / "parent valid" are classified by what they are computed from, the flow is
    # restricted to the scenario, and the argument is resolved through conditional expressions and locals
    ok = False
    ts_why = ''
    if len(args) >= 5:
        sr_vars = {d['id'] for n in f.nodes if n['k'] == 'declstmt' for d in n['decls'] if 'SamplingResult' in d['t']}

        def is_sampler_state(sf, idx):
            n = strip_casts(sf, idx)
            return n['k'] == 'member' and n['name'] == 'trace_state' and n.get('base') is not None and strip_casts(sf, n['base']).get('id') in sr_vars

        def atom_role(ff, cnd, ctx):
            core, pol = norm_cond(ff, cnd)
            cn = strip_casts(ff, core)
            if cn['k'] == 'call' and is_transparent_call(cn) and cn.get('args'):
                cn = strip_casts(ff, cn['args'][0])
            if cn['k'] == 'call' and strip_targs(cn.get('c', '')).endswith('shared_ptr::operator bool') and cn.get('obj') is not None:
                cn = strip_casts(ff, cn['obj'])
            if is_sampler_state(ff, cn['i']):
                return 'samplerSet', pol
            if cn['k'] == 'call' and strip_targs(cn.get('c', '')).endswith('SpanContext::IsValid') and cn.get('obj') is not None and \
                    strip_casts(ff, cn['obj']).get('id') == parent_vid:
                return 'parentValid', pol
            if cn['k'] == 'ref' and cn.get('sk') == 'local':
                t = cn.get('t') or ''
                if 'bool' in t:
                    # a flag: every definition "true" is behind the parent-valid edge, every other definition is the literal false
                    defs_all = [(p_, vx) for p_ in g.points if p_.n is not None for (v, st, vx) in defs_in_node(p_.f, p_.n) if v == cn['id']]
                    trues = [p_ for (p_, vx) in defs_all if vx is not None and strip_casts(p_.f, vx).get('v') == 1]
                    rest = [p_ for (p_, vx) in defs_all if not (vx is not None and strip_casts(p_.f, vx).get('v') in (0, 1))]
                    if trues and not rest and all(g.must_pass_edge(p_, parent_valid_edge(True)) for p_ in trues):
                        return 'parentValid', pol
                    # a named result of the validity test itself: `const bool has_valid_parent = parent.IsValid();`
                    pols = set()
                    for (p_, vx) in defs_all:
                        if vx is None:
                            pols.add(None)
                            continue
                        c2, pol2 = norm_cond(p_.f, vx)
                        n2 = strip_casts(p_.f, c2)
                        pols.add(pol2 if (n2['k'] == 'call' and parent_valid_call(p_.f, n2)) else None)
                    if len(pols) == 1 and None not in pols:
                        return 'parentValid', (pol if pols.pop() else not pol)
                else:
                    srcs = origins(g, rd, ff, cn['i'], ctx)
                    if srcs and all(is_sampler_state(sf, sn['i']) for (sf, sn, sc_) in srcs):
                        return 'samplerSet', pol
            return None, pol

        def resolve(ff, idx, ctx, scen, rds, depth=0):
            n = strip_casts(ff, idx)
            if depth > 8:
                return {'other:depth'}
            if n['k'] == 'construct' and n.get('copymove') and len(n.get('args', [])) == 1:
                return resolve(ff, n['args'][0], ctx, scen, rds, depth + 1)
            if n['k'] == 'cond':
                role, pol = atom_role(ff, n['cnd'], ctx)
                if role in scen:
                    truth = scen[role] if pol else (not scen[role])
                    return resolve(ff, n['a'] if truth else n['b'], ctx, scen, rds, depth + 1)
                return resolve(ff, n['a'], ctx, scen, rds, depth + 1) | resolve(ff, n['b'], ctx, scen, rds, depth + 1)
            if is_sampler_state(ff, n['i']):
                return {'sampler'}
            if n['k'] == 'call' and strip_targs(n.get('c', '')).endswith('SpanContext::trace_state') and n.get('obj') is not None and \
                    strip_casts(ff, n['obj']).get('id') == parent_vid:
                return {'parent'}
            if n['k'] == 'call' and strip_targs(n.get('c', '')).endswith('TraceState::GetDefault'):
                return {'default'}
            if n['k'] == 'ref' and n.get('sk') == 'local':
                pt = g.point_of.get((id(ctx), n['i']))
                out = set()
                for (v, d) in rds.get(pt.id if pt else sc.id, ()):
                    if v != n['id']:
                        continue
                    dp = g.points[d]
                    for (vv, st, vx) in defs_in_node(dp.f, dp.n):
                        if vv == n['id'] and vx is not None and vx != dp.n['i']:
                            out |= resolve(dp.f, vx, dp.ctx, scen, rds, depth + 1)
                return out or {'other:undefined'}
            return {'other:' + n['k']}
        ok = True
        for (sname, scen, want) in (('sampler supplied a state', {'samplerSet': True}, {'sampler'}),
                                    ('no sampler state, valid parent', {'samplerSet': False, 'parentValid': True}, {'parent'}),
                                    ('no sampler state, no valid parent', {'samplerSet': False, 'parentValid': False}, {'default'})):
            def skip(a, b, lab, _scen=scen):
                if not lab or not isinstance(lab[0], int):
                    return False
                role, pol = atom_role(lab[1], lab[0], a.ctx)
                if role not in _scen:
                    return False
                truth = lab[2] if pol else (not lab[2])
                return truth is not _scen[role]
            rds = reaching_defs(g, skip_edge=skip)
            got = resolve(f, args[4], sc.ctx, scen, rds)
            if got != want:
                ok = False
                ts_why = 'scenario "%s": the trace state comes from %s, expected %s' % (sname, sorted(got), sorted(want))
    ck.verdict(ok, rule, f, 'trace-state-source', sc.n,
               'trace state = sampler\'s if set, else parent\'s when the parent is valid, else default' if ok else
               'the trace state of the new context is not sampler\'s-if-set / parent\'s-when-valid / default (%s)' % ts_why)
    return sc


def rule_r4(ck, prog, f, g, rd, sc, rule='C05.R4'):
    def rec_edge(want):
        def pred(a, b, lab):
            if not lab or not isinstance(lab[0], int):
                return False
            core, pol = norm_cond(lab[1], lab[0])
            cn = lab[1].nodes[core]
            if cn['k'] == 'call' and qmatch(cn.get('c', ''), 'SamplingResult::IsRecording'):
                return (lab[2] if pol else not lab[2]) is want
            return False
        return pred
    noop = g.calls('trace::NoopSpan::NoopSpan')
    real = g.calls('sdk::trace::Span::Span')
    if not noop or not real:
        raise AnalysisBroken('Tracer::StartSpan: NoopSpan / Span construction vanished')
    ok = all(g.must_pass_edge(p, rec_edge(False)) for p in noop) and all(g.must_pass_edge(p, rec_edge(True)) for p in real)
    ck.verdict(ok, rule, f, 'recording-split', real[0].n,
               'NoopSpan only on the not-recording edge, SDK Span only on the recording edge' if ok else
               'a span the sampler does not record can reach the SDK Span constructor (it would be exported), or a recorded one becomes a no-op')
    # both get the context built above
    ctxvar = None
    for p in g.points:
        if p.n is not None and p.n['k'] == 'declstmt':
            for d in p.n['decls']:
                if 'init' in d and sc.n['i'] in f.subtree(d['init']):
                    ctxvar = d['id']
    ok = ctxvar is not None and all(any(f.nodes[j]['k'] == 'ref' and f.nodes[j].get('id') == ctxvar for a in p.n.get('args', []) for j in f.subtree(a))
                                    for p in noop + real)
    ck.verdict(ok, rule, f, 'same-context-both-ways', noop[0].n,
               'both span kinds receive the span context built from the decision' if ok else
               'the no-op (not recorded) span does not expose the span context computed for it')
    # the SDK span gets the resolved parent
    return ok


def rule_r5(ck, prog, rule='C05.R5'):
    eng = [g for g in prog.globals.values() if g['qn'].endswith('TlsRandomNumberGenerator::engine_')]
    if not eng:
        raise AnalysisBroken('random engine not found')

    class _G:
        def __init__(self, g):
            self.qn = g['qn']
            self.g = g
        def loc(self, n=None):
            return '%s:%d' % (self.g['file'].replace('/repo/', ''), self.g['line'])
    ck.verdict(eng[0]['storage'] == 'thread', rule, _G(eng[0]), 'engine-thread-local', None,
               'random engine has thread storage' if eng[0]['storage'] == 'thread' else 'the random engine is shared by all threads (data race, correlated ids)')
    guard = [g for g in prog.globals.values() if g.get('in_fn', '').startswith('opentelemetry::sdk::common::Random::GetRandomNumberGenerator')]
    ok = bool(guard) and all(g['storage'] == 'thread' for g in guard)
    if guard:
        ck.verdict(ok, rule, _G(guard[0]), 'seeding-guard-thread-local', None,
                   'per-thread seeding guard' if ok else 'the object whose constructor seeds the engine is not thread_local: only the first thread is seeded')
    else:
        raise AnalysisBroken('seeding guard object not found')
    # the seed is built per call from std::random_device
    for f in prog.functions('TlsRandomNumberGenerator::Seed'):
        g = Graph(prog, f, inline=None, sync_lambdas=False)
        rd = reaching_defs(g)
        seeds = [p for p in g.points if p.n is not None and p.n['k'] == 'call' and strip_targs(p.n.get('c', '')).rsplit('::', 1)[-1] == 'seed']
        if not seeds:
            ck.violation(rule, f, 'seed-per-thread', None, 'Seed() never seeds the engine')
            continue
        for sp in seeds:
            a = strip_casts(f, sp.n['args'][0]) if sp.n.get('args') else None
            statics = [f.nodes[j] for j in f.subtree(sp.n['i']) if f.nodes[j]['k'] == 'ref' and f.nodes[j].get('sk') in ('static_local', 'global')
                       and not f.nodes[j]['name'].startswith('engine_') and f.nodes[j].get('sk') != 'tls']
            statics = [s for s in statics if s.get('qn', '') not in (eng[0]['qn'],)]
            decls = [d for n in f.nodes if n['k'] == 'declstmt' for d in n['decls'] if d.get('static')]
            rdev = [n for n in f.nodes if n['k'] == 'call' and strip_targs(n.get('c', '')).startswith('std::random_device::operator()')]
            ok = not statics and not decls and bool(rdev)
            ck.verdict(ok, rule, f, 'seed-per-thread', sp.n,
                       'engine seeded from a fresh std::random_device seed in every call' if ok else
                       'the seed handed to the per-thread engine is a static object (%s): every thread is seeded identically and produces the same id sequence' %
                       ','.join([d['name'] for d in decls] + [s['name'] for s in statics]) if (statics or decls) else 'the seed does not come from std::random_device')
    st = [g for g in prog.globals.values() if g.get('in_fn', '').startswith('opentelemetry::context::ThreadLocalContextStorage::GetStack')]
    if not st:
        raise AnalysisBroken('runtime context stack storage not found')
    ck.verdict(st[0]['storage'] == 'thread', rule, _G(st[0]), 'context-stack-thread-local', None,
               'context stack has thread storage' if st[0]['storage'] == 'thread' else 'the runtime context stack is shared between threads: another thread\'s active span becomes the parent')


def rule_r6(ck, prog, rule='C05.R6'):
    """every inline StartSpan overload of the API Tracer hands each of its parameters (name, attributes, links, options) on to the
    overload it forwards to: an overload that drops `options` silently ignores the explicit parent / root marker / kind"""
    cnt = 0
    for f in sorted(prog.functions('trace::Tracer::StartSpan'), key=lambda x: x.key):
        if not f.blocks or not f.qn.startswith('opentelemetry::trace::Tracer'):
            continue
        inner = [n for n in f.nodes if n['k'] == 'call' and strip_targs(n.get('c', '')).endswith('trace::Tracer::StartSpan')]
        if len(inner) != 1:
            continue
        cnt += 1
        call = inner[0]
        used = set()
        for a in call.get('args', []):
            if a is None or a < 0:
                continue
            for j in f.subtree(a):
                if f.nodes[j]['k'] == 'ref' and f.nodes[j].get('sk') == 'param':
                    used.add(f.nodes[j]['id'])
        missing = [p['name'] for p in f.params if p['id'] not in used]
        defaulted = bool(call.get('defargs'))
        site = 'forwards-all(%s)' % ','.join(re.sub(r'opentelemetry::|std::|const | &', '', p['t'])[:22] for p in f.params[1:])
        ok = not missing and not defaulted
        ck.verdict(ok, rule, f, site, call, 'name, attributes, links and options are all handed on' if ok else
                   'this StartSpan overload does not hand on %s%s: the span is started as if the caller had not supplied it (explicit parent, root marker, kind and timestamps live in the options)' %
                   (', '.join(missing) or 'every parameter', ' (the callee\'s default is used instead)' if defaulted else ''))
    if cnt < 6:
        raise AnalysisBroken('only %d inline StartSpan overloads instantiated in the driver unit (6 expected)' % cnt)


def run(ck, prog):
    ck.doc('C05.R1', 'bit provenance of the flags byte: sampled bit = sampler decision, only level-1 bits', 2)
    ck.doc('C05.R2', 'parent precedence decision table (6 scenarios over restricted reaching definitions); IsRootSpan/GetSpan report what the Context stores; sampler (asked on every path) and recording Span receive the resolved parent', 10)
    ck.doc('C05.R3', 'sources of trace id, span id, remote flag and trace state of the new context', 4)
    ck.doc('C05.R4', 'not-recording edge => NoopSpan with the same context; recording edge => SDK Span', 2)
    ck.doc('C05.R5', 'thread storage of the random engine, its seeding guard and the context stack; per-thread seed', 4)
    ck.doc('C05.R6', 'every inline StartSpan overload of the API Tracer forwards all of its parameters', 6)
    cf = prog.function('canary::c05::BadTracer::StartSpan')
    with ck.canary('C05.R1'):
        rule_r1(ck, prog, cf)
    with ck.canary('C05.R2'):
        rule_r2(ck, prog, cf, need_span=False)
    f = prog.function('sdk::trace::Tracer::StartSpan')
    rule_r1(ck, prog, f)
    g, rd, sink, vid = rule_r2(ck, prog, f)
    rule_r2_predicates(ck, prog)
    if vid is not None:
        sc = rule_r3(ck, prog, f, g, rd, vid)
        rule_r4(ck, prog, f, g, rd, sc)
    rule_r5(ck, prog)
    rule_r6(ck, prog)
    # what the exporter sees of the identity (ids, parent span id, flags) is what StartSpan computed: the Span constructor rule of C04
    from . import c04
    ck.doc('C04.R5', '(shared rule, see C04) Span constructor: identity, flags and parent id reach the recordable from the span\'s own context / the resolved parent', 10)
    c04.rule_r5(ck, prog)
    return {}
