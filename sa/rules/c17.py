"""C17 - gauges report the latest value; observables are read once per collection (structural part)."""
from ..ir import AnalysisBroken, strip_targs, qmatch
from ..graph import Graph
from ..expr import access_path, path_str, held_locks, reaching_defs, norm_cond, origins, leaves, defs_in_node
from .common import strip_casts, short, comparison, FLIP, callbacks_never_stop, loops_over, subtree_through_locals, once_init
from . import c06, c08

UNITS = ['sdk/src/metrics/state/observable_registry.cc', 'sdk/src/metrics/async_instruments.cc',
         'sdk/src/metrics/aggregation/lastvalue_aggregation.cc', 'sdk/src/metrics/aggregation/sum_aggregation.cc',
         'sdk/src/metrics/state/temporal_metric_storage.cc', 'sdk/src/metrics/meter.cc', 'sdk/src/metrics/state/metric_collector.cc']
DRIVERS = ['metrics_headers.cc']
CANARIES = ['c17_canary.cc']

EXPLANATION = (
    'C17.R1 (lock + typestate): ObservableRegistry touches its callback list only under its mutex; Observe iterates the member '
    'list itself and invokes each record\'s callback while holding that mutex (so RemoveCallback/CleanupCallback cannot return '
    'while the callback may still run), exactly once per iteration on every path, followed by the storage Record of the matching '
    'value type; the observable instrument\'s destructor calls CleanupCallback(this). C17.R2 (dominance): Meter::Collect calls '
    'Observe before the loop over the storages. C17.R3 (siblings): {Long,Double}LastValueAggregation::Merge/Diff return the '
    'receiver\'s data only on a strictly later timestamp (ties go to the argument); Aggregate sets valid, value and timestamp '
    'under the lock. C17.R4 (forwarding): AsyncMetricStorage::Record updates the cumulative and the delta table for the '
    'measurement\'s key on both branches, the delta being prev->Diff(current). C17.R5 (last-write-wins): ObserverResultT::Observe '
    'stores with an overwriting form. C17.R6: the reader fan-out rules of buildMetrics (C06.R3) hold, so a delta reader gets the '
    'difference from what that same reader was last given.')
EXPLANATION += ' C17.R1 also requires RemoveCallback to compare every field AddCallback stores. C17.R5 (decision tables by conditional constant propagation over the enumerators): an explicit Sum view gives each instrument type the monotonicity the default selection gives it; MetricCollector::GetAggregationTemporality returns cumulative on every path for (delta, synchronous gauge).'
ROUND2_EXPLANATION = (' C17.R8: every local of an ObserverResult type used in the callback loop of ObservableRegistry::Observe is created inside the iteration that uses it (strict). Shared C06.R9: folding accumulates.')
ROUND2_EXPLANATION += (' C17.R4 also: the value stored into the per-collector delta table is the result of the Diff call itself, not one of its operands.')
ROUND2_EXPLANATION += (" C17.R4 also: every method of AsyncMetricStorage touches the cumulative / delta table members only while holding the storage lock; in Record's loop every table lookup / update is keyed by the iteration element's own attributes and Aggregate receives its own value. C17.R5 folds a helper that computes the monotonicity flag under the pinned instrument type.")
ROUND2_EXPLANATION += (' C17.R4 also (decision table of the typed record entries): every effect of RecordLong / RecordDouble of the sync and async storages lies behind value_type_ == kLong / kDouble.')
EXPLANATION += ROUND2_EXPLANATION
NOT_DECIDED = 'numeric deltas across readers over arbitrary histories.'


def rule_r1(ck, prog, rule='C17.R1', cls='sdk::metrics::ObservableRegistry'):
    rec = prog.record(cls)
    mutexes = [fd['name'] for fd in rec['fields'] if 'mutex' in fd['t'].lower()]
    lists = [fd['name'] for fd in rec['fields'] if 'vector<' in fd['t'] or 'list<' in fd['t']]
    if not mutexes or not lists:
        raise AnalysisBroken('%s: mutex / callback list member not found' % cls)
    lst = lists[0]
    for f in sorted([x for x in prog.funcs.values() if x.cls == rec['qn'] and x.kind not in ('ctor', 'dtor') and not x.d.get('lambda')], key=lambda x: x.line):
        g = Graph(prog, f, inline=None, sync_lambdas=True)
        held = held_locks(g)
        acc = [p for p in g.points if p.n is not None and p.n['k'] == 'member' and access_path(p.f, p.n['i'], p.ctx) == ('this', lst)]
        if not acc:
            continue
        unl = [p for p in acc if 'this.' + mutexes[0] not in held.get(p.id, ())]
        ck.verdict(not unl, rule, f, '%s:list-locked' % f.name, (unl or acc)[0].n, 'callback list touched under %s' % mutexes[0] if not unl else
                   'the callback list is touched without %s' % mutexes[0])
    f = [x for x in prog.funcs.values() if x.cls == rec['qn'] and x.name == 'Observe'][0]
    g = Graph(prog, f, inline=None, sync_lambdas=False)
    held = held_locks(g)
    rd = reaching_defs(g)
    invokes = [p for p in g.points if p.n is not None and p.n['k'] == 'call' and p.n.get('fx') is not None and
               f.nodes[p.n['fx']]['k'] == 'member' and f.nodes[p.n['fx']]['name'] == 'callback']
    if not invokes:
        raise AnalysisBroken('Observe: callback invocation not found')
    unl = [p for p in invokes if 'this.' + mutexes[0] not in held.get(p.id, ())]
    ck.verdict(not unl, rule, f, 'callback-invoked-under-lock', (unl or invokes)[0].n, 'callbacks run holding %s' % mutexes[0] if not unl else
               'a callback is invoked without holding %s: RemoveCallback / the instrument destructor can return while the callback is still going to run (removed callback invoked again, use of a destroyed instrument)' % mutexes[0])
    from .common import iteration_starts
    inv_loop = None
    pm = f.parent_map()
    x = invokes[0].n['i']
    while x in pm:
        x = pm[x]
        if f.nodes[x]['k'] in ('forrange', 'for', 'while'):
            inv_loop = f.nodes[x]
            break
    # the record whose callback runs is an element of the member list itself (range-for over it, or indexed / iterated access to
    # it), never of a local copy of the list
    def from_member_list(idx, ctx, depth=4):
        members, copies = set(), False
        for (sf, sn, sc) in origins(g, rd, f, idx, ctx):
            for j in sf.subtree(sn['i']):
                m = sf.nodes[j]
                if m['k'] == 'member' and m.get('mk') != 'method':
                    members.add(m['name'])
                elif m['k'] == 'ref' and m.get('sk') == 'local' and j != idx and depth > 0:
                    t = (m.get('t') or '')
                    dt = [d['t'] for nn in sf.nodes if nn['k'] == 'declstmt' for d in nn['decls'] if d['id'] == m.get('id')]
                    if dt and ('vector<' in dt[0] or 'list<' in dt[0]) and not dt[0].rstrip().endswith('&') and 'unique_ptr<' not in dt[0].split('vector<')[0]:
                        copies = True
                    mm, cc = from_member_list(j, sc, depth - 1)
                    members |= mm
                    copies = copies or cc
        return members, copies
    base = f.nodes[invokes[0].n['fx']].get('base')
    root = base
    members, copies = from_member_list(root, invokes[0].ctx) if root is not None else (set(), False)
    if inv_loop is not None and inv_loop['k'] == 'forrange':
        if access_path(f, inv_loop['range']) == ('this', lst):
            members.add(lst)
        else:
            mm, cc = from_member_list(inv_loop['range'], g.root_ctx)
            members |= mm
            copies = copies or cc or (f.nodes[inv_loop['range']]['k'] == 'ref' and f.nodes[inv_loop['range']].get('sk') == 'local')
    ok = inv_loop is not None and lst in members and not copies
    ck.verdict(ok, rule, f, 'iterates-the-registered-list', inv_loop, 'the callbacks are invoked from a loop over the member list' if ok else
               'callbacks are invoked from a copy/snapshot of the list, not from the registered list itself: removals made meanwhile are not seen')
    # exactly once per iteration, on every path that does not leave the loop through the named early exit
    if inv_loop is not None:
        body_pts = [p for p in g.points if p.n is not None and p.n['i'] in set(f.subtree(inv_loop['body']))]
        iter_start = iteration_starts(g, f, inv_loop)
        twice = any(b.id in g.reachable_from([q for (q, _l) in a.succ], avoid=iter_start) for a in invokes for b in invokes)
        recs = [p for p in g.points if p.n is not None and p.n['k'] == 'call' and p.n.get('virt') and strip_targs(p.n.get('c', '')).rsplit('::', 1)[-1] in ('RecordLong', 'RecordDouble')]
        followed = all(g.must_reach(a, recs, stop=iter_start) for a in invokes)
        kinds = {}
        for a in invokes:
            t = ''
            for arg in a.n.get('args', [])[:1]:
                refs = [f.nodes[i] for i in f.subtree(arg) if f.nodes[i]['k'] == 'ref' and 'ObserverResultT<' in (f.nodes[i].get('t') or '')]
                t = 'double' if any('ObserverResultT<double>' in r['t'] for r in refs) else 'long'
            nxt = [r for r in recs if r.id in g.reachable_from([q for (q, _l) in a.succ], avoid=iter_start)]
            kinds[a.id] = ('double' in t, {strip_targs(r.n['c']).rsplit('::', 1)[-1] for r in nxt[:1]})
        match = all((k[0] and 'RecordDouble' in k[1]) or (not k[0] and 'RecordLong' in k[1]) for k in kinds.values())
        ck.verdict(not twice and followed and match and len(invokes) == 2, rule, f, 'once-per-record-then-matching-record', invokes[0].n,
                   'one invocation per record, followed by the storage Record of the same value type' if not twice and followed and match and len(invokes) == 2 else
                   'a record\'s callback can run twice in one collection, is not followed by the storage Record, or feeds the Record of the other value type')
    d = prog.function('sdk::metrics::ObservableInstrument::~ObservableInstrument')
    calls = [n for n in d.nodes if n['k'] == 'call' and strip_targs(n.get('c', '')).endswith('ObservableRegistry::CleanupCallback')]
    ok = len(calls) == 1 and d.nodes[calls[0]['args'][0]]['k'] == 'this'
    ck.verdict(ok, rule, d, 'destructor-cleans-up', calls[0] if calls else None, 'destructor removes the instrument\'s callbacks' if ok else
               'the observable instrument\'s destructor does not remove its callbacks: a later collection calls into a destroyed instrument')


def rule_r2(ck, prog, rule='C17.R2'):
    f = prog.function('sdk::metrics::Meter::Collect')
    g = Graph(prog, f, inline=None, sync_lambdas=False)
    obs = g.calls('ObservableRegistry::Observe')
    cols = [p for p in g.points if p.n is not None and p.n['k'] == 'call' and p.n.get('virt') and strip_targs(p.n.get('c', '')).endswith('MetricStorage::Collect')]
    ok = len(obs) == 1 and bool(cols) and all(g.must_pass(c, obs) for c in cols)
    ck.verdict(ok, rule, f, 'observe-before-storage-collect', obs[0].n if obs else None, 'Observe dominates every storage Collect' if ok else
               'a storage can be collected before (or without) the observable callbacks having been read for this collection')


def rule_r3(ck, prog, rule='C17.R3'):
    for cls in ('sdk::metrics::LongLastValueAggregation', 'sdk::metrics::DoubleLastValueAggregation'):
        rec = prog.record(cls)
        for name in ('Merge', 'Diff'):
            f = [x for x in prog.funcs.values() if x.cls == rec['qn'] and x.name == name][0]
            g = Graph(prog, f, inline=None, sync_lambdas=False)
            pid = f.params[0]['id']
            # scenario table over the comparison of the two sample timestamps (receiver later / equal / earlier): the comparison is
            # pinned, the feasible returns are collected and the point data each of them is built from is followed to its owner
            from ..symb import explore_pinned

            def who(idx):
                refs = [f.nodes[i] for i in f.subtree(idx) if f.nodes[i]['k'] == 'ref' and f.nodes[i].get('id') == pid]
                return 'arg' if refs else 'this'
            cmps = []
            for n in f.nodes:
                c = comparison(f, n['i'])
                if c and c[0] in ('<', '<=', '>', '>=') and {who(c[1]), who(c[2])} == {'this', 'arg'}:
                    op = c[0] if who(c[1]) == 'this' else FLIP[c[0]]
                    cmps.append((n['i'], op))      # this <op> arg
            TRUTH = {'gt': {'>': True, '>=': True, '<': False, '<=': False}, 'eq': {'>': False, '>=': True, '<': False, '<=': True},
                     'lt': {'>': False, '>=': False, '<': True, '<=': True}}

            def owner(idx, pins, depth=0):
                n = once_init(f, idx)
                if depth > 10:
                    return {'?'}
                if n['k'] == 'this' or (n['k'] == 'unop' and n['op'] == '*' and strip_casts(f, n['e'])['k'] == 'this'):
                    return {'this'}
                if n['k'] == 'ref' and n.get('id') == pid:
                    return {'arg'}
                if n['k'] == 'cond':
                    from ..symb import eval3
                    env = {}
                    cn = once_init(f, n['cnd'])
                    t = eval3(f, cn['i'], env, pins) if 'i' in cn else None
                    if t is True:
                        return owner(n['a'], pins, depth + 1)
                    if t is False:
                        return owner(n['b'], pins, depth + 1)
                    return owner(n['a'], pins, depth + 1) | owner(n['b'], pins, depth + 1)
                if n['k'] == 'call':
                    last = strip_targs(n.get('c', '')).rsplit('::', 1)[-1]
                    if last == 'ToPoint' and n.get('obj') is not None:
                        return owner(n['obj'], pins, depth + 1)
                    if last == 'ToPoint' and n.get('obj') is None:
                        return {'this'}
                    args = [a for a in n.get('args', []) if a is not None and a >= 0]
                    if len(args) == 1 and n.get('obj') is None:
                        return owner(args[0], pins, depth + 1)      # nostd::get<...>(x), std::move(x)
                if n['k'] == 'construct' and len([a for a in n.get('args', []) if a is not None and a >= 0]) == 1:
                    return owner([a for a in n['args'] if a is not None and a >= 0][0], pins, depth + 1)
                if n['k'] == 'member' and n.get('base') is not None:
                    return owner(n['base'], pins, depth + 1)
                return {'?'}
            table = {}
            for scen in ('gt', 'eq', 'lt'):
                pins = {ni: TRUTH[scen][op] for (ni, op) in cmps}
                rets_, _ = explore_pinned(g, pins)
                got = set()
                for (ri, _v, _e) in rets_:
                    if ri is None:
                        got.add('?')
                        continue
                    news = [f.nodes[k] for k in f.subtree(f.nodes[ri]['e']) if f.nodes[k]['k'] == 'new']
                    init = f.nodes[news[0]['init']] if news and news[0].get('init') is not None else None
                    a0 = [a for a in (init or {}).get('args', []) if a is not None and a >= 0]
                    got |= owner(a0[0], pins) if a0 else {'?'}
                table[scen] = got
            ok = bool(cmps) and table == {'gt': {'this'}, 'eq': {'arg'}, 'lt': {'arg'}}
            why = 'receiver later -> %s, equal timestamps -> %s, receiver earlier -> %s' % tuple('|'.join(sorted(table[k_])) for k_ in ('gt', 'eq', 'lt'))
            conds = [f.nodes[cmps[0][0]]] if cmps else []
            ck.verdict(ok, rule, f, '%s-tie-break' % name.lower(), conds[0] if conds else None,
                       'receiver only on a strictly later timestamp, otherwise the argument (scenario table over the timestamp comparison)' if ok else
                       '%s::%s: %s: on equal timestamps the older/receiver value is reported instead of the most recent one' % (cls.rsplit('::', 1)[-1], name, why))
        ty = 'long' if 'Long' in cls else 'double'
        f = [x for x in prog.funcs.values() if x.cls == rec['qn'] and x.name == 'Aggregate' and x.params and x.params[0]['t'] == ty][0]
        g = Graph(prog, f, inline=None, sync_lambdas=False)
        held = held_locks(g)
        flds = {}
        for p in g.points:
            n = p.n
            if n is None:
                continue
            tgt = n['lhs'] if (n['k'] == 'binop' and n['op'] == '=') else (n.get('obj') if (n['k'] == 'call' and n.get('op') == '=') else None)
            if tgt is None:
                continue
            ap = access_path(f, tgt, p.ctx)
            if ap[:2] == ('this', 'point_data_') and len(ap) == 3:
                flds[ap[2]] = (p, any(l.startswith('this.') for l in held.get(p.id, ())))
        need = {'is_lastvalue_valid_', 'value_', 'sample_ts_'}
        ok = need <= set(flds) and all(v[1] for v in flds.values()) and g.exit.id not in g.reachable_from(g.entry, avoid=[flds[k][0] for k in need if k in flds][:1])
        if ok:
            vp = flds['value_'][0].n
            rhs = vp['rhs'] if vp['k'] == 'binop' else vp['args'][0]
            ok = strip_casts(f, rhs).get('id') == f.params[0]['id']
        ck.verdict(ok, rule, f, 'aggregate-sets-all', None, 'valid flag, value and timestamp set under the lock' if ok else
                   'Aggregate does not set the valid flag, the value (from the parameter) and the timestamp under the lock')


def rule_r4_tables(ck, prog, rule='C17.R4', cls='sdk::metrics::AsyncMetricStorage'):
    """(a) LOCK: every method of the storage touches the cumulative / delta table members only while holding the storage lock
    (Record runs on the collecting thread of one reader while another reader's Collect swaps the delta table);
    (b) per attribute set: in Record's loop the key of every table lookup / update is the iteration element's own key and the value
    aggregated is the element's own value."""
    rec = prog.record(cls)
    tables = [fd['name'] for fd in rec['fields'] if 'AttributesHashMap' in fd['t']]
    locks = [fd['name'] for fd in rec['fields'] if 'mutex' in fd['t'].lower() or 'SpinLock' in fd['t']]
    if len(tables) < 2 or not locks:
        raise AnalysisBroken('%s: table members / lock member not found' % cls)
    n_acc = 0
    for f in sorted([x for x in prog.funcs.values() if x.cls == rec['qn'] and x.kind not in ('ctor', 'dtor') and not x.d.get('lambda')], key=lambda x: (x.line, x.key)):
        g = Graph(prog, f, inline=None, sync_lambdas=True)
        held = held_locks(g)
        acc = [p for p in g.points if p.n is not None and p.n['k'] == 'member' and len(access_path(p.f, p.n['i'], p.ctx)) == 2 and
               access_path(p.f, p.n['i'], p.ctx)[0] == 'this' and access_path(p.f, p.n['i'], p.ctx)[1] in tables]
        if not acc:
            continue
        n_acc += 1
        unl = [p for p in acc if not any(l == 'this.' + lk for lk in locks for l in held.get(p.id, ()))]
        inst = f.key.split(f.name, 1)[1][:12] if '<' in f.key.split(f.name, 1)[1][:2] else ''
        ck.verdict(not unl, rule, f, 'tables-locked:%s%s' % (f.name, inst.split('(')[0]), (unl or acc)[0].n, 'tables touched under %s' % locks[0] if not unl else
                   'AsyncMetricStorage::%s touches %s without holding %s: a Record of one collection and the table swap of another reader\'s Collect race (lost or doubled deltas, use after free)' %
                   (f.name, access_path(unl[0].f, unl[0].n['i'], unl[0].ctx)[1], locks[0]))
    if not n_acc:
        raise AnalysisBroken('%s: no method touches the tables' % cls)
    for f in prog.functions(cls + '::Record'):
        g = Graph(prog, f, inline=None, sync_lambdas=False)
        rd = reaching_defs(g)
        loops = [n for n in f.nodes if n['k'] == 'forrange']
        if not loops:
            ck.inconclusive(rule, f, 'keyed-by-own-attributes', None, 'Record does not walk the measurements with a range-for')
            continue
        var = loops[0]['var']
        body = set(f.subtree(loops[0]['body']))
        site = 'keyed-by-own-attributes<%s>' % ('long' if 'Record<long' in f.key else 'double')
        bad = None
        cnt = 0

        def elem_field(idx, ctx, want):
            # the expression is (through once-initialised locals / references) <loop variable>.first / .second
            for (sf, sn, sc) in origins(g, rd, f, idx, ctx):
                ap = access_path(sf, sn['i'], sc)
                if len(ap) == 2 and ap[0].startswith('local:') and ap[0].split(':')[1] == str(var) and ap[1] == want:
                    continue
                return False
            return True
        for p in g.points:
            n = p.n
            if n is None or n['k'] != 'call' or p.f is not f or n['i'] not in body:
                continue
            nm = strip_targs(n.get('c', '')).rsplit('::', 1)[-1]
            if n.get('obj') is not None and access_path(f, n['obj'], p.ctx)[:1] == ('this',) and access_path(f, n['obj'], p.ctx)[1:2] and \
                    access_path(f, n['obj'], p.ctx)[1] in tables and nm in ('Get', 'Set', 'Has', 'GetOrSetDefault') and n.get('args'):
                cnt += 1
                if not elem_field(n['args'][0], p.ctx, 'first'):
                    bad = (n, '%s(%s) on %s is keyed by something other than the attributes of the measurement being recorded' % (nm, path_str(access_path(f, n['args'][0], p.ctx)), access_path(f, n['obj'], p.ctx)[1]))
            elif nm == 'Aggregate' and n.get('virt') and n.get('args'):
                cnt += 1
                if not elem_field(n['args'][0], p.ctx, 'second'):
                    bad = (n, 'the value aggregated is not the value observed for this attribute set')
        if cnt < 3:
            ck.inconclusive(rule, f, site, loops[0], 'table lookups / Aggregate call in the loop not recognised (%d found)' % cnt)
            continue
        ck.verdict(bad is None, rule, f, site, bad[0] if bad else loops[0], 'every table access in the loop uses the element\'s own key, Aggregate its own value (%d sites)' % cnt if bad is None else
                   'AsyncMetricStorage::Record: %s: totals of one attribute set are compared with / stored under another' % bad[1])


def rule_r4_value_type_gate(ck, prog, rule='C17.R4'):
    """decision table of the typed record entries: RecordLong has an effect only when the instrument's value type is kLong,
    RecordDouble only when it is kDouble (sync and async storage): every aggregation / Record<T> call lies behind the matching
    outcome of the comparison of value_type_ with that enumerator"""
    cnt = 0
    for cls in ('sdk::metrics::AsyncMetricStorage', 'sdk::metrics::SyncMetricStorage'):
        rec = prog.record(cls)
        for f in sorted([x for x in prog.funcs.values() if x.cls == rec['qn'] and x.name in ('RecordLong', 'RecordDouble') and x.blocks], key=lambda x: (x.line, x.key)):
            want = 'kLong' if f.name == 'RecordLong' else 'kDouble'
            g = Graph(prog, f, inline=None, sync_lambdas=False)
            eff = [p for p in g.points if p.n is not None and p.f is f and p.n['k'] == 'call' and
                   (strip_targs(p.n.get('c', '')).rsplit('::', 1)[-1] in ('Aggregate', 'Record', 'GetOrSetDefault') or
                    (p.n.get('ck') in prog.funcs and prog.funcs[p.n['ck']].cls == f.cls and not p.n.get('cconst') and 'bool' not in (p.n.get('t') or '')))]
            if not eff:
                continue
            cnt += 1

            def gate(a, b, lab, _w=want):
                if not lab or not isinstance(lab[0], int) or lab[1] is not f:
                    return False
                core, pol = norm_cond(f, lab[0])
                c = comparison(f, core)
                if not c or c[0] not in ('==', '!='):
                    return False
                sides = [strip_casts(f, c[1]), strip_casts(f, c[2])]
                mem = [x for x in sides if x['k'] == 'member' and 'InstrumentValueType' in (x.get('t') or '')]
                lit = [x for x in sides if x.get('sk') == 'enum' and 'InstrumentValueType' in (x.get('qn') or x.get('t') or '')]
                if not mem or not lit:
                    return False
                is_want = (lit[0].get('qn') or lit[0].get('name') or '').endswith(_w)
                eq = (lab[2] if pol else not lab[2]) is (c[0] == '==')
                return eq if is_want else False
            ok = all(g.must_pass_edge(p, gate) for p in eff)
            if not ok:
                sw = [b['t']['cnd'] for b in f.blocks if b.get('t') and b['t']['k'] == 'SwitchStmt' and 'InstrumentValueType' in (strip_casts(f, b['t']['cnd']).get('t') or '')]
                helper = [n for n in f.nodes if n['k'] == 'call' and n.get('ck') in prog.funcs and prog.funcs[n['ck']].cls == f.cls and 'bool' in (n.get('t') or '')]
                if sw or helper:
                    ck.inconclusive(rule, f, 'value-type-gate:%s::%s(%d params)' % (cls.rsplit('::', 1)[-1], f.name, len(f.params)), eff[0].n,
                                    'the value type is tested by a switch / a helper predicate: not decided')
                    continue
            ck.verdict(ok, rule, f, 'value-type-gate:%s::%s(%d params)' % (cls.rsplit('::', 1)[-1], f.name, len(f.params)), eff[0].n,
                       '%s records only behind value_type_ == %s' % (f.name, want) if ok else
                       '%s::%s records although the instrument\'s value type is not shown to be %s: measurements of the other type are aggregated as this one (or measurements of this type are dropped)' % (cls.rsplit('::', 1)[-1], f.name, want))
    if cnt < 1:
        raise AnalysisBroken('C17.R4: typed record entries of the metric storages not found (%d)' % cnt)


def rule_r4(ck, prog, rule='C17.R4'):
    fs = [f for f in prog.functions('sdk::metrics::AsyncMetricStorage::Record')]
    if not fs:
        raise AnalysisBroken('AsyncMetricStorage::Record not instantiated')
    for f in fs:
        g = Graph(prog, f, inline=None, sync_lambdas=False)
        held = held_locks(g)
        sets = {}
        for p in g.points:
            n = p.n
            if n is not None and n['k'] == 'call' and strip_targs(n.get('c', '')).endswith('AttributesHashMapWithCustomHash::Set') and n.get('obj') is not None:
                ap = access_path(f, n['obj'], p.ctx)
                if ap[0] == 'this':
                    sets.setdefault(ap[1], []).append(p)
        loops = [n for n in f.nodes if n['k'] == 'forrange']
        site = 'record<%s>' % ('long' if 'long' in f.key.split('Record<')[1][:8] else 'double') if 'Record<' in f.key else 'record'
        ok = len(sets) == 2 and bool(loops)
        why = 'the cumulative and the delta table are not both updated'
        if ok:
            # in every iteration both tables are written: from loop body entry to the next iteration each table's Set is passed
            body_first = None
            for p in g.points:
                if p.n is not None and p.n['k'] == 'declstmt' and any(d['id'] == loops[0]['var'] for d in p.n['decls']):
                    body_first = p
            for tbl, pts in sets.items():
                if body_first is None or body_first.id in g.reachable_from([q for (q, _l) in body_first.succ], avoid=pts) :
                    ok = False
                    why = 'an iteration can complete without writing %s' % tbl
                if not all(any(l.startswith('this.') for l in held.get(p.id, ())) for p in pts):
                    ok = False
                    why = '%s is written without the storage lock' % tbl
            diffs = [n for n in f.nodes if n['k'] == 'call' and n.get('virt') and strip_targs(n.get('c', '')).endswith('Aggregation::Diff')]
            if ok and diffs:
                d = diffs[0]
                rd = reaching_defs(g)
                objsrc = origins(g, rd, f, d['obj'], g.root_ctx)
                from_prev = any(sn['k'] == 'call' and strip_targs(sn.get('c', '')).endswith('::Get') and access_path(sf, sn['obj'], sc)[:1] == ('this',) for (sf, sn, sc) in objsrc)
                ok = from_prev
                why = 'the delta is not previous->Diff(current)'
                if ok:
                    # what goes into the delta table on the path of the Diff is the Diff result itself - not the result folded
                    # into something else again (e.g. merged back into the previous total)
                    dvars = {dd['id'] for n_ in f.nodes if n_['k'] == 'declstmt' for dd in n_['decls'] if dd.get('init') is not None and d['i'] in list(f.subtree(dd['init'])) + [dd['init']]}
                    dp = g.point_of.get((id(g.root_ctx), d['i']))
                    after = g.reachable_from([q for (q, _l) in dp.succ]) if dp is not None else set()
                    # the table the Diff result does NOT describe is the one that receives the current observation (aggr)
                    for tbl, pts in sets.items():
                        for p_ in pts:
                            if p_.id not in after or len(p_.n.get('args', [])) < 2:
                                continue
                            v = p_.n['args'][1]
                            sub = [f.nodes[i] for i in list(f.subtree(v)) + [v]]
                            mentions = any(n_['k'] == 'ref' and n_.get('id') in dvars for n_ in sub) or any(n_ is d for n_ in sub)
                            if not mentions:
                                continue
                            vv = strip_casts(f, v)
                            while vv['k'] == 'call' and strip_targs(vv.get('c', '')) in ('std::move', 'std::forward') and vv.get('args'):
                                vv = strip_casts(f, vv['args'][0])
                            while vv['k'] == 'construct' and len(vv.get('args', [])) == 1:
                                vv = strip_casts(f, vv['args'][0])
                                while vv['k'] == 'call' and strip_targs(vv.get('c', '')) in ('std::move', 'std::forward') and vv.get('args'):
                                    vv = strip_casts(f, vv['args'][0])
                            direct = (vv['k'] == 'ref' and vv.get('id') in dvars) or vv is d
                            if not direct:
                                ok = False
                                why = 'the value stored in %s is computed from the Diff result (%s) instead of being the difference itself: a delta reader receives more than what was observed since its last collection' % (
                                    tbl, strip_targs(vv.get('c', '') or vv['k']).rsplit('::', 1)[-1])
            elif ok:
                ok = False
                why = 'no Diff against the previous observation'
        ck.verdict(ok, rule, f, site, loops[0] if loops else None, 'both tables updated on every path; delta = previous->Diff(current)' if ok else
                   'AsyncMetricStorage::Record: %s' % why)


def rule_r1_identity(ck, prog, rule='C17.R1'):
    """RemoveCallback identifies a registration by everything AddCallback stored: every field of the record is compared"""
    rec = prog.record('sdk::metrics::ObservableCallbackRecord')
    fields = {fd['name'] for fd in rec['fields']}
    f = prog.function('sdk::metrics::ObservableRegistry::RemoveCallback')
    lams = [x for x in prog.funcs.values() if x.d.get('lambda') and x.d.get('parent') == f.key]
    if not lams or not fields:
        raise AnalysisBroken('ObservableRegistry::RemoveCallback: predicate / record fields not found')
    # the predicate handed to the removal algorithm (an inline lambda, or a named closure)
    from ..symb import returns_under_pins
    lf = None
    for n in f.nodes:
        if n['k'] == 'call' and strip_targs(n.get('c', '')) in ('std::remove_if', 'std::find_if', 'std::partition', 'std::stable_partition') and len(n.get('args', [])) >= 3:
            a = n['args'][2]
            cand = [f.nodes[k] for k in subtree_through_locals(f, a) if f.nodes[k]['k'] == 'lambda' and f.nodes[k].get('fn') in prog.funcs]
            if cand:
                lf = prog.funcs[cand[0]['fn']]
    if lf is None:
        lf = lams[0]
    # truth table: the comparisons of the record's fields are pinned per scenario (closures the predicate calls are inlined); the
    # predicate must say "remove" exactly when every field AddCallback stored matches
    g = Graph(prog, lf, inline=lambda caller, call, callee, depth: bool(callee.d.get('lambda')), sync_lambdas=False, max_depth=3)

    def pins_for(differs):
        pins = {}
        seen_fields = set()
        for c_ in g.ctxs:
            ff = c_.f
            for n in ff.nodes:
                c = comparison(ff, n['i'])
                if not c or c[0] not in ('==', '!='):
                    continue
                flds = {ff.nodes[k]['name'] for side in (c[1], c[2]) for k in ff.subtree(side) if ff.nodes[k]['k'] == 'member' and ff.nodes[k]['name'] in fields}
                if len(flds) != 1:
                    continue
                fld = flds.pop()
                seen_fields.add(fld)
                equal = fld != differs
                pins[(id(ff), n['i'])] = equal if c[0] == '==' else (not equal)
        return pins, seen_fields
    pins, compared = pins_for(None)
    all_match = returns_under_pins(g, pins)
    bad = []
    if all_match != {True}:
        bad.append('with every field equal the predicate returns %s' % sorted(all_match, key=str))
    for fld in sorted(fields):
        vals = returns_under_pins(g, pins_for(fld)[0])
        if vals != {False}:
            bad.append('a registration that differs only in %s is removed as well' % fld)
    ok = not bad
    rets = [n for n in lf.nodes if n['k'] == 'return']
    ck.verdict(ok, rule, lf, 'remove-matches-whole-registration', rets[0] if rets else None,
               'a registration is removed only when callback, state and instrument all match (truth table over the field comparisons)' if ok else
               'RemoveCallback: %s - removing one registration also removes others (same function registered with different state), they are never invoked again' % '; '.join(bad))


def rule_r5(ck, prog, rule='C17.R5'):
    """decision tables: (a) an explicit Sum view gives an instrument the same monotonicity as the default selection does;
    (b) the collector never hands delta temporality to a synchronous gauge."""
    from ..symb import explore_pinned, T, F
    # ---- (a)
    fd = prog.function('sdk::metrics::DefaultAggregation::GetDefaultAggregationType')
    gd = Graph(prog, fd, inline=None, sync_lambdas=False)
    sw = [b['t']['cnd'] for b in fd.blocks if b.get('t') and b['t']['k'] == 'SwitchStmt']
    types = {}
    for b in fd.blocks:
        l = b.get('label')
        if l and l.get('k') == 'case' and l.get('qn'):
            types[l['qn'].rsplit('::', 1)[-1]] = l['v']
    if len(sw) != 1 or len(types) < 6:
        raise AnalysisBroken('GetDefaultAggregationType: switch over the instrument types not found')
    mono_param = fd.params[1]['id']
    default = {}
    for name, v in types.items():
        rets, _ = explore_pinned(gd, {}, {sw[0]: v})
        outs = set()
        for (ri, _val, env) in rets:
            agg = strip_casts(fd, fd.nodes[ri]['e']).get('name') if ri is not None else None
            outs.add((agg, dict(env).get(mono_param)))
        default[name] = outs
    fe = [x for x in prog.functions('sdk::metrics::DefaultAggregation::CreateAggregation') if len(x.params) == 3][0]
    ge = Graph(prog, fe, inline=None, sync_lambdas=False)
    swe = [b['t']['cnd'] for b in fe.blocks if b.get('t') and b['t']['k'] == 'SwitchStmt']
    ksum = [b['label']['v'] for b in fe.blocks if b.get('label') and (b['label'].get('qn') or '').endswith('AggregationType::kSum')]
    sums = [n for n in fe.nodes if n['k'] == 'construct' and strip_targs(n.get('c', '')).rsplit('::', 1)[-1] in ('LongSumAggregation', 'DoubleSumAggregation') and n.get('args')]
    if len(swe) != 1 or not ksum or not sums:
        raise AnalysisBroken('CreateAggregation(type, descriptor, config): kSum branch not found')
    probes = [strip_casts(fe, n['args'][0])['i'] for n in sums]
    for name, v in sorted(types.items()):
        d = default[name]
        if not any(a == 'kSum' for (a, m) in d):
            continue
        want = {m for (a, m) in d if a == 'kSum'}
        pins = {}
        for n in fe.nodes:
            c = comparison(fe, n['i'])
            if c and c[0] in ('==', '!='):
                l, r = strip_casts(fe, c[1]), strip_casts(fe, c[2])
                if r['k'] == 'member':
                    l, r = r, l
                if l['k'] == 'member' and l['name'] == 'type_' and r.get('sk') == 'enum' and 'InstrumentType' in (r.get('qn') or ''):
                    pins[n['i']] = (r['v'] == v) if c[0] == '==' else (r['v'] != v)
        _rets, seen = explore_pinned(ge, pins, {swe[0]: ksum[0]}, probes=probes)
        got = set()
        for pr in probes:
            got |= seen.get(pr, set())
        ok = got == want and len(got) == 1
        if not got or not all(isinstance(x, bool) for x in got):
            # the flag may be computed by a helper from the instrument type: fold the helper with its parameter pinned to this type
            from .common import once_init
            folded = set()
            for pr in probes:
                cn = once_init(fe, pr)
                h = prog.funcs.get(cn.get('ck')) if cn['k'] == 'call' else None
                if h is None or len(h.params) != 1 or 'InstrumentType' not in h.params[0]['t'] or \
                        not (cn.get('args') and access_path(fe, cn['args'][0])[-1:] == ('type_',)):
                    folded = None
                    break
                gh = Graph(prog, h, inline=None, sync_lambdas=False)
                hsw = [b['t']['cnd'] for b in h.blocks if b.get('t') and b['t']['k'] == 'SwitchStmt' and strip_casts(h, b['t']['cnd']).get('id') == h.params[0]['id']]
                hp = {}
                for n in h.nodes:
                    c = comparison(h, n['i'])
                    if c and c[0] in ('==', '!='):
                        l, r = strip_casts(h, c[1]), strip_casts(h, c[2])
                        if r.get('id') == h.params[0]['id']:
                            l, r = r, l
                        if l.get('id') == h.params[0]['id'] and r.get('sk') == 'enum':
                            hp[n['i']] = (r['v'] == v) if c[0] == '==' else (r['v'] != v)
                hrets, _s = explore_pinned(gh, hp, {c_: v for c_ in hsw})
                folded |= {val for (_ri, val, _env) in hrets}
            if folded and all(isinstance(x, bool) for x in folded):
                got = folded
                ok = got == want and len(got) == 1
        if not got or not all(isinstance(x, bool) for x in got):
            # the flag is not a constant on the pinned paths: not decided here
            ck.inconclusive(rule, fe, 'explicit-sum-monotonicity:%s' % name, sums[0], 'the monotonicity flag of the explicit sum does not fold to a constant under the pinned instrument type (computed by a helper?)')
            continue
        ck.verdict(ok, rule, fe, 'explicit-sum-monotonicity:%s' % name, sums[0],
                   'explicit Sum view on %s: is_monotonic=%s, as the default selection' % (name, sorted(got, key=str)) if ok else
                   'an explicit Sum view on %s creates a %s sum, the default selection a %s one: a monotonic sum ignores negative values, so a total below zero is never reported' %
                   (name, 'monotonic' if True in got else 'non-monotonic' if got == {False} else 'undetermined', 'monotonic' if want == {True} else 'non-monotonic'))
    # ---- (b)
    f = prog.function('sdk::metrics::MetricCollector::GetAggregationTemporality')
    g = Graph(prog, f, inline=None, sync_lambdas=False)
    pins = {}
    for n in f.nodes:
        c = comparison(f, n['i'])
        if c and c[0] == '==':
            r = strip_casts(f, c[2])
            if r.get('sk') == 'enum' and (r.get('qn') or '').endswith('AggregationTemporality::kDelta'):
                pins[n['i']] = T
            if r.get('sk') == 'enum' and (r.get('qn') or '').endswith('InstrumentType::kGauge'):
                pins[n['i']] = T
    if len(pins) < 2:
        ck.violation(rule, f, 'sync-gauge-never-delta', None, 'the collector no longer tests for (delta, synchronous gauge): the gauge storage takes the delta path and omits attribute sets that were not re-recorded')
    else:
        rets, _ = explore_pinned(g, pins)
        vals = {strip_casts(f, f.nodes[ri]['e']).get('name') for (ri, _v, _e) in rets if ri is not None}
        ok = vals == {'kCumulative'}
        ck.verdict(ok, rule, f, 'sync-gauge-never-delta', None, 'for a synchronous gauge a delta preference is turned into cumulative on every path' if ok else
                   'for a synchronous gauge with a delta-preferring reader the collector can return %s: the gauge storage takes the delta path, and an attribute set that was not re-recorded in the interval is omitted instead of reporting its last value' % sorted(vals, key=str))


def rule_r6(ck, prog, rule='C17.R6'):
    """collection reaches every meter, and a destroyed instrument loses every one of its callbacks"""
    # (a) the per-meter callback of the collector never asks ForEachMeter to stop
    hosts = [f for f in prog.funcs.values() if f.cls and f.cls.endswith('sdk::metrics::MetricCollector') and f.name == 'Produce']
    n = callbacks_never_stop(ck, prog, rule, hosts, callee_suffixes=('MeterContext::ForEachMeter',))
    if not n:
        raise AnalysisBroken('MetricCollector::Produce: the per-meter callback handed to ForEachMeter was not found')
    # (b) CleanupCallback erases all records of the instrument: erase(remove_if(begin, end, pred), end) or an erasing loop over the
    # whole list - a single erase(find_if(...)) leaves the other callbacks of the instrument registered with a dangling pointer
    f = prog.function('sdk::metrics::ObservableRegistry::CleanupCallback')
    g = Graph(prog, f, inline=None, sync_lambdas=False)
    rd = reaching_defs(g)
    rec = prog.record('sdk::metrics::ObservableRegistry')
    lists = {fd['name'] for fd in rec['fields'] if 'std::vector<' in fd['t'] and 'ObservableCallbackRecord' in fd['t']}
    erases = [p for p in g.points if p.n is not None and p.n['k'] == 'call' and strip_targs(p.n.get('c', '')).rsplit('::', 1)[-1] == 'erase' and
              p.n.get('obj') is not None and access_path(f, p.n['obj'])[-1:] and access_path(f, p.n['obj'])[-1] in lists]
    loops = loops_over(f, lambda ap: len(ap) == 2 and ap[0] == 'this' and ap[1] in lists)
    ok = bool(erases)
    why = 'CleanupCallback never erases from the callback list'
    for p in erases:
        args = [a for a in p.n.get('args', []) if a is not None and a >= 0]
        if len(args) >= 2:
            def sources(idx, ctx, depth=0):
                """origins, looking through converting constructions (iterator -> const_iterator)"""
                out = []
                for (sf, sn, sc) in origins(g, rd, f, idx, ctx):
                    a1 = [a for a in sn.get('args', []) if a is not None and a >= 0] if sn['k'] == 'construct' else []
                    if len(a1) == 1 and depth < 4:
                        out += sources(a1[0], sc, depth + 1)
                    else:
                        out.append(sn)
                return out
            whole = any(sn['k'] == 'call' and strip_targs(sn.get('c', '')) in ('std::remove_if', 'std::remove', 'std::partition', 'std::stable_partition') for sn in sources(args[0], p.ctx))
            last = (sources(args[1], p.ctx) or [strip_casts(f, args[1])])[0]
            to_end = last['k'] == 'call' and strip_targs(last.get('c', '')).rsplit('::', 1)[-1] in ('end', 'cend')
            if not (whole and to_end):
                ok, why = False, 'the range handed to erase is not [remove_if(begin, end, ...), end)'
        else:
            in_loop = any(p.n['i'] in set(f.subtree(lp['body'])) for lp in loops)
            exits = [m for lp in loops for i in f.subtree(lp['body']) for m in [f.nodes[i]] if m['k'] in ('break', 'return', 'GotoStmt')]
            if not in_loop or exits:
                ok, why = False, 'a single element is erased outside a loop over the whole list (or the loop stops at the first match): the other callbacks of the destroyed instrument stay registered with a dangling instrument pointer'
    ck.verdict(ok, rule, f, 'cleanup-removes-every-record', erases[0].n if erases else None, 'every record of the destroyed instrument is erased' if ok else why)


def rule_r7(ck, prog, rule='C17.R7'):
    """the difference of two cumulative sums is stored as it is: Diff writes next - current straight into the result's value (building
    the result through Aggregate() runs the monotonic guard, which silently drops a negative difference)"""
    cnt = 0
    for cls in ('sdk::metrics::LongSumAggregation', 'sdk::metrics::DoubleSumAggregation'):
        rec = prog.record(cls)
        f = [x for x in prog.funcs.values() if x.cls == rec['qn'] and x.name == 'Diff'][0]
        cnt += 1
        nxt = f.params[0]['id']
        writes = []
        for n in f.nodes:
            lhs = n['lhs'] if (n['k'] == 'binop' and n['op'] == '=') else (n.get('obj') if (n['k'] == 'call' and n.get('op') == '=') else None)
            if lhs is not None and access_path(f, lhs)[-2:] == ('point_data_', 'value_'):
                writes.append(n)
        aggs = [n for n in f.nodes if n['k'] == 'call' and strip_targs(n.get('c', '')).rsplit('::', 1)[-1] == 'Aggregate']
        ok = len(writes) == 1 and not aggs
        why = 'the result is built through Aggregate(), whose monotonic guard discards a negative difference' if aggs else 'no direct store of the difference into the result\'s value'
        if ok:
            w = writes[0]
            rhs = w['rhs'] if w['k'] == 'binop' else w['args'][0]
            subs = [f.nodes[i] for i in subtree_through_locals(f, rhs) if f.nodes[i]['k'] == 'binop' and f.nodes[i]['op'] == '-']
            ok = len(subs) == 1 and any(f.nodes[i]['k'] == 'ref' and f.nodes[i].get('id') == nxt for i in f.subtree(subs[0]['lhs'])) and \
                not any(f.nodes[i]['k'] == 'ref' and f.nodes[i].get('id') == nxt for i in f.subtree(subs[0]['rhs']))
            why = 'the stored value is not next - current'
        ck.verdict(ok, rule, f, 'diff-stores-next-minus-current', writes[0] if writes else (aggs[0] if aggs else None),
                   'value = next - current, stored directly' if ok else '%s::Diff: %s' % (cls.rsplit('::', 1)[-1], why))
    return cnt


def rule_r8(ck, prog, rule='C17.R8'):
    """Each callback observes into a result object of its own: every local of an ObserverResult type that the callback loop of
    ObservableRegistry::Observe mentions is created inside the iteration that uses it - a result object that survives from one
    callback to the next makes the next instrument record the previous one's measurements again."""
    from .common import stale_across_iterations, loops_over
    f = prog.function('sdk::metrics::ObservableRegistry::Observe')
    g = Graph(prog, f, inline=None, sync_lambdas=False)
    loops = loops_over(f, lambda ap: ap == ('this', 'callbacks_'))
    if len(loops) != 1:
        raise AnalysisBroken('C17.R8: callback loop of ObservableRegistry::Observe not found')
    lp = loops[0]
    body = set(f.subtree(lp['body']))
    decls = {d['id']: d for n in f.nodes if n['k'] == 'declstmt' for d in n['decls']}
    used = sorted({f.nodes[i]['id'] for i in body if f.nodes[i]['k'] == 'ref' and f.nodes[i].get('sk') in ('local', 'static_local', 'tls', 'static') and
                   f.nodes[i].get('id') in decls and 'ObserverResult' in (decls[f.nodes[i]['id']].get('t') or '')})
    if not used:
        ck.inconclusive(rule, f, 'observer-result-fresh-per-callback', None, 'no ObserverResult local is used in the callback loop')
        return
    bad = None
    for vid in used:
        stale, why = stale_across_iterations(g, f, lp, vid, strict=True)
        if stale is None:
            ck.inconclusive(rule, f, 'observer-result-fresh-per-callback', None, why)
            return
        if stale:
            bad = (stale[0], decls[vid]['name'])
            break
    ck.verdict(bad is None, rule, f, 'observer-result-fresh-per-callback', bad[0].n if bad else None,
               'every observer result used in the callback loop is created in the iteration that uses it (%d locals)' % len(used) if bad is None else
               'the observer result %s outlives an iteration of the callback loop: the measurements one callback reported are recorded again for the next instrument, and its own total is re-recorded as unchanged' % bad[1])


def run(ck, prog):
    ck.doc('C17.R1', 'registry: list under its mutex; callbacks invoked under the lock from the registered list, once per record; destructor cleans up; removal matches the whole registration', 9)
    ck.doc('C17.R2', 'Meter::Collect: Observe precedes every storage Collect', 1)
    ck.doc('C17.R3', 'LastValue Merge/Diff tie-break orientation; Aggregate sets valid/value/timestamp under the lock', 6)
    ck.doc('C17.R4', 'AsyncMetricStorage::Record updates cumulative and delta tables; delta = previous->Diff(current); tables only under the storage lock; lookups keyed by the element being recorded', 6)
    ck.doc('C17.R5', 'decision tables: explicit Sum view monotonicity = default selection; sync gauge never gets delta temporality', 5)
    ck.doc('C17.R6', 'the collector\'s per-meter callback never stops the iteration; CleanupCallback erases every record of the destroyed instrument', 2)
    ck.doc('C17.R8', 'every callback observes into a result object created in its own iteration', 1)
    ck.doc('C17.R7', 'Sum Diff stores next - current directly (not through the monotonic guard of Aggregate)', 2)
    ck.doc('C08.R7', '(shared rule) ObserverResultT::Observe stores last-write-wins', 4)
    ck.doc('C06.R3', '(shared rule, see C06) buildMetrics reader fan-out: fast path only for a single reader; no early return before the stash', 5)
    with ck.canary('C17.R1'):
        rule_r1(ck, prog, cls='canary::c17::BadRegistry')
    rule_r1(ck, prog)
    rule_r2(ck, prog)
    rule_r3(ck, prog)
    # LOCK: every method of the last-value aggregations touches the point only under the aggregation's lock
    c06.rule_r1_fields(ck, prog, 'sdk::metrics::LongLastValueAggregation', ['point_data_'], rule='C17.R3')
    c06.rule_r1_fields(ck, prog, 'sdk::metrics::DoubleLastValueAggregation', ['point_data_'], rule='C17.R3')
    rule_r4(ck, prog)
    rule_r4_tables(ck, prog)
    rule_r4_value_type_gate(ck, prog)
    rule_r1_identity(ck, prog)
    rule_r5(ck, prog)
    rule_r6(ck, prog)
    rule_r7(ck, prog)
    rule_r8(ck, prog)
    c08.rule_r7(ck, prog, setters=('sdk::metrics::ObserverResultT::Observe',))
    c06.build_metrics_rules(ck, prog, rule4=None)
    ck.doc('C06.R9', '(shared rule, see C06) folding collection intervals into one map accumulates (merge with the found entry, never overwrite it)', 2)
    c06.rule_r9(ck, prog)
    return {}
