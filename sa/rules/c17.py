"""C17 - gauges report the latest value; observables are read once per collection (structural part)."""
from ..ir import AnalysisBroken, strip_targs, qmatch
from ..graph import Graph
from ..expr import access_path, path_str, held_locks, reaching_defs, norm_cond, origins, leaves, defs_in_node
from .common import strip_casts, short, comparison, FLIP
from . import c06, c08

UNITS = ['sdk/src/metrics/state/observable_registry.cc', 'sdk/src/metrics/async_instruments.cc',
         'sdk/src/metrics/aggregation/lastvalue_aggregation.cc', 'sdk/src/metrics/aggregation/sum_aggregation.cc',
         'sdk/src/metrics/state/temporal_metric_storage.cc', 'sdk/src/metrics/meter.cc', 'sdk/src/metrics/state/metric_collector.cc']
DRIVERS = ['metrics_headers.cc']
CANARIES = ['c17_canary.cc']

EXPLANATION = (
    'C17.R1 (lock + typestate): ObservableRegistry touches its callback list only under its mutex; Observe iterates the member '
    'list itself and invokes each record\'s callback while holding that mutex (so RemoveCallback/CleanupCallback cannot return '
    'while the callback may still run), exactly once per iteration on every path, followed by the storage Record of the matching '
    'value type; the observable instrument\'s destructor calls CleanupCallback(this). C17.R2 (dominance): Meter::Collect calls '
    'Observe before the loop over the storages. C17.R3 (siblings): {Long,Double}LastValueAggregation::Merge/Diff return the '
    'receiver\'s data only on a strictly later timestamp (ties go to the argument); Aggregate sets valid, value and timestamp '
    'under the lock. C17.R4 (forwarding): AsyncMetricStorage::Record updates the cumulative and the delta table for the '
    'measurement\'s key on both branches, the delta being prev->Diff(current). C17.R5 (last-write-wins): ObserverResultT::Observe '
    'stores with an overwriting form. C17.R6: the reader fan-out rules of buildMetrics (C06.R3) hold, so a delta reader gets the '
    'difference from what that same reader was last given.')
EXPLANATION += ' C17.R1 also requires RemoveCallback to compare every field AddCallback stores. C17.R5 (decision tables by conditional constant propagation over the enumerators): an explicit Sum view gives each instrument type the monotonicity the default selection gives it; MetricCollector::GetAggregationTemporality returns cumulative on every path for (delta, synchronous gauge).'
NOT_DECIDED = 'numeric deltas across readers over arbitrary histories.'


def rule_r1(ck, prog, rule='C17.R1', cls='sdk::metrics::ObservableRegistry'):
    rec = prog.record(cls)
    mutexes = [fd['name'] for fd in rec['fields'] if 'mutex' in fd['t'].lower()]
    lists = [fd['name'] for fd in rec['fields'] if 'vector<' in fd['t'] or 'list<' in fd['t']]
    if not mutexes or not lists:
        raise AnalysisBroken('%s: mutex / callback list member not found' % cls)
    lst = lists[0]
    for f in sorted([x for x in prog.funcs.values() if x.cls == rec['qn'] and x.kind not in ('ctor', 'dtor') and not x.d.get('lambda')], key=lambda x: x.line):
        g = Graph(prog, f, inline=None, sync_lambdas=True)
        held = held_locks(g)
        acc = [p for p in g.points if p.n is not None and p.n['k'] == 'member' and access_path(p.f, p.n['i'], p.ctx) == ('this', lst)]
        if not acc:
            continue
        unl = [p for p in acc if 'this.' + mutexes[0] not in held.get(p.id, ())]
        ck.verdict(not unl, rule, f, '%s:list-locked' % f.name, (unl or acc)[0].n, 'callback list touched under %s' % mutexes[0] if not unl else
                   'the callback list is touched without %s' % mutexes[0])
    f = [x for x in prog.funcs.values() if x.cls == rec['qn'] and x.name == 'Observe'][0]
    g = Graph(prog, f, inline=None, sync_lambdas=False)
    held = held_locks(g)
    rd = reaching_defs(g)
    invokes = [p for p in g.points if p.n is not None and p.n['k'] == 'call' and p.n.get('fx') is not None and
               f.nodes[p.n['fx']]['k'] == 'member' and f.nodes[p.n['fx']]['name'] == 'callback']
    if not invokes:
        raise AnalysisBroken('Observe: callback invocation not found')
    unl = [p for p in invokes if 'this.' + mutexes[0] not in held.get(p.id, ())]
    ck.verdict(not unl, rule, f, 'callback-invoked-under-lock', (unl or invokes)[0].n, 'callbacks run holding %s' % mutexes[0] if not unl else
               'a callback is invoked without holding %s: RemoveCallback / the instrument destructor can return while the callback is still going to run (removed callback invoked again, use of a destroyed instrument)' % mutexes[0])
    from .common import iteration_starts
    inv_loop = None
    pm = f.parent_map()
    x = invokes[0].n['i']
    while x in pm:
        x = pm[x]
        if f.nodes[x]['k'] in ('forrange', 'for', 'while'):
            inv_loop = f.nodes[x]
            break
    # the record whose callback runs is an element of the member list itself (range-for over it, or indexed / iterated access to
    # it), never of a local copy of the list
    def from_member_list(idx, ctx, depth=4):
        members, copies = set(), False
        for (sf, sn, sc) in origins(g, rd, f, idx, ctx):
            for j in sf.subtree(sn['i']):
                m = sf.nodes[j]
                if m['k'] == 'member' and m.get('mk') != 'method':
                    members.add(m['name'])
                elif m['k'] == 'ref' and m.get('sk') == 'local' and j != idx and depth > 0:
                    t = (m.get('t') or '')
                    dt = [d['t'] for nn in sf.nodes if nn['k'] == 'declstmt' for d in nn['decls'] if d['id'] == m.get('id')]
                    if dt and ('vector<' in dt[0] or 'list<' in dt[0]) and not dt[0].rstrip().endswith('&') and 'unique_ptr<' not in dt[0].split('vector<')[0]:
                        copies = True
                    mm, cc = from_member_list(j, sc, depth - 1)
                    members |= mm
                    copies = copies or cc
        return members, copies
    base = f.nodes[invokes[0].n['fx']].get('base')
    root = base
    members, copies = from_member_list(root, invokes[0].ctx) if root is not None else (set(), False)
    if inv_loop is not None and inv_loop['k'] == 'forrange':
        if access_path(f, inv_loop['range']) == ('this', lst):
            members.add(lst)
        else:
            mm, cc = from_member_list(inv_loop['range'], g.root_ctx)
            members |= mm
            copies = copies or cc or (f.nodes[inv_loop['range']]['k'] == 'ref' and f.nodes[inv_loop['range']].get('sk') == 'local')
    ok = inv_loop is not None and lst in members and not copies
    ck.verdict(ok, rule, f, 'iterates-the-registered-list', inv_loop, 'the callbacks are invoked from a loop over the member list' if ok else
               'callbacks are invoked from a copy/snapshot of the list, not from the registered list itself: removals made meanwhile are not seen')
    # exactly once per iteration, on every path that does not leave the loop through the named early exit
    if inv_loop is not None:
        body_pts = [p for p in g.points if p.n is not None and p.n['i'] in set(f.subtree(inv_loop['body']))]
        iter_start = iteration_starts(g, f, inv_loop)
        twice = any(b.id in g.reachable_from([q for (q, _l) in a.succ], avoid=iter_start) for a in invokes for b in invokes)
        recs = [p for p in g.points if p.n is not None and p.n['k'] == 'call' and p.n.get('virt') and strip_targs(p.n.get('c', '')).rsplit('::', 1)[-1] in ('RecordLong', 'RecordDouble')]
        followed = all(g.must_reach(a, recs, stop=iter_start) for a in invokes)
        kinds = {}
        for a in invokes:
            t = ''
            for arg in a.n.get('args', [])[:1]:
                refs = [f.nodes[i] for i in f.subtree(arg) if f.nodes[i]['k'] == 'ref' and 'ObserverResultT<' in (f.nodes[i].get('t') or '')]
                t = 'double' if any('ObserverResultT<double>' in r['t'] for r in refs) else 'long'
            nxt = [r for r in recs if r.id in g.reachable_from([q for (q, _l) in a.succ], avoid=iter_start)]
            kinds[a.id] = ('double' in t, {strip_targs(r.n['c']).rsplit('::', 1)[-1] for r in nxt[:1]})
        match = all((k[0] and 'RecordDouble' in k[1]) or (not k[0] and 'RecordLong' in k[1]) for k in kinds.values())
        ck.verdict(not twice and followed and match and len(invokes) == 2, rule, f, 'once-per-record-then-matching-record', invokes[0].n,
                   'one invocation per record, followed by the storage Record of the same value type' if not twice and followed and match and len(invokes) == 2 else
                   'a record\'s callback can run twice in one collection, is not followed by the storage Record, or feeds the Record of the other value type')
    d = prog.function('sdk::metrics::ObservableInstrument::~ObservableInstrument')
    calls = [n for n in d.nodes if n['k'] == 'call' and strip_targs(n.get('c', '')).endswith('ObservableRegistry::CleanupCallback')]
    ok = len(calls) == 1 and d.nodes[calls[0]['args'][0]]['k'] == 'this'
    ck.verdict(ok, rule, d, 'destructor-cleans-up', calls[0] if calls else None, 'destructor removes the instrument\'s callbacks' if ok else
               'the observable instrument\'s destructor does not remove its callbacks: a later collection calls into a destroyed instrument')


def rule_r2(ck, prog, rule='C17.R2'):
    f = prog.function('sdk::metrics::Meter::Collect')
    g = Graph(prog, f, inline=None, sync_lambdas=False)
    obs = g.calls('ObservableRegistry::Observe')
    cols = [p for p in g.points if p.n is not None and p.n['k'] == 'call' and p.n.get('virt') and strip_targs(p.n.get('c', '')).endswith('MetricStorage::Collect')]
    ok = len(obs) == 1 and bool(cols) and all(g.must_pass(c, obs) for c in cols)
    ck.verdict(ok, rule, f, 'observe-before-storage-collect', obs[0].n if obs else None, 'Observe dominates every storage Collect' if ok else
               'a storage can be collected before (or without) the observable callbacks having been read for this collection')


def rule_r3(ck, prog, rule='C17.R3'):
    for cls in ('sdk::metrics::LongLastValueAggregation', 'sdk::metrics::DoubleLastValueAggregation'):
        rec = prog.record(cls)
        for name in ('Merge', 'Diff'):
            f = [x for x in prog.funcs.values() if x.cls == rec['qn'] and x.name == name][0]
            g = Graph(prog, f, inline=None, sync_lambdas=False)
            pid = f.params[0]['id']
            conds = [n for n in f.nodes if n['k'] == 'if']
            ok = len(conds) == 1
            why = 'shape not recognised'
            if ok:
                c = comparison(f, conds[0]['cnd'])
                if c:
                    op, l, r = c
                    def who(idx):
                        refs = [f.nodes[i] for i in f.subtree(idx) if f.nodes[i]['k'] == 'ref' and f.nodes[i].get('id') == pid]
                        return 'arg' if refs else 'this'
                    lw, rw = who(l), who(r)
                    if lw == 'arg':
                        op, lw, rw = FLIP[op], rw, lw
                    # now: this op arg
                    then_w = who(conds[0]['th'])
                    else_w = who(conds[0]['el']) if conds[0].get('el') is not None else None
                    ok = (lw, rw) == ('this', 'arg') and ((op == '>' and then_w == 'this' and else_w == 'arg') or (op == '<=' and then_w == 'arg' and else_w == 'this'))
                    why = 'the receiver\'s value wins on "%s" (ties %s)' % (op, 'go to the receiver' if op in ('>=',) else 'handled wrongly')
                else:
                    ok = False
            ck.verdict(ok, rule, f, '%s-tie-break' % name.lower(), conds[0] if conds else None,
                       'receiver only on a strictly later timestamp, otherwise the argument' if ok else
                       '%s::%s: %s: on equal timestamps the older/receiver value is reported instead of the most recent one' % (cls.rsplit('::', 1)[-1], name, why))
        ty = 'long' if 'Long' in cls else 'double'
        f = [x for x in prog.funcs.values() if x.cls == rec['qn'] and x.name == 'Aggregate' and x.params and x.params[0]['t'] == ty][0]
        g = Graph(prog, f, inline=None, sync_lambdas=False)
        held = held_locks(g)
        flds = {}
        for p in g.points:
            n = p.n
            if n is None:
                continue
            tgt = n['lhs'] if (n['k'] == 'binop' and n['op'] == '=') else (n.get('obj') if (n['k'] == 'call' and n.get('op') == '=') else None)
            if tgt is None:
                continue
            ap = access_path(f, tgt, p.ctx)
            if ap[:2] == ('this', 'point_data_') and len(ap) == 3:
                flds[ap[2]] = (p, any(l.startswith('this.') for l in held.get(p.id, ())))
        need = {'is_lastvalue_valid_', 'value_', 'sample_ts_'}
        ok = need <= set(flds) and all(v[1] for v in flds.values()) and g.exit.id not in g.reachable_from(g.entry, avoid=[flds[k][0] for k in need if k in flds][:1])
        if ok:
            vp = flds['value_'][0].n
            rhs = vp['rhs'] if vp['k'] == 'binop' else vp['args'][0]
            ok = strip_casts(f, rhs).get('id') == f.params[0]['id']
        ck.verdict(ok, rule, f, 'aggregate-sets-all', None, 'valid flag, value and timestamp set under the lock' if ok else
                   'Aggregate does not set the valid flag, the value (from the parameter) and the timestamp under the lock')


def rule_r4(ck, prog, rule='C17.R4'):
    fs = [f for f in prog.functions('sdk::metrics::AsyncMetricStorage::Record')]
    if not fs:
        raise AnalysisBroken('AsyncMetricStorage::Record not instantiated')
    for f in fs:
        g = Graph(prog, f, inline=None, sync_lambdas=False)
        held = held_locks(g)
        sets = {}
        for p in g.points:
            n = p.n
            if n is not None and n['k'] == 'call' and strip_targs(n.get('c', '')).endswith('AttributesHashMapWithCustomHash::Set') and n.get('obj') is not None:
                ap = access_path(f, n['obj'], p.ctx)
                if ap[0] == 'this':
                    sets.setdefault(ap[1], []).append(p)
        loops = [n for n in f.nodes if n['k'] == 'forrange']
        site = 'record<%s>' % ('long' if 'long' in f.key.split('Record<')[1][:8] else 'double') if 'Record<' in f.key else 'record'
        ok = len(sets) == 2 and bool(loops)
        why = 'the cumulative and the delta table are not both updated'
        if ok:
            # in every iteration both tables are written: from loop body entry to the next iteration each table's Set is passed
            body_first = None
            for p in g.points:
                if p.n is not None and p.n['k'] == 'declstmt' and any(d['id'] == loops[0]['var'] for d in p.n['decls']):
                    body_first = p
            for tbl, pts in sets.items():
                if body_first is None or body_first.id in g.reachable_from([q for (q, _l) in body_first.succ], avoid=pts) :
                    ok = False
                    why = 'an iteration can complete without writing %s' % tbl
                if not all(any(l.startswith('this.') for l in held.get(p.id, ())) for p in pts):
                    ok = False
                    why = '%s is written without the storage lock' % tbl
            diffs = [n for n in f.nodes if n['k'] == 'call' and n.get('virt') and strip_targs(n.get('c', '')).endswith('Aggregation::Diff')]
            if ok and diffs:
                d = diffs[0]
                rd = reaching_defs(g)
                objsrc = origins(g, rd, f, d['obj'], g.root_ctx)
                from_prev = any(sn['k'] == 'call' and strip_targs(sn.get('c', '')).endswith('::Get') and access_path(sf, sn['obj'], sc)[:1] == ('this',) for (sf, sn, sc) in objsrc)
                ok = from_prev
                why = 'the delta is not previous->Diff(current)'
            elif ok:
                ok = False
                why = 'no Diff against the previous observation'
        ck.verdict(ok, rule, f, site, loops[0] if loops else None, 'both tables updated on every path; delta = previous->Diff(current)' if ok else
                   'AsyncMetricStorage::Record: %s' % why)


def rule_r1_identity(ck, prog, rule='C17.R1'):
    """RemoveCallback identifies a registration by everything AddCallback stored: every field of the record is compared"""
    rec = prog.record('sdk::metrics::ObservableCallbackRecord')
    fields = {fd['name'] for fd in rec['fields']}
    f = prog.function('sdk::metrics::ObservableRegistry::RemoveCallback')
    lams = [x for x in prog.funcs.values() if x.d.get('lambda') and x.d.get('parent') == f.key]
    if not lams or not fields:
        raise AnalysisBroken('ObservableRegistry::RemoveCallback: predicate / record fields not found')
    lf = lams[0]
    compared = set()
    for n in lf.nodes:
        c = comparison(lf, n['i'])
        if c and c[0] == '==':
            for side in (c[1], c[2]):
                for j in lf.subtree(side):
                    m = lf.nodes[j]
                    if m['k'] == 'member' and m['name'] in fields:
                        compared.add(m['name'])
    rets = [n for n in lf.nodes if n['k'] == 'return']
    has_or = any(lf.nodes[j]['k'] == 'binop' and lf.nodes[j]['op'] == '||' for r in rets for j in lf.subtree(r['e']))
    ok = compared == fields and not has_or
    ck.verdict(ok, rule, lf, 'remove-matches-whole-registration', rets[0] if rets else None,
               'a registration is removed only when callback, state and instrument all match' if ok else
               'RemoveCallback does not compare %s: removing one registration also removes the others that differ only there (same function registered with different state), they are never invoked again' % ', '.join(sorted(fields - compared) or ['all fields conjunctively']))


def rule_r5(ck, prog, rule='C17.R5'):
    """decision tables: (a) an explicit Sum view gives an instrument the same monotonicity as the default selection does;
    (b) the collector never hands delta temporality to a synchronous gauge."""
    from ..symb import explore_pinned, T, F
    # ---- (a)
    fd = prog.function('sdk::metrics::DefaultAggregation::GetDefaultAggregationType')
    gd = Graph(prog, fd, inline=None, sync_lambdas=False)
    sw = [b['t']['cnd'] for b in fd.blocks if b.get('t') and b['t']['k'] == 'SwitchStmt']
    types = {}
    for b in fd.blocks:
        l = b.get('label')
        if l and l.get('k') == 'case' and l.get('qn'):
            types[l['qn'].rsplit('::', 1)[-1]] = l['v']
    if len(sw) != 1 or len(types) < 6:
        raise AnalysisBroken('GetDefaultAggregationType: switch over the instrument types not found')
    mono_param = fd.params[1]['id']
    default = {}
    for name, v in types.items():
        rets, _ = explore_pinned(gd, {}, {sw[0]: v})
        outs = set()
        for (ri, _val, env) in rets:
            agg = strip_casts(fd, fd.nodes[ri]['e']).get('name') if ri is not None else None
            outs.add((agg, dict(env).get(mono_param)))
        default[name] = outs
    fe = [x for x in prog.functions('sdk::metrics::DefaultAggregation::CreateAggregation') if len(x.params) == 3][0]
    ge = Graph(prog, fe, inline=None, sync_lambdas=False)
    swe = [b['t']['cnd'] for b in fe.blocks if b.get('t') and b['t']['k'] == 'SwitchStmt']
    ksum = [b['label']['v'] for b in fe.blocks if b.get('label') and (b['label'].get('qn') or '').endswith('AggregationType::kSum')]
    sums = [n for n in fe.nodes if n['k'] == 'construct' and strip_targs(n.get('c', '')).rsplit('::', 1)[-1] in ('LongSumAggregation', 'DoubleSumAggregation') and n.get('args')]
    if len(swe) != 1 or not ksum or not sums:
        raise AnalysisBroken('CreateAggregation(type, descriptor, config): kSum branch not found')
    probes = [strip_casts(fe, n['args'][0])['i'] for n in sums]
    for name, v in sorted(types.items()):
        d = default[name]
        if not any(a == 'kSum' for (a, m) in d):
            continue
        want = {m for (a, m) in d if a == 'kSum'}
        pins = {}
        for n in fe.nodes:
            c = comparison(fe, n['i'])
            if c and c[0] in ('==', '!='):
                l, r = strip_casts(fe, c[1]), strip_casts(fe, c[2])
                if r['k'] == 'member':
                    l, r = r, l
                if l['k'] == 'member' and l['name'] == 'type_' and r.get('sk') == 'enum' and 'InstrumentType' in (r.get('qn') or ''):
                    pins[n['i']] = (r['v'] == v) if c[0] == '==' else (r['v'] != v)
        _rets, seen = explore_pinned(ge, pins, {swe[0]: ksum[0]}, probes=probes)
        got = set()
        for pr in probes:
            got |= seen.get(pr, set())
        ok = got == want and len(got) == 1
        ck.verdict(ok, rule, fe, 'explicit-sum-monotonicity:%s' % name, sums[0],
                   'explicit Sum view on %s: is_monotonic=%s, as the default selection' % (name, sorted(got, key=str)) if ok else
                   'an explicit Sum view on %s creates a %s sum, the default selection a %s one: a monotonic sum ignores negative values, so a total below zero is never reported' %
                   (name, 'monotonic' if True in got else 'non-monotonic' if got == {False} else 'undetermined', 'monotonic' if want == {True} else 'non-monotonic'))
    # ---- (b)
    f = prog.function('sdk::metrics::MetricCollector::GetAggregationTemporality')
    g = Graph(prog, f, inline=None, sync_lambdas=False)
    pins = {}
    for n in f.nodes:
        c = comparison(f, n['i'])
        if c and c[0] == '==':
            r = strip_casts(f, c[2])
            if r.get('sk') == 'enum' and (r.get('qn') or '').endswith('AggregationTemporality::kDelta'):
                pins[n['i']] = T
            if r.get('sk') == 'enum' and (r.get('qn') or '').endswith('InstrumentType::kGauge'):
                pins[n['i']] = T
    if len(pins) < 2:
        ck.violation(rule, f, 'sync-gauge-never-delta', None, 'the collector no longer tests for (delta, synchronous gauge): the gauge storage takes the delta path and omits attribute sets that were not re-recorded')
    else:
        rets, _ = explore_pinned(g, pins)
        vals = {strip_casts(f, f.nodes[ri]['e']).get('name') for (ri, _v, _e) in rets if ri is not None}
        ok = vals == {'kCumulative'}
        ck.verdict(ok, rule, f, 'sync-gauge-never-delta', None, 'for a synchronous gauge a delta preference is turned into cumulative on every path' if ok else
                   'for a synchronous gauge with a delta-preferring reader the collector can return %s: the gauge storage takes the delta path, and an attribute set that was not re-recorded in the interval is omitted instead of reporting its last value' % sorted(vals, key=str))


def run(ck, prog):
    ck.doc('C17.R1', 'registry: list under its mutex; callbacks invoked under the lock from the registered list, once per record; destructor cleans up; removal matches the whole registration', 9)
    ck.doc('C17.R2', 'Meter::Collect: Observe precedes every storage Collect', 1)
    ck.doc('C17.R3', 'LastValue Merge/Diff tie-break orientation; Aggregate sets valid/value/timestamp under the lock', 6)
    ck.doc('C17.R4', 'AsyncMetricStorage::Record updates cumulative and delta tables; delta = previous->Diff(current)', 2)
    ck.doc('C17.R5', 'decision tables: explicit Sum view monotonicity = default selection; sync gauge never gets delta temporality', 5)
    ck.doc('C08.R7', '(shared rule) ObserverResultT::Observe stores last-write-wins', 4)
    ck.doc('C06.R3', '(shared rule, see C06) buildMetrics reader fan-out: fast path only for a single reader; no early return before the stash', 5)
    with ck.canary('C17.R1'):
        rule_r1(ck, prog, cls='canary::c17::BadRegistry')
    rule_r1(ck, prog)
    rule_r2(ck, prog)
    rule_r3(ck, prog)
    rule_r4(ck, prog)
    rule_r1_identity(ck, prog)
    rule_r5(ck, prog)
    c08.rule_r7(ck, prog, setters=('sdk::metrics::ObserverResultT::Observe',))
    c06.build_metrics_rules(ck, prog, rule4=None)
    return {}
