"""C07 - histogram points are exact summaries of the recorded values (structural part)."""
from ..ir import AnalysisBroken, strip_targs, qmatch
from ..graph import Graph
from ..expr import access_path, path_str, held_locks, reaching_defs, norm_cond, origins, leaves, defs_in_node
from ..linear import linear, relation, fmt
from .common import strip_casts, short, comparison, FLIP, subtree_through_locals, pointer_pins, sign_pins
from ..symb import feasible_reach

UNITS = ['sdk/src/metrics/aggregation/histogram_aggregation.cc', 'sdk/src/metrics/sync_instruments.cc',
         'sdk/src/metrics/state/temporal_metric_storage.cc', 'sdk/src/metrics/state/sync_metric_storage.cc', 'sdk/src/metrics/state/filtered_ordered_attribute_map.cc']
DRIVERS = ['metrics_headers.cc']
CANARIES = ['c07_canary.cc']

EXPLANATION = (
    'C07.R1 (lock + typestate): in {Long,Double}HistogramAggregation::Aggregate every access to the point data holds the '
    'aggregation\'s lock and on every path there is exactly one count increment by 1, one sum update with the value, and '
    'exactly one bucket increment whose index comes from BucketBinarySearch(value, boundaries); min/max are updated with '
    'min/max of (old, value) and only under record_min_max. C07.R2 (sibling agreement): BucketBinarySearch is lower_bound over '
    '[begin,end) with the index taken from begin (first boundary >= v, i.e. inclusive upper boundary); upper_bound is a '
    'violation. C07.R3 (sentinels): initial min is the top and initial max the bottom of the value type\'s order '
    '(numeric_limits<floating>::min() as a bottom is a violation). C07.R4 (merge shape): HistogramMerge adds counts '
    'element-wise over the full index range, adds sum and count, combines min/max with min/max; every configuring constructor '
    'sizes counts to boundaries.size()+1. C07.R5 (configuration reaches every aggregation): every '
    'DefaultAggregation::CreateAggregation call inside a storage that holds an aggregation config passes it (the default '
    'argument there drops view-configured boundaries). C07.R6 (rejection guard): the histogram instruments drop a value only '
    'behind exactly "value < 0" (or a missing storage).')
EXPLANATION += ' C07.R2 accepts an explicit comparator only when it compares (boundary, value) in double without converting the boundary. The shared rule C06.R1 (Aggregate while holding the table lock) is evaluated for the histogram path.'
EXPLANATION += " C07.R1 min/max obligations are semantic: a write is either the selection min(old, value) (std::min/max or the equivalent conditional expression) or a plain store of the value behind the edge on which the value beats the stored extreme, and a path that writes nothing must have passed the opposite edge. C07.R6 is a decision table: with the storage pointer pinned non-null and every comparison of the value with zero pinned to 'not negative', no path avoids the forwarding call (named booleans, else-chains and conditional expressions are folded by the path explorer)."
ROUND2_EXPLANATION = (' C07.R7: Merge / Diff hand (this point, the point of the argument, result) to HistogramMerge / HistogramDiff; every field difference of HistogramDiff is next - current; Aggregate adds the recorded value itself to sum_ (no narrowing conversion). Shared C06.R9: folding collection intervals accumulates.')
ROUND2_EXPLANATION += (" C07.R1 also: every method of the histogram aggregations touches point_data_ only under the aggregation's lock (LOCK, shared implementation with C06.R1; the same obligation is evaluated for the last-value aggregations as C17.R3). C07.R4 also: Merge / Diff create their result from a configuration that received the current point's boundaries_ on every path before the construction (the bucket loop writes counts_[i] of the result for every bucket of the current point).")
EXPLANATION += ROUND2_EXPLANATION
NOT_DECIDED = 'numeric equality for all value multisets (floating-point sums), equality of merged and jointly recorded points.'

CLASSES = (('sdk::metrics::LongHistogramAggregation', 'long'), ('sdk::metrics::DoubleHistogramAggregation', 'double'))


def rule_r1(ck, prog, cls, ty='double', rule='C07.R1'):
    rec = prog.record(cls)
    fs = [x for x in prog.funcs.values() if x.cls == rec['qn'] and x.name == 'Aggregate' and x.params and x.params[0]['t'] == ty]
    if not fs:
        raise AnalysisBroken('%s::Aggregate(%s) vanished' % (cls, ty))
    f = fs[0]
    g = Graph(prog, f, inline=None, sync_lambdas=False)
    held = held_locks(g)
    vid = f.params[0]['id']
    acc = [p for p in g.points if p.n is not None and p.n['k'] == 'member' and access_path(f, p.n['i'], p.ctx)[:2] == ('this', 'point_data_')]
    unl = [p for p in acc if not any(l.startswith('this.') for l in held.get(p.id, ()))]
    ck.verdict(bool(acc) and not unl, rule, f, 'locked', (unl or acc or [None])[0].n if (unl or acc) else None,
               '%d point-data accesses under the lock' % len(acc) if acc and not unl else 'the point data is updated without the aggregation lock: concurrent Record calls lose updates')

    def writes(field):
        out = []
        for p in g.points:
            n = p.n
            if n is None:
                continue
            tgt = None
            if n['k'] == 'binop' and n['op'] in ('=', '+=', '-='):
                tgt = n['lhs']
            elif n['k'] == 'call' and n.get('op') in ('=', '+=') and n.get('obj') is not None:
                tgt = n['obj']
            elif n['k'] == 'unop' and n['op'] in ('++', '--'):
                tgt = n['e']
            if tgt is None:
                continue
            ap = access_path(f, tgt, p.ctx)
            if ap[:3] == ('this', 'point_data_', field):
                out.append(p)
        return out

    def once(field, desc):
        w = writes(field)
        ok = len(w) >= 1 and g.exit.id not in g.reachable_from(g.entry, avoid=w)
        twice = any(b.id in g.reachable_from([q for (q, _l) in a.succ]) for a in w for b in w)
        ck.verdict(ok and not twice, rule, f, field + ':once-per-path', w[0].n if w else None,
                   '%s exactly once on every path' % desc if ok and not twice else
                   ('a path through Aggregate skips the %s: the value is missing from the point' % desc if not ok else 'the %s happens twice on a path' % desc))
        return w
    wc = once('count_', 'count increment')
    if wc:
        n = wc[0].n
        inc_ok = (n['k'] == 'binop' and n['op'] == '+=' and f.nodes[n['rhs']].get('v') == 1) or (n['k'] == 'unop' and n['op'] == '++')
        ck.verdict(inc_ok, rule, f, 'count_:by-one', n, 'count_ += 1' if inc_ok else 'the count is not incremented by exactly 1')
    ws = once('sum_', 'sum update')
    if ws:
        n = ws[0].n
        rhs = n['rhs'] if n['k'] == 'binop' else (n['args'][0] if n.get('args') else None)
        lv = leaves(f, rhs) if rhs is not None else set()
        has_val = ('param', f.params[0]['name']) in lv
        has_old = any(l[0] == 'field' and l[1].endswith('sum_') for l in lv) or n.get('op') == '+='
        plus = any(f.nodes[i]['k'] == 'binop' and f.nodes[i]['op'] == '+' for i in f.subtree(rhs)) or n.get('op') == '+='
        ck.verdict(has_val and has_old and plus, rule, f, 'sum_:old-plus-value', n, 'sum_ = sum_ + value' if has_val and has_old and plus else 'the sum update is not old sum + value')
    wb = once('counts_', 'bucket increment')
    if wb:
        n = wb[0].n
        tgt = n['lhs'] if n['k'] == 'binop' else (n.get('obj') if n['k'] == 'call' else n['e'])
        tn = f.nodes[tgt]
        idx = tn['args'][0] if tn['k'] == 'call' and tn.get('args') else (tn.get('index') if tn['k'] == 'subscript' else None)
        rd = reaching_defs(g)
        srcs = origins(g, rd, f, idx, wb[0].ctx) if idx is not None else []
        ok = False
        for (sf, sn, sc) in srcs:
            if sn['k'] == 'call' and strip_targs(sn.get('c', '')).endswith('BucketBinarySearch'):
                a0 = strip_casts(sf, sn['args'][0])
                a1 = access_path(sf, sn['args'][1], sc)
                ok = a0.get('id') == vid and a1[:3] == ('this', 'point_data_', 'boundaries_')
        by1 = (n['k'] == 'binop' and n['op'] == '+=' and f.nodes[n['rhs']].get('v') == 1) or (n['k'] == 'unop' and n['op'] == '++') or \
              (n['k'] == 'call' and n.get('op') == '+=' and f.nodes[n['args'][0]].get('v') == 1)
        ck.verdict(ok and by1, rule, f, 'bucket:index-from-search', n, 'counts_[BucketBinarySearch(value, boundaries_)] += 1' if ok and by1 else
                   'the bucket incremented is not the one BucketBinarySearch(value, boundaries_) selects, or not by 1')
    # min_/max_: with the flag set, at the exit min_ == min(old min_, value) (max_ likewise).  A write is either the selection
    # `min_ = min(min_, value)` (std::min/std::max or the equivalent conditional expression), or the plain `min_ = value` behind the
    # edge "value is smaller than min_"; a path that writes nothing must have passed the edge "value is not smaller than min_".
    def rmm_true(a, b, lab):
        if not lab or not isinstance(lab[0], int):
            return False
        core, pol = norm_cond(lab[1], lab[0])
        if access_path(lab[1], core, a.ctx)[-1:] == ('record_min_max_',):
            return (lab[2] if pol else not lab[2]) is True
        return False
    starts = [q for p in g.points for (q, lab) in p.succ if rmm_true(p, q, lab)] or [g.entry]   # no flag test: always enabled
    pname = f.params[0]['name']

    def cmp_edge(fld, fn, want_update):
        """edge predicate: the comparison of value with the stored extreme says "value beats it" (want_update) / "it does not" """
        def pred(a, b, lab):
            if not lab or not isinstance(lab[0], int):
                return False
            core, pol = norm_cond(lab[1], lab[0])
            c = comparison(lab[1], core)
            if not c or c[0] not in ('<', '<=', '>', '>='):
                return False
            op, l, r = c
            ll, lr = leaves(lab[1], l), leaves(lab[1], r)
            is_val = lambda lv: ('param', pname) in lv and not any(x[0] == 'field' for x in lv)
            is_old = lambda lv: any(x[0] == 'field' and x[1].endswith(fld) for x in lv) and ('param', pname) not in lv
            if is_val(lr) and is_old(ll):
                op = FLIP[op]
            elif not (is_val(ll) and is_old(lr)):
                return False
            truth = lab[2] if pol else (not lab[2])
            # now: (value op old) has truth `truth`
            smaller = (op in ('<', '<=') and truth) or (op in ('>', '>=') and not truth)    # value <(=) old
            beats = smaller if fn == 'min' else (not smaller)
            return beats is want_update
        return pred
    for fld, fn in (('min_', 'min'), ('max_', 'max')):
        w = writes(fld)
        if not w:
            ck.violation(rule, f, fld + ':updated', None, '%s is never updated' % fld)
            continue
        bad = None
        for p in w:
            n = p.n
            rhs = n['rhs'] if n['k'] == 'binop' else (n['args'][0] if n.get('args') else None)
            lv = leaves(f, rhs) if rhs is not None else set()
            kind, ops = _select_kind(f, rhs) if rhs is not None else (None, [])
            if kind is not None:
                olv = [leaves(f, o) for o in ops]
                sel_ok = kind == fn and any(('param', pname) in x for x in olv) and any(any(l[0] == 'field' and l[1].endswith(fld) for l in x) for x in olv)
                if not sel_ok:
                    bad = (p, 'selects %s of %s' % (kind, ' and '.join(sorted({l[1] if isinstance(l[1], str) else '?' for x in olv for l in x}))))
            elif ('param', pname) in lv and not any(l[0] == 'field' for l in lv):
                if not g.must_pass_edge(p, cmp_edge(fld, fn, True)):
                    bad = (p, 'stores the value without having compared it with the stored %s' % fld)
            else:
                bad = (p, 'is neither %s(old, value) nor a guarded store of the value' % fn)
        ok = bad is None
        ck.verdict(ok, rule, f, fld + ':' + fn + '-of-old-and-value', (bad[0] if bad else w[0]).n, '%s becomes %s(%s, value)' % (fld, fn, fld) if ok else
                   '%s is not updated as %s(old, value): the update %s' % (fld, fn, bad[1]))
    # with the flag set both extremes are right on every path (count, sum and bucket are covered by the once-per-path obligations
    # above, so an early return after them is harmless)
    skipped = [fld for fld, fn in (('min_', 'min'), ('max_', 'max'))
               if starts and g.exit.id in g.reachable_from(starts, avoid=writes(fld), avoid_edges=cmp_edge(fld, fn, False))]
    ck.verdict(bool(starts) and not skipped, rule, f, 'flag-set=>both-extremes-updated', starts[0].n if starts else None,
               'behind the record_min_max edge every path updates min_ and max_ (or has found the value not to beat them)' if starts and not skipped else
               'with record_min_max set a path through Aggregate leaves %s untouched: the reported extreme is not the smallest / largest recorded value' % (', '.join(skipped) or 'min_/max_'))


def _comparator_in_double(prog, f, arg):
    """None when the comparator is `(double b, T v) { return b < v; }` with no conversion of b away from double."""
    lam = None
    for i in f.subtree(arg):
        if f.nodes[i]['k'] == 'lambda':
            lam = f.nodes[i]
    if lam is None or lam.get('fn') not in prog.funcs:
        return ('I', 'the bucket search takes a comparator that is not a lambda in place: not analysed')
    lf = prog.funcs[lam['fn']]
    rets = [n for n in lf.nodes if n['k'] == 'return']
    if len(rets) != 1 or len(lf.params) != 2:
        return ('I', 'comparator shape not recognised (one return over two parameters expected)')
    e = lf.nodes[rets[0]['e']]
    while e['k'] in ('cast', 'paren') and e.get('e', -1) >= 0 and lf.nodes[e['e']]['k'] != 'ref':
        e = lf.nodes[e['e']]
    if e['k'] != 'binop' or e['op'] != '<':
        return ('V', 'the comparator of the bucket search is not `boundary < value`: values equal to a boundary change bucket')
    def side(i):
        """(param index, types the parameter is converted through)"""
        n = lf.nodes[i]
        conv = []
        while n['k'] in ('cast', 'paren', 'construct') :
            if n['k'] == 'cast':
                conv.append(n['t'])
            sub = n.get('e') if n['k'] != 'construct' else (n['args'][0] if len(n.get('args', [])) == 1 else None)
            if sub is None or sub < 0:
                break
            n = lf.nodes[sub]
        if n['k'] != 'ref':
            return None, conv
        for k, p in enumerate(lf.params):
            if p['id'] == n.get('id'):
                return k, conv
        return None, conv
    l, lconv = side(e['lhs'])
    r, rconv = side(e['rhs'])
    if l != 0 or r != 1:
        return ('V', 'the comparator of the bucket search does not compare (boundary, value) in that order')
    bad = [t for t in lconv if t.replace('const ', '') not in ('double', 'long double')]
    if bad:
        return ('V', 'the comparator converts the boundary to %s before comparing: boundaries >= 2^63 (1e19, +Inf) are out of range for the '
                     'conversion and fractional boundaries are truncated, so a value lands in the wrong bucket' % bad[0])
    if not any(t.replace('const ', '') in ('double', 'long double') for t in rconv) and lf.params[1]['t'].replace('const ', '') not in ('double', 'long double'):
        return ('V', 'the comparator does not compare in double')
    return None


def rule_r2(ck, prog, rule='C07.R2'):
    fs = prog.functions('sdk::metrics::BucketBinarySearch')
    if not fs:
        raise AnalysisBroken('BucketBinarySearch not instantiated')
    for f in fs:
        algos = [n for n in f.nodes if n['k'] == 'call' and strip_targs(n.get('c', '')) in ('std::lower_bound', 'std::upper_bound', 'std::equal_range', 'std::binary_search', 'std::find_if', 'std::partition_point')]
        site = 'search(%s)' % f.params[0]['t']
        if not algos:
            ck.inconclusive(rule, f, site, None, 'hand-written bucket search: shape not recognised')
            continue
        a = algos[0]
        name = strip_targs(a['c'])
        if name != 'std::lower_bound':
            ck.violation(rule, f, site, a, 'the bucket search uses %s: a value equal to a boundary lands in the bucket above it (the upper boundary must be inclusive: b[i-1] < v <= b[i])' % name)
            continue
        names = [strip_targs(f.nodes[i].get('c', '')).rsplit('::', 1)[-1] for arg in a['args'][:2] for i in f.subtree(arg) if f.nodes[i]['k'] == 'call']
        ok = names[:1] == ['begin'] and 'end' in names and strip_casts(f, a['args'][2]).get('id') == f.params[0]['id']
        if ok and len(a['args']) > 3:
            # an explicit comparator: it has to be `boundary < value` evaluated in double (the order the statement is written in);
            # converting the boundary to the value's type is out of range for boundaries >= 2^63 and truncates fractional ones
            why = _comparator_in_double(prog, f, a['args'][3])
            if why is not None:
                (ck.violation if why[0] == 'V' else ck.inconclusive)(rule, f, site, a, why[1])
                continue
        rets = [n for n in f.nodes if n['k'] == 'return']
        if ok and rets:
            r = strip_casts(f, rets[0]['e'])
            sub = [strip_targs(f.nodes[i].get('c', '')).rsplit('::', 1)[-1] for i in f.subtree(r['i']) if f.nodes[i]['k'] == 'call']
            ok = 'begin' in sub and ('operator-' in sub or any(f.nodes[i]['k'] == 'binop' and f.nodes[i]['op'] == '-' for i in f.subtree(r['i'])))
        ck.verdict(ok, rule, f, site, a, 'lower_bound(begin, end, value) - begin' if ok else 'the bucket index is not lower_bound over the whole boundary list measured from begin')


def rule_r3(ck, prog, cls, ty, rule='C07.R3'):
    rec = prog.record(cls)
    for f in [x for x in prog.funcs.values() if x.cls == rec['qn'] and x.kind == 'ctor' and x.params and 'AggregationConfig' in x.params[0]['t']]:
        for fld, want in (('min_', 'top'), ('max_', 'bottom')):
            ws = [n for n in f.nodes if n['k'] == 'call' and n.get('op') == '=' and n.get('obj') is not None and access_path(f, n['obj'])[:3] == ('this', 'point_data_', fld)] + \
                 [n for n in f.nodes if n['k'] == 'binop' and n['op'] == '=' and access_path(f, n['lhs'])[:3] == ('this', 'point_data_', fld)]
            if not ws:
                ck.violation(rule, f, fld + ':sentinel', None, '%s has no initial sentinel' % fld)
                continue
            n = ws[0]
            rhs = n['args'][0] if n['k'] == 'call' else n['rhs']
            lim = [f.nodes[i] for i in f.subtree(rhs) if f.nodes[i]['k'] == 'call' and strip_targs(f.nodes[i].get('c', '')).startswith('std::numeric_limits::')]
            neg = any(f.nodes[i]['k'] == 'unop' and f.nodes[i]['op'] == '-' for i in f.subtree(rhs))
            if not lim:
                ck.inconclusive(rule, f, fld + ':sentinel', n, 'sentinel is not a numeric_limits value')
                continue
            m = strip_targs(lim[0]['c']).rsplit('::', 1)[-1]
            is_float = 'numeric_limits<double>' in lim[0].get('ck', '') or 'numeric_limits<float>' in lim[0].get('ck', '')
            if want == 'top':
                ok = m in ('max', 'infinity') and not neg
            else:
                ok = (m == 'lowest') or (m in ('max', 'infinity') and neg) or (m == 'min' and not is_float)
            ck.verdict(ok, rule, f, fld + ':sentinel', n, 'initial %s is the %s of the order (%s%s)' % (fld, want, '-' if neg else '', m) if ok else
                       'initial %s is numeric_limits::%s%s, which is not the %s of the value order%s' %
                       (fld, m, ' negated' if neg else '', want, ' (for floating types min() is the smallest positive value: a histogram of non-positive values reports it as max)' if m == 'min' and is_float else ''))


def _select_kind(f, idx):
    """('min' | 'max' | None, [operand idx, operand idx]) for std::min / std::max calls and for the conditional expressions that
    select the smaller / larger of two operands (a < b ? a : b, b > a ? a : b, ...)"""
    n = strip_casts(f, idx)
    hops = 0
    while n['k'] in ('construct', 'call') and hops < 4 and not (n['k'] == 'call' and strip_targs(n.get('c', '')) in ('std::min', 'std::max')):
        # conversions into the point's variant type
        args = [a for a in n.get('args', []) if a is not None and a >= 0]
        if len(args) != 1:
            break
        n = strip_casts(f, args[0])
        hops += 1
    if n['k'] == 'call' and strip_targs(n.get('c', '')) in ('std::min', 'std::max') and len(n.get('args', [])) >= 2:
        return strip_targs(n['c']).split('::')[1], n['args'][:2]
    if n['k'] == 'cond':
        c = comparison(f, n['cnd'])
        if c and c[0] in ('<', '<=', '>', '>='):
            op, l, r = c
            a, b = n['a'], n['b']
            same = lambda x, y: expr_equal_loose(f, x, y)
            less = op in ('<', '<=')
            if same(a, l) and same(b, r):
                return ('min' if less else 'max'), [l, r]
            if same(a, r) and same(b, l):
                return ('max' if less else 'min'), [l, r]
    return None, []


def expr_equal_loose(f, x, y):
    a, b = strip_casts(f, x), strip_casts(f, y)
    if a['k'] == 'ref' and b['k'] == 'ref':
        return a.get('id') == b.get('id')
    from .common import expr_equal
    return expr_equal(f, x, y)


def rule_r4_result_sized(ck, prog, rule='C07.R4'):
    """Merge / Diff of the histogram aggregations write counts_[i] of a freshly created aggregation for every bucket of the current
    point, so the fresh aggregation has to be created for the current point's boundaries: the configuration handed to its
    constructor receives `boundaries_` of this aggregation's point on every path before the construction"""
    cnt = 0
    for cls in ('LongHistogramAggregation', 'DoubleHistogramAggregation'):
        for meth in ('Merge', 'Diff'):
            f = prog.function('sdk::metrics::%s::%s' % (cls, meth))
            g = Graph(prog, f, inline=None, sync_lambdas=False)
            rd = reaching_defs(g)
            news = [p for p in g.points if p.n is not None and p.n['k'] == 'new' and 'HistogramAggregation' in (p.n.get('ty') or '')]
            site = 'result-sized-for-current-boundaries@%s::%s' % (cls, meth)
            if not news:
                ck.inconclusive(rule, f, site, None, 'the result aggregation is not created by new: not decided')
                continue
            cnt += 1
            np_ = news[0]
            # the constructor argument: &config
            init = f.nodes[np_.n['init']] if np_.n.get('init') is not None and np_.n['init'] >= 0 else None
            cfg = None
            if init is not None and init['k'] == 'construct' and init.get('args'):
                a = strip_casts(f, init['args'][0])
                if a['k'] == 'unop' and a.get('op') == '&':
                    r_ = strip_casts(f, a['e'])
                    if r_['k'] == 'ref' and r_.get('sk') == 'local':
                        cfg = r_
                elif init.get('copymove') or 'HistogramPointData' in (init.get('ck') or ''):
                    cfg = 'point'
            if cfg == 'point':
                ck.inconclusive(rule, f, site, np_.n, 'the result is constructed from a point, not from a configuration: not decided')
                continue
            if cfg is None:
                ck.inconclusive(rule, f, site, np_.n, 'constructor argument of the result aggregation not recognised as the address of a local configuration')
                continue
            root = 'local:%s:%s' % (cfg['id'], cfg['name'])
            stores = []
            for p in g.points:
                n = p.n
                if n is not None and n['k'] == 'call' and n.get('op') == '=' and n.get('obj') is not None and access_path(f, n['obj']) == (root, 'boundaries_') and n.get('args'):
                    src = access_path(f, n['args'][-1])
                    good = False
                    if src[-1:] == ('boundaries_',):
                        if src[:2] == ('this', 'point_data_'):
                            good = True
                        elif src[0].startswith('local:'):
                            # a local copy of this aggregation's point: initialised from ToPoint() called on this / point_data_
                            lid = int(src[0].split(':')[1])
                            for m in f.nodes:
                                if m['k'] == 'declstmt':
                                    for d in m['decls']:
                                        if d['id'] == lid and d.get('init') is not None and d['init'] >= 0:
                                            sub = [f.nodes[j] for j in list(f.subtree(d['init'])) + [d['init']]]
                                            calls = [x for x in sub if x['k'] == 'call' and strip_targs(x.get('c', '')).endswith('::ToPoint')]
                                            if any(x.get('obj') is None or f.nodes[x['obj']]['k'] == 'this' or strip_casts(f, x['obj'])['k'] == 'this' for x in calls) or \
                                                    any(x['k'] == 'member' and x['name'] == 'point_data_' and access_path(f, x['i'])[:1] == ('this',) for x in sub):
                                                good = True
                    stores.append((p, good))
            goods = [p for (p, ok_) in stores if ok_]
            ok = bool(goods) and np_.id not in g.reachable_from(g.entry, avoid=goods) and \
                not any(np_.id in g.reachable_from([q for (q, _l) in p.succ], avoid=goods) for (p, ok_) in stores if not ok_)
            ck.verdict(ok, rule, f, site, np_.n, 'the configuration of the result carries the current point\'s boundaries' if ok else
                       '%s::%s creates its result without giving it the boundaries of the current point: with view-configured boundaries the bucket loop writes past the counts_ of the result / the result is sized for other boundaries' % (cls, meth))
    return cnt


def rule_r4(ck, prog, rule='C07.R4'):
    fs = prog.functions('sdk::metrics::HistogramMerge')
    if not fs:
        raise AnalysisBroken('HistogramMerge not instantiated')
    for f in fs:
        cur, dlt, mrg = [p['name'] for p in f.params]
        loops = [n for n in f.nodes if n['k'] == 'for']
        ok = len(loops) == 1
        why = 'no single element-wise loop'
        tr = [n for n in f.nodes if n['k'] == 'call' and strip_targs(n.get('c', '')) == 'std::transform' and len(n.get('args', [])) == 5]
        if not loops and len(tr) == 1:
            # std::transform(a.begin(), a.end(), b.begin(), m.begin(), std::plus<>): the same element-wise sum over the whole range
            a = tr[0]['args']
            def rng(i):
                calls = [f.nodes[j] for j in f.subtree(i) if f.nodes[j]['k'] == 'call' and f.nodes[j].get('obj') is not None]
                for c_ in calls:
                    nm = strip_targs(c_.get('c', '')).rsplit('::', 1)[-1]
                    if nm in ('begin', 'cbegin', 'end', 'cend'):
                        return access_path(f, c_['obj']), nm
                return None, None
            (p0, n0), (p1, n1), (p2, n2), (p3, n3) = rng(a[0]), rng(a[1]), rng(a[2]), rng(a[3])
            plus = 'std::plus' in (f.nodes[a[4]].get('t') or '') or any('std::plus' in (f.nodes[j].get('t') or '') for j in f.subtree(a[4]))
            ok = bool(plus) and p0 == p1 and n0 in ('begin', 'cbegin') and n1 in ('end', 'cend') and n2 in ('begin', 'cbegin') and n3 == 'begin' and \
                {p0, p2} == {('param:' + cur, 'counts_'), ('param:' + dlt, 'counts_')} and p3 == ('param:' + mrg, 'counts_')
            why = 'std::transform does not add the two count vectors element-wise into the merged one'
            ck.verdict(ok, rule, f, 'counts-elementwise', tr[0], 'counts added element-wise (std::transform with std::plus over the whole range)' if ok else why)
        elif ok:
            lp = loops[0]
            c = comparison(f, lp['cnd'])
            bound = [strip_targs(f.nodes[i].get('c', '')).rsplit('::', 1)[-1] for i in f.subtree(c[2])] if c else []
            full = c and c[0] == '<' and 'size' in bound and f.nodes[f.nodes[lp['init']]['decls'][0]['init']].get('v') == 0
            body = [f.nodes[i] for i in f.subtree(lp['body'])]
            plus = [n for n in body if n['k'] == 'binop' and n['op'] == '+']
            early = [n for n in body if n['k'] in ('break', 'return', 'continue')]
            ok = bool(full) and len(plus) == 1 and not early
            why = 'the counts are not added element-wise over the whole index range'
        if not (not loops and len(tr) == 1):
            ck.verdict(ok, rule, f, 'counts-elementwise', loops[0] if loops else None, 'counts added element-wise over [0,size)' if ok else why)
        for fld in ('sum_', 'count_'):
            ws = [n for n in f.nodes if (n['k'] == 'binop' and n['op'] == '=' and access_path(f, n['lhs']) == ('param:' + mrg, fld)) or
                  (n['k'] == 'call' and n.get('op') == '=' and n.get('obj') is not None and access_path(f, n['obj']) == ('param:' + mrg, fld))]
            ok = False
            if ws:
                rhs = ws[0]['rhs'] if ws[0]['k'] == 'binop' else ws[0]['args'][0]
                lv = leaves(f, rhs)
                srcs = {l[1] for l in lv if l[0] == 'param'}
                ok = {cur, dlt} <= srcs and any(f.nodes[i]['k'] == 'binop' and f.nodes[i]['op'] == '+' for i in f.subtree(rhs))
            ck.verdict(ok, rule, f, fld + ':added', ws[0] if ws else None, '%s = current + delta' % fld if ok else 'the merged %s is not current + delta' % fld)
        for fld, fn in (('min_', 'std::min'), ('max_', 'std::max')):
            ws = [n for n in f.nodes if n['k'] == 'call' and n.get('op') == '=' and n.get('obj') is not None and access_path(f, n['obj']) == ('param:' + mrg, fld)]
            ok = False
            if ws:
                kind, ops = _select_kind(f, ws[0]['args'][0])
                if kind == fn.split('::')[1] and len(ops) == 2:
                    srcs = [{l[1] for l in leaves(f, o) if l[0] == 'param'} for o in ops]
                    flds = [any(f.nodes[j]['k'] == 'member' and f.nodes[j]['name'] == fld for j in subtree_through_locals(f, o)) for o in ops]
                    ok = all(flds) and sorted(map(sorted, srcs)) == sorted([[cur], [dlt]])
            ck.verdict(ok, rule, f, fld + ':combined', ws[0] if ws else None, '%s = %s(current, delta)' % (fld, fn.split('::')[1]) if ok else 'the merged %s is not %s of both operands' % (fld, fn.split('::')[1]))
    for cls, ty in CLASSES:
        rec = prog.record(cls)
        for f in [x for x in prog.funcs.values() if x.cls == rec['qn'] and x.kind == 'ctor' and x.params and 'AggregationConfig' in x.params[0]['t']]:
            g = Graph(prog, f, inline=None, sync_lambdas=False)
            rd = reaching_defs(g)
            ws = [p for p in g.points if p.n is not None and p.n['k'] == 'call' and p.n.get('op') == '=' and p.n.get('obj') is not None and access_path(f, p.n['obj'])[:3] == ('this', 'point_data_', 'counts_')]
            ok = False
            lin = None
            if ws:
                cons = [f.nodes[i] for i in f.subtree(ws[0].n['args'][0]) if f.nodes[i]['k'] == 'construct' and 'vector' in strip_targs(f.nodes[i].get('c', ''))]
                if cons and cons[0].get('args'):
                    lin = linear(g, rd, f, cons[0]['args'][0], ws[0].ctx)
                    ok = lin == {'this.point_data_.boundaries_.size()': 1, '1': 1}
            ck.verdict(ok, rule, f, 'counts-sized', ws[0].n if ws else None, 'counts_ has boundaries.size()+1 buckets' if ok else
                       'counts_ is sized %s, not boundaries.size()+1: the overflow bucket is missing (out-of-bounds increment for values above the top boundary)' % fmt(lin))


def rule_r5(ck, prog, rule='C07.R5', classes=('sdk::metrics::TemporalMetricStorage', 'sdk::metrics::SyncMetricStorage')):
    # (AsyncMetricStorage is left out on purpose: there is no observable histogram, its aggregations take no config)
    cnt = 0
    for cls in classes:
        before = cnt
        r = prog.record(cls)
        has_cfg = any('aggregation_config' in fd['name'] for fd in r['fields']) or \
            any('aggregation_config' in p['name'] for x in prog.funcs.values() if x.cls == r['qn'] and x.kind == 'ctor' for p in x.params)
        fs = [x for x in prog.funcs.values() if x.cls == r['qn']]
        keys = {x.key for x in fs}
        changed = True
        while changed:
            changed = False
            for x in prog.funcs.values():
                if x.key not in keys and x.d.get('lambda') and x.d.get('parent') in keys:
                    keys.add(x.key)
                    changed = True
            # file-local helpers the members call (a block moved into an anonymous-namespace function)
            for k in list(keys):
                for n in prog.funcs[k].nodes:
                    ck_ = n.get('ck') if n['k'] == 'call' else None
                    if ck_ and ck_ not in keys and ck_ in prog.funcs and prog.funcs[ck_].d.get('local') and prog.funcs[ck_].blocks:
                        keys.add(ck_)
                        changed = True
        for f in sorted([prog.funcs[k] for k in keys], key=lambda x: x.line):
            for n in f.nodes:
                if n['k'] == 'call' and strip_targs(n.get('c', '')).endswith('DefaultAggregation::CreateAggregation') and len(n.get('args', [])) == 3:
                    cnt += 1
                    host = f
                    while host.d.get('lambda') and host.d.get('parent') in prog.funcs:
                        host = prog.funcs[host.d['parent']]
                    site = 'create-aggregation@%s#%d' % (host.name, sum(1 for m in f.nodes[:n['i']] if m['k'] == 'call' and strip_targs(m.get('c', '')).endswith('DefaultAggregation::CreateAggregation')))
                    if n.get('defargs'):
                        if has_cfg:
                            ck.violation(rule, f, site, n,
                                         '%s creates an aggregation with the default configuration although the storage holds an aggregation config: view-configured histogram boundaries are dropped for this point (buckets no longer match the other points of the series)' % short(host))
                        else:
                            ck.holds(rule, f, site, n, 'no configuration available in this class')
                    else:
                        lv = leaves(f, n['args'][2])
                        ok = any('aggregation_config' in (l[1] if isinstance(l[1], str) else '') for l in lv) or any(l[0] in ('param', 'local', 'field') for l in lv)
                        ck.verdict(ok, rule, f, site, n, 'configuration passed' if ok else 'the configuration argument does not come from the stored config')
        if cnt == before:
            raise AnalysisBroken('%s creates no aggregation (no DefaultAggregation::CreateAggregation call found in its members)' % cls)
    return cnt


def rule_r6(ck, prog, rule='C07.R6'):
    cnt = 0
    for cls, signed in (('sdk::metrics::DoubleHistogram', True), ('sdk::metrics::LongHistogram', False)):
        rec = prog.record(cls)
        rec_fields = list(rec['fields'])
        for b_ in rec.get('bases', []):
            try:
                rec_fields += prog.record(strip_targs(b_['t']))['fields']
            except Exception:
                pass
        for f in sorted([x for x in prog.funcs.values() if x.cls == rec['qn'] and x.name == 'Record'], key=lambda x: x.line):
            cnt += 1
            g = Graph(prog, f, inline=None, sync_lambdas=False)
            site = 'reject-guard(%d params)' % len(f.params)
            recs = [p for p in g.points if p.n is not None and p.n['k'] == 'call' and strip_targs(p.n.get('c', '')).rsplit('::', 1)[-1] in ('RecordDouble', 'RecordLong')]
            if not recs:
                ck.violation(rule, f, site, None, 'Record never forwards to the storage')
                continue
            vid = f.params[0]['id']

            # decision table: in the scenario "the value is not negative and there is a storage" every path forwards the value
            # (what happens to negative values is not part of the property)
            def storage_path(ap):
                return len(ap) == 2 and ap[0] == 'this' and any(fd['name'] == ap[1] and 'Storage' in fd['t'] for fd in rec_fields)
            pins = dict(pointer_pins(f, storage_path, True))
            pins.update(sign_pins(f, vid, False))
            bad = feasible_reach(g, [g.entry], [g.exit], avoid=recs, pins=pins)
            ok = bad is None
            why = 'Record can drop a value on a path that is neither "value < 0" nor "no storage": legitimate values (e.g. 0, tiny or large ones) never reach the histogram'
            ck.verdict(ok, rule, f, site, recs[0].n, 'with a storage every non-negative value is forwarded (decision table over value<0 / storage!=null)' if ok else why,
                       path=None if ok else g.describe_path(bad or []))
    return cnt


def rule_r7(ck, prog, rule='C07.R7'):
    """orientation of combining two histogram points: Merge / Diff of the aggregation hand (this point, argument's point, result) to
    HistogramMerge / HistogramDiff in that order, and HistogramDiff subtracts the current point from the next one (a swapped pair
    gives negative - wrapped - bucket counts for every delta reader of the cumulative state).  Also: Aggregate adds the recorded
    value itself to the sum (no narrowing conversion on the way)."""
    from .common import subtree_through_locals
    cnt = 0
    for cls, ty in CLASSES:
        rec = prog.record(cls)
        for name, helper in (('Merge', 'HistogramMerge'), ('Diff', 'HistogramDiff')):
            fs = [x for x in prog.funcs.values() if x.cls == rec['qn'] and x.name == name and x.blocks]
            if not fs:
                continue
            f = fs[0]
            calls = [n for n in f.nodes if n['k'] == 'call' and strip_targs(n.get('c', '')).rsplit('::', 1)[-1] == helper and len(n.get('args', [])) >= 2]
            cnt += 1
            site = 'orientation:%s::%s' % (cls.rsplit('::', 1)[-1], name)
            if len(calls) != 1:
                ck.inconclusive(rule, f, site, None, 'the call of %s was not found' % helper)
                continue
            other = f.params[0]['id']

            def side(idx):
                sub = [f.nodes[i] for i in list(subtree_through_locals(f, idx)) + [idx]]
                from_arg = any(n['k'] == 'ref' and n.get('id') == other for n in sub)
                tp = [n for n in sub if n['k'] == 'call' and strip_targs(n.get('c', '')).endswith('::ToPoint')]
                from_this = any(n.get('obj') is None or strip_casts(f, n['obj'])['k'] == 'this' for n in tp) or any(n['k'] == 'member' and access_path(f, n['i'])[:2] == ('this', 'point_data_') for n in sub)
                return 'arg' if from_arg else ('this' if from_this else '?')
            got = [side(calls[0]['args'][0]), side(calls[0]['args'][1])]
            if '?' in got:
                ck.inconclusive(rule, f, site, calls[0], 'the operands handed to %s were not resolved' % helper)
            else:
                ck.verdict(got == ['this', 'arg'], rule, f, site, calls[0], '%s(this point, argument\'s point, result)' % helper if got == ['this', 'arg'] else
                           '%s::%s hands (%s, %s) to %s, which expects (this point, argument\'s point): %s' % (
                               cls.rsplit('::', 1)[-1], name, got[0], got[1], helper,
                               'the difference is taken the wrong way round (bucket counts wrap below zero)' if name == 'Diff' else 'min/max flags and boundaries are taken from the wrong side'))
    for f in sorted(prog.functions('sdk::metrics::HistogramDiff'), key=lambda x: x.key)[:1]:
        cur, nxt = f.params[0]['id'], f.params[1]['id']
        subs = [n for n in f.nodes if n['k'] == 'binop' and n['op'] == '-' and ('counts_' in str([f.nodes[i].get('name') for i in f.subtree(n['i'])]) or
                                                                           'count_' in str([f.nodes[i].get('name') for i in f.subtree(n['i'])]) or
                                                                           'sum_' in str([f.nodes[i].get('name') for i in f.subtree(n['i'])]))]
        cnt += 1
        bad = None
        for n in subs:
            l = {f.nodes[i].get('id') for i in list(f.subtree(n['lhs'])) + [n['lhs']] if f.nodes[i]['k'] == 'ref'}
            r = {f.nodes[i].get('id') for i in list(f.subtree(n['rhs'])) + [n['rhs']] if f.nodes[i]['k'] == 'ref'}
            if not (nxt in l and cur in r and cur not in l and nxt not in r):
                bad = n
        if not subs:
            ck.inconclusive(rule, f, 'diff-is-next-minus-current', None, 'no subtraction of point fields found in HistogramDiff')
        else:
            ck.verdict(bad is None, rule, f, 'diff-is-next-minus-current', bad or subs[0], 'every field difference is next - current (%d subtractions)' % len(subs) if bad is None else
                       'HistogramDiff subtracts the wrong way round: the delta of a growing histogram is negative (unsigned bucket counts wrap)')
    for cls, ty in CLASSES:
        rec = prog.record(cls)
        for f in [x for x in prog.funcs.values() if x.cls == rec['qn'] and x.name == 'Aggregate' and x.blocks and x.params and x.params[0]['t'] == ty]:
            val = f.params[0]['id']
            sums = [n for n in f.nodes if n['k'] in ('binop', 'call') and ((n['k'] == 'binop' and n['op'] in ('=', '+=')) or n.get('op') in ('=', '+=')) and
                    any(f.nodes[i]['k'] == 'member' and f.nodes[i].get('name') == 'sum_' for i in list(f.subtree(n.get('lhs', n.get('obj')) if n.get('lhs', n.get('obj')) is not None else n['i'])))]
            cnt += 1
            if not sums:
                ck.inconclusive(rule, f, 'sum-adds-the-value:%s' % ty, None, 'the update of sum_ was not found')
                continue
            rhs = sums[0]['rhs'] if sums[0]['k'] == 'binop' else (sums[0]['args'][0] if sums[0].get('args') else None)
            narrowed = None
            uses = False
            for i in (list(f.subtree(rhs)) + [rhs]) if rhs is not None else []:
                n = f.nodes[i]
                if n['k'] == 'ref' and n.get('id') == val:
                    uses = True
                if n['k'] == 'cast' and any(f.nodes[j]['k'] == 'ref' and f.nodes[j].get('id') == val for j in list(f.subtree(n['e'])) + [n['e']]):
                    to = (n.get('to') or n.get('t') or '')
                    src = f.nodes[n['e']].get('t') or ''
                    if ty == 'double' and to not in ('double', 'const double', 'long double') and 'variant' not in to and 'double' in src:
                        narrowed = (n, to)
                    if ty == 'long' and to in ('int', 'short', 'char', 'unsigned int', 'float'):
                        narrowed = (n, to)
            ok = uses and narrowed is None
            ck.verdict(ok, rule, f, 'sum-adds-the-value:%s' % ty, narrowed[0] if narrowed else sums[0],
                       'sum_ grows by the recorded value itself' if ok else
                       ('the value is converted to %s before it is added to the sum: fractions (or high bits) of every recorded value are lost' % narrowed[1] if narrowed else
                        'the update of sum_ does not use the recorded value'))
    return cnt


def run(ck, prog):
    ck.doc('C07.R1', 'Aggregate: locked; count, sum and exactly one bucket updated on every path; min/max under the flag', 18)
    ck.doc('C07.R2', 'BucketBinarySearch is lower_bound over [begin,end) measured from begin (inclusive upper boundary)', 2)
    ck.doc('C07.R3', 'initial min/max are the top/bottom of the value order', 4)
    ck.doc('C07.R4', 'HistogramMerge shape; counts sized boundaries.size()+1', 10)
    ck.doc('C07.R5', 'the aggregation config reaches every CreateAggregation call of a storage', 2)
    ck.doc('C07.R7', 'orientation of Merge / Diff (this point, argument\'s point), HistogramDiff is next - current, Aggregate adds the value itself to the sum', 5)
    ck.doc('C07.R6', 'histogram instruments drop a value only behind value < 0 / missing storage', 4)
    ck.doc('C06.R1', '(shared rule, see C06) the storage aggregates into the looked-up histogram while holding the table lock', 4)
    ck.doc('C08.R2', '(shared rule, see C08) one point per attribute set: every constructor / mutation of the series key ends in UpdateHash()', 5)
    with ck.canary('C07.R1'):
        rule_r1(ck, prog, 'canary::c07::BadHistogram')
    with ck.canary('C07.R3'):
        rule_r3(ck, prog, 'canary::c07::BadHistogram', 'double')
    for cls, ty in CLASSES:
        rule_r1(ck, prog, cls, ty)
        rule_r3(ck, prog, cls, ty)
    rule_r2(ck, prog)
    rule_r4(ck, prog)
    rule_r4_result_sized(ck, prog)
    # LOCK: every method of the histogram aggregations touches the point only under the aggregation's lock (Aggregate on the
    # recording threads races ToPoint / Merge / Diff on the collecting thread otherwise: a torn point is not an exact summary)
    from . import c06 as _c06
    _c06.rule_r1_fields(ck, prog, 'sdk::metrics::LongHistogramAggregation', ['point_data_'], rule='C07.R1')
    _c06.rule_r1_fields(ck, prog, 'sdk::metrics::DoubleHistogramAggregation', ['point_data_'], rule='C07.R1')
    rule_r5(ck, prog)
    rule_r6(ck, prog)
    rule_r7(ck, prog)
    from . import c06, c08
    c06.rule_r1_sync(ck, prog)
    c08.rule_r2(ck, prog)
    ck.doc('C06.R9', '(shared rule, see C06) folding collection intervals into one map accumulates (merge with the found entry, never overwrite it)', 2)
    c06.rule_r9(ck, prog)
    return {}
