"""C20 - nostd vocabulary types behave like the std types they stand in for (narrow structural claim)."""
import os
import re
import subprocess

from ..ir import AnalysisBroken, strip_targs, qmatch, VERIF, REPO, unit_flags
from ..graph import Graph
from ..expr import access_path, path_str, reaching_defs, norm_cond, origins, leaves, defs_in_node
from ..linear import linear, relation, fmt, rel_str
from ..symb import eval3
from .common import strip_casts, short, comparison, once_init, same_class_inline

UNITS = []
DRIVERS = ['nostd.cc']
CANARIES = ['c20_canary.cc']

EXPLANATION = (
    'Narrow claim - ownership discipline and a few guard/shape facts only. C20.R1 (typestate of assignment): in every copy/move '
    'assignment operator of nostd::shared_ptr the body is guarded by object identity (this against the address of the argument, '
    'not a comparison of pointees), and the own state is released only after the source has been copied/moved into a local '
    'temporary (so a source living inside the released object stays valid); unique_ptr move assignment releases the source inside '
    'the reset call. C20.R2 (type-level witnesses, compile-fail): witness/nostd.cc is type-checked with the build\'s flags; each '
    'static_assert (unique ownership not copyable, nothrow moves, trivially copyable views, explicit conversion to std::string, '
    'alternatives of AttributeValue, pointer conversions) is one obligation. C20.R3 (necessary condition of equality, three-valued '
    'evaluation): string_view operator== cannot return true when the two lengths differ; compare() orders by size when the common '
    'prefix is equal. C20.R4 (guards): substr fails exactly for pos > size, clips the count with min(n, size-pos) and starts at '
    'data+pos; find searches [pos, size) only behind pos < size and reports the offset from data(); span element access and '
    'sub-views use the stored pointer plus the requested offset.')
EXPLANATION += ' C20.R1 also covers nostd::unique_ptr: outside constructors ptr_ is written only by reset/release/swap, reset deletes before it overwrites, and every assignment overload instantiated in the driver (same type, converting, from std::unique_ptr, nullptr) is reset(other.release()) / reset(). C20.R5: std::hash<nostd::string_view> is, on every path, std::hash<std::string> of string(data(), size()). Witnesses W23/W24: copying a function_ref selects the trivial copy/move constructor, not the converting template.'
ROUND2_EXPLANATION = (' C20.R4 also: the count handed to Traits::find is size - pos. C20.R6 (string_view siblings): operator< / > are the sign of compare (3-row table), every != and mixed == overload delegates to == on its own operands in order, compare overloads hand their (pos, count) pairs to substr of the operand they belong to, find reports data()-relative offsets (constant folding). C20.R7 (span): size / empty / begin / end / data / operator[] and the index assertion as tables over the extent; span(first, last) takes extent last - first.')
ROUND2_EXPLANATION += (' C20.R8: the unique_ptr observer / release table over the single pointer member (found by type): release() returns the stored pointer and leaves null on every path, operator bool is the comparison with null, get / operator-> / operator* yield the stored pointer, swap exchanges both sides, the conversion to std::unique_ptr goes through release().')
EXPLANATION += ROUND2_EXPLANATION
NOT_DECIDED = ('equivalence with the std types for every operation over runtime values: comparisons and ordering in general, the hash values themselves, '
               'find/substr results, variant selection/visitation/valueless ordering (vendored absl code is outside the analysed scope), '
               'function_ref invocation.')


def rule_r1(ck, prog, rule='C20.R1', cls='nostd::shared_ptr'):
    fs = [f for f in prog.functions(cls + '::operator=') if f.kind in ('copyassign', 'moveassign')]
    if len(fs) < 2:
        raise AnalysisBroken('%s: copy and move assignment not both instantiated' % cls)
    seen = set()
    for f in sorted(fs, key=lambda x: x.line):
        if f.kind in seen:
            continue
        seen.add(f.kind)
        g = Graph(prog, f, inline=same_class_inline(prog, f.cls), sync_lambdas=False, max_depth=2)   # (private helpers such as a shared release-and-adopt step are inlined)
        other = f.params[0]
        # effects on own state: destructor call of the wrapper / Reset / placement into buffer_
        own = [p for p in g.points if p.n is not None and p.n['k'] == 'call' and
               (strip_targs(p.n.get('c', '')).rsplit('::', 1)[-1].startswith('~') or strip_targs(p.n.get('c', '')).rsplit('::', 1)[-1] in ('Reset', 'reset')) and
               p.n.get('obj') is not None and not any(p.f.nodes[i]['k'] == 'ref' for i in p.f.subtree(p.n['obj']))]
        if not own:
            ck.inconclusive(rule, f, '%s:release-own-state' % f.kind, None, 'release of the own state not recognised')
            continue

        def identity_edge(a, b, lab):
            if not lab or not isinstance(lab[0], int):
                return False
            core, pol = norm_cond(lab[1], lab[0])
            c = comparison(lab[1], core)
            if not c or c[0] not in ('!=', '=='):
                return False
            if lab[1] is not f:
                return False
            l, r = strip_casts(f, c[1]), strip_casts(f, c[2])
            sides = []
            for s in (l, r):
                if s['k'] == 'this':
                    sides.append('this')
                elif s['k'] == 'unop' and s['op'] == '&' and strip_casts(f, s['e']).get('id') == other['id']:
                    sides.append('&other')
                elif s['k'] == 'call' and strip_targs(s.get('c', '')) == 'std::addressof':
                    sides.append('&other')
            if sorted(sides) != ['&other', 'this']:
                return False
            truth = lab[2] if pol else (not lab[2])
            return truth is (c[0] == '!=')
        ok = all(g.must_pass_edge(p, identity_edge) for p in own)
        # a guard exists but is not object identity?
        conds = [n for n in f.nodes if n['k'] == 'if']
        ck.verdict(ok, rule, f, '%s:identity-guard' % f.kind, own[0].n, 'own state released only behind this != &other' if ok else
                   ('the assignment is guarded by a comparison other than object identity (this != &other), e.g. of the pointees: assignment between two handles that share an object is skipped, unlike std::shared_ptr' if conds else
                    'the own state is released without an identity guard: self-assignment frees the object and then copies the dangling source'))
        # the source is taken into a local before the release
        temps = [p for p in g.points if p.n is not None and p.n['k'] == 'declstmt' and any('shared_ptr<' in d['t'] and 'init' in d and
                 any(f.nodes[i]['k'] == 'ref' and f.nodes[i].get('id') == other['id'] for i in f.subtree(d['init'])) for d in p.n['decls'])]
        ok = bool(temps) and all(g.must_pass(p, temps) for p in own)
        later = [p for p in g.points if p.n is not None and p.n['k'] == 'ref' and p.n.get('id') == other['id'] and any(p.id in g.reachable_from([q for (q, _l) in o.succ]) for o in own)]
        ck.verdict(ok and not later, rule, f, '%s:source-taken-first' % f.kind, (temps or own)[0].n, 'source copied/moved into a temporary before the release; not read afterwards' if ok and not later else
                   'the own state is released before the source has been taken into a temporary (or the source is read afterwards): when the source lives inside the released object (p = p->next) the copy reads freed memory')
    for f in prog.functions('nostd::unique_ptr::operator='):
        if f.kind != 'moveassign':
            continue
        resets = [n for n in f.nodes if n['k'] == 'call' and strip_targs(n.get('c', '')).endswith('unique_ptr::reset')]
        ok = _transfers_ownership(prog, f, resets)
        ck.verdict(ok, rule, f, 'unique_ptr:reset(other.release())', resets[0] if resets else None, 'ownership transferred in one reset(other.release())' if ok else
                   'unique_ptr move assignment does not transfer ownership as reset(other.release()): the source keeps the pointer (double delete) or the old object leaks')
        break


def _transfers_ownership(prog, f, resets):
    """reset receives what the source held and the source no longer holds it afterwards: the argument of the single reset derives
    (through once-initialised locals) from other.release() or a read of other's pointer member, and on every path to the exit the
    source is emptied by release() or by an assignment of nullptr to its pointer member"""
    from .common import subtree_through_locals
    if len(resets) != 1 or not f.params or not resets[0].get('args'):
        return False
    other = f.params[0]['id']
    sub = [f.nodes[i] for i in list(subtree_through_locals(f, resets[0]['args'][0])) + [resets[0]['args'][0]]]
    takes = any(n['k'] == 'call' and strip_targs(n.get('c', '')).rsplit('::', 1)[-1] in ('release', 'get') and n.get('obj') is not None and
                strip_casts(f, n['obj']).get('id') == other for n in sub) or \
        any(n['k'] == 'member' and n.get('base') is not None and strip_casts(f, n['base']).get('id') == other for n in sub)
    if not takes:
        return False
    g = Graph(prog, f, inline=None, sync_lambdas=False)
    empt = [p for p in g.points if p.f is f and p.n is not None and (
        (p.n['k'] == 'call' and strip_targs(p.n.get('c', '')).rsplit('::', 1)[-1] == 'release' and p.n.get('obj') is not None and strip_casts(f, p.n['obj']).get('id') == other) or
        (p.n['k'] == 'binop' and p.n['op'] == '=' and f.nodes[p.n['lhs']]['k'] == 'member' and f.nodes[p.n['lhs']].get('base') is not None and
         strip_casts(f, f.nodes[p.n['lhs']]['base']).get('id') == other and (strip_casts(f, p.n['rhs']).get('null') or strip_casts(f, p.n['rhs']).get('v') == 0)))]
    return bool(empt) and g.exit.id not in g.reachable_from(g.entry, avoid=empt)


def rule_r1_unique(ck, prog, rule='C20.R1', cls='nostd::unique_ptr'):
    """who-may-write: outside constructors the stored pointer is overwritten only by reset (which deletes the old object first),
    release and swap; every assignment overload goes through reset(other.release()) / reset()"""
    rec_fs = [f for f in prog.funcs.values() if (f.cls or '').startswith('opentelemetry::nostd::unique_ptr') and not f.d.get('lambda')]
    if not rec_fs:
        raise AnalysisBroken('nostd::unique_ptr not instantiated in the driver unit')
    writers = {}
    for f in rec_fs:
        if f.kind == 'ctor' or f.kind in ('copyctor', 'movector'):
            continue
        for n in f.nodes:
            if n['k'] == 'binop' and n['op'] == '=' and access_path(f, n['lhs']) == ('this', 'ptr_'):
                writers.setdefault(f.name, []).append((f, n))
    bad = {k: v for k, v in writers.items() if k not in ('reset', 'release', 'swap')}
    for name, lst in sorted(bad.items()):
        f, n = lst[0]
        ck.violation(rule, f, 'unique_ptr:ptr-overwritten-only-through-reset@%s(%s)' % (name, (f.params[0]['t'] if f.params else '')[:40]), n,
                     'unique_ptr::%s overwrites the stored pointer directly: the object the target already owned is never destroyed (leak)' % name)
    if not bad:
        ck.holds(rule, rec_fs[0], 'unique_ptr:ptr-overwritten-only-through-reset', None, 'ptr_ is assigned only in %s' % ', '.join(sorted(writers)))
    # reset deletes before it overwrites
    for f in [x for x in rec_fs if x.name == 'reset'][:1]:
        g = Graph(prog, f, inline=None, sync_lambdas=False)
        ws = [p for p in g.points if p.n is not None and p.n['k'] == 'binop' and p.n['op'] == '=' and access_path(f, p.n['lhs']) == ('this', 'ptr_')]
        dels = [p for p in g.points if p.n is not None and ((p.n['k'] == 'call' and strip_targs(p.n.get('c', '')).endswith('delete_ptr')) or p.n['k'] in ('CXXDeleteExpr', 'delete'))]

        def null_edge(a, b, lab):
            if not lab or not isinstance(lab[0], int):
                return False
            core, pol = norm_cond(lab[1], lab[0])
            c = comparison(lab[1], core)
            if c and c[0] in ('!=', '==') and (access_path(f, c[1]) == ('this', 'ptr_') or access_path(f, c[2]) == ('this', 'ptr_')):
                return (lab[2] if pol else not lab[2]) is (c[0] == '==')
            cn = strip_casts(f, core)
            if cn['k'] == 'member' and cn['name'] == 'ptr_':
                return (lab[2] if pol else not lab[2]) is False
            return False
        ok = bool(ws) and bool(dels) and all(w.id not in g.reachable_from(g.entry, avoid=dels, avoid_edges=null_edge) for w in ws)
        ck.verdict(ok, rule, f, 'unique_ptr:reset-deletes-old', ws[0].n if ws else None, 'reset overwrites ptr_ only after delete (or on the null edge)' if ok else
                   'unique_ptr::reset can overwrite a non-null pointer without deleting the old object')
    # every assignment overload instantiated in the driver
    n_as = 0
    for f in sorted([x for x in rec_fs if x.name == 'operator='], key=lambda x: x.key):
        n_as += 1
        resets = [n for n in f.nodes if n['k'] == 'call' and strip_targs(n.get('c', '')).endswith('unique_ptr::reset')]
        site = 'unique_ptr:assign(%s)' % (f.params[0]['t'].replace('opentelemetry::', '')[:48] if f.params else '')
        if f.params and 'nullptr' in f.params[0]['t']:
            ok = len(resets) == 1
        else:
            ok = _transfers_ownership(prog, f, resets)
        ck.verdict(ok, rule, f, site, resets[0] if resets else None, 'reset(other.release())' if ok else
                   'this assignment overload does not transfer ownership as reset(other.release()): the old object leaks or the source keeps the pointer (double delete)')
    if n_as < 4:
        raise AnalysisBroken('only %d assignment overloads of nostd::unique_ptr are instantiated in the driver unit (4 expected)' % n_as)


def rule_r5(ck, prog, rule='C20.R5'):
    """std::hash<nostd::string_view> is a function of the characters only: every return is std::hash<std::string> of the string
    built from (data(), size()) - a special case on data() separates views that compare equal"""
    fs = [f for f in prog.funcs.values() if f.name == 'operator()' and 'hash<opentelemetry::nostd::string_view>' in f.key.replace(' ', '')]
    if not fs:
        raise AnalysisBroken('std::hash<nostd::string_view>::operator() not found')
    f = fs[0]
    g = Graph(prog, f, inline=None, sync_lambdas=False)
    rd = reaching_defs(g)
    bad = None
    for r in g.returns():
        e = strip_casts(f, r.n['e'])
        srcs = origins(g, rd, f, r.n['e'], r.ctx)
        hashed = [sn for (sf, sn, sc) in srcs if sn['k'] == 'call' and strip_targs(sn.get('c', '')).startswith('std::hash') and sn.get('op') == '()']
        if not hashed or len(srcs) != len(hashed):
            bad = (r, 'a return value that is not the hash of the characters (e.g. a constant for a null data pointer)')
            continue
        h = hashed[0]
        names = set()
        for (sf, sn, sc) in origins(g, rd, f, h['args'][0], r.ctx):
            for j in sf.subtree(sn['i']):
                m = sf.nodes[j]
                if m['k'] == 'call':
                    names.add(strip_targs(m.get('c', '')).rsplit('::', 1)[-1])
        via_conversion = any(nm.startswith('operator basic_string') or nm.startswith('operator std::') or nm == 'operator string' for nm in names)
        if not ({'data', 'size'} <= names or {'data', 'length'} <= names or {'begin', 'end'} <= names or via_conversion):
            bad = (r, 'the hashed string is not built from (data(), size())')
    conds = [n for n in f.nodes if n['k'] in ('if', 'cond', 'SwitchStmt')]
    if bad is None and conds:
        bad = (g.returns()[0], 'the hash branches on a property of the view other than its characters')
    ck.verdict(bad is None, rule, f, 'hash-is-function-of-characters', bad[0].n if bad else None,
               'hash(view) = std::hash<std::string>(string(data, size)) on every path' if bad is None else
               'std::hash<nostd::string_view> has %s: views that compare equal (all empty views do) hash differently, unordered containers keyed by views lose entries' % bad[1])


WIT = re.compile(r'static_assert\(')


def rule_r2(ck, prog, rule='C20.R2'):
    src = os.path.join(VERIF, 'witness', 'nostd.cc')
    text = open(src).read()
    ids = re.findall(r'"(W\d+) ([^"]*)"', text)
    flags = [f for f in unit_flags(os.path.join(REPO, 'sdk/src/trace/tracer.cc')) if not f.startswith('-I' + VERIF)]
    p = subprocess.run(['clang++', '-fsyntax-only', '-ferror-limit=0'] + flags + [src], capture_output=True, text=True)
    failed = {}
    other_errors = []
    for line in p.stderr.splitlines():
        if 'error:' in line:
            m = re.search(r'(W\d+) ', line)
            if m and 'static_assert' in line or (m and 'static assertion' in line):
                failed[m.group(1)] = line.split('error:', 1)[1].strip()
            elif 'static' not in line:
                other_errors.append(line.strip())
    if other_errors and not failed:
        raise AnalysisBroken('witness unit does not type-check: %s' % other_errors[0][:300])

    class _W:
        qn = 'witness/nostd.cc'
        def loc(self, n=None):
            return 'witness/nostd.cc'
    for wid, msg in ids:
        if wid in failed:
            ck.violation(rule, _W(), wid, None, 'type-level witness fails to compile: %s' % msg)
        else:
            ck.holds(rule, _W(), wid, None, msg)
    return len(ids)


def rule_r3(ck, prog, rule='C20.R3'):
    fs = [f for f in prog.functions('nostd::operator==') if len(f.params) == 2 and all(p['t'].endswith('nostd::string_view') for p in f.params)]
    if not fs:
        raise AnalysisBroken('operator==(string_view, string_view) not found')
    f = fs[0]
    g = Graph(prog, f, inline=None, sync_lambdas=False)
    lens = []
    for n in f.nodes:
        c = comparison(f, n['i'])
        if c and c[0] in ('==', '!='):
            from .common import subtree_through_locals
            sub = sorted({i for s_ in (c[1], c[2]) for i in list(subtree_through_locals(f, s_)) + [s_]})
            names = [strip_targs(f.nodes[i].get('c', '')).rsplit('::', 1)[-1] for i in sub if f.nodes[i]['k'] == 'call']
            ids = {f.nodes[i].get('id') for i in sub if f.nodes[i]['k'] == 'ref'}
            if names.count('length') + names.count('size') == 2 and ids >= {p['id'] for p in f.params}:
                lens.append((n, c[0]))
    if not lens:
        ck.violation(rule, f, 'equality-needs-equal-length', None, 'operator== never compares the two lengths')
    else:
        # scenario "the lengths differ": `a == b` is false, `a != b` is true (lengths held in named locals are followed)
        pins = {ln['i']: (op_ == '!=') for (ln, op_) in lens}
        lens = [ln for (ln, _o) in lens]
        bad = None
        # explore: every reachable return must be definitely false when the lengths differ
        stack = [(g.entry, ())]
        seen = set()
        while stack:
            p, _ = stack.pop()
            if p.id in seen:
                continue
            seen.add(p.id)
            if p.n is not None and p.n['k'] == 'return':
                v = eval3(f, p.n['e'], {}, pins)
                if v is not False:
                    bad = p
                continue
            for (q, lab) in p.succ:
                if lab and isinstance(lab[0], int):
                    cv = eval3(f, lab[0], {}, pins)
                    if cv is not None and cv != lab[2]:
                        continue
                stack.append((q, ()))
        ck.verdict(bad is None, rule, f, 'equality-needs-equal-length', (bad or g.entry).n if bad else lens[0],
                   'with different lengths every return is false' if bad is None else
                   'operator==(string_view, string_view) can return true although the two lengths differ (e.g. an identity fast path on data() placed before the length test): a view equals its own prefix')
    # compare(): when the common prefix is equal the sizes decide
    cf = [x for x in prog.functions('nostd::string_view::compare') if len(x.params) == 1 and x.params[0]['t'].endswith('nostd::string_view')]
    if cf:
        c = cf[0]
        conds = [n for n in c.nodes if n['k'] == 'cond']
        sizes = sum(1 for n in c.nodes if n['k'] == 'call' and strip_targs(n.get('c', '')).endswith('string_view::size'))
        mins = [n for n in c.nodes if n['k'] == 'call' and strip_targs(n.get('c', '')) == 'std::min']
        ok = bool(mins) and len(conds) >= 2 and sizes >= 6
        if not ok:
            # the same decision written with early returns / named sizes: scenario table. With the prefix comparison pinned to
            # "equal" and the comparisons of the two sizes pinned per scenario, the feasible return values are -1 / 0 / +1
            from ..symb import explore_pinned
            from ..symb import eval3 as _ev3
            import operator
            OPS = {'==': operator.eq, '!=': operator.ne, '<': operator.lt, '<=': operator.le, '>': operator.gt, '>=': operator.ge}
            gc = Graph(prog, c, inline=None, sync_lambdas=False)

            def kind(idx):
                n = once_init(c, idx)
                if n['k'] == 'call' and strip_targs(n.get('c', '')).rsplit('::', 1)[-1] in ('size', 'length'):
                    return 'rhs' if (n.get('obj') is not None and strip_casts(c, n['obj']).get('id') == c.params[0]['id']) else 'lhs'
                if n['k'] == 'member' and n.get('name') == 'length_':
                    return 'rhs' if (n.get('base') is not None and strip_casts(c, n['base']).get('id') == c.params[0]['id']) else 'lhs'
                if n['k'] == 'call' and strip_targs(n.get('c', '')).rsplit('::', 1)[-1] == 'compare':
                    return 'prefix'
                if 'v' in n:
                    return ('lit', n['v'])
                return None

            def value(idx, env, pins, depth=0):
                n = strip_casts(c, idx)
                if 'v' in n and n['k'] == 'lit':
                    return n['v']
                if n['k'] == 'unop' and n['op'] == '-':
                    v = value(n['e'], env, pins, depth + 1)
                    return None if v is None else -v
                if n['k'] == 'cond':
                    t = _ev3(c, n['cnd'], env, pins)
                    if t is None:
                        return None
                    return value(n['a'] if t else n['b'], env, pins, depth + 1)
                if kind(idx) == 'prefix':
                    return 0
                return None
            table = {}
            for scen, (ls, rs) in (('lt', (1, 2)), ('eq', (2, 2)), ('gt', (3, 2))):
                pins = {}
                for n in c.nodes:
                    cm = comparison(c, n['i'])
                    if not cm:
                        continue
                    ka, kb = kind(cm[1]), kind(cm[2])
                    vals = {'lhs': ls, 'rhs': rs, 'prefix': 0}
                    va = vals.get(ka) if not isinstance(ka, tuple) else ka[1]
                    vb = vals.get(kb) if not isinstance(kb, tuple) else kb[1]
                    if va is not None and vb is not None and (ka in vals or kb in vals):
                        pins[n['i']] = OPS[cm[0]](va, vb)
                got = set()
                for (ri, _v, env) in explore_pinned(gc, pins)[0]:
                    got.add(value(c.nodes[ri]['e'], dict(env), pins) if ri is not None else None)
                table[scen] = got
            sign = lambda s_: {None if v is None else (v > 0) - (v < 0) for v in s_}
            ok = sign(table['lt']) == {-1} and sign(table['eq']) == {0} and sign(table['gt']) == {1}
        ck.verdict(ok, rule, c, 'compare-orders-by-size-on-equal-prefix', conds[0] if conds else None, 'prefix of min(size) compared, then sizes' if ok else 'compare() does not order by size when the common prefix is equal')
        # the characters are ordered as unsigned bytes (what char_traits<char>::compare / memcmp do): a hand-written relational
        # comparison of two element reads must convert both to unsigned char first
        bad = None
        for n in c.nodes:
            cm = comparison(c, n['i'])
            if not cm or cm[0] not in ('<', '>', '<=', '>='):
                continue
            def elem(idx):
                m = c.nodes[idx]
                unsigned = False
                for _ in range(6):
                    if m['k'] == 'cast':
                        if 'unsigned char' in (m.get('t') or '') or 'uint8_t' in (m.get('t') or ''):
                            unsigned = True
                        m = c.nodes[m['e']]
                    else:
                        break
                is_elem = m['k'] == 'subscript' or (m['k'] == 'call' and m.get('op') == '[]') or (m['k'] == 'unop' and m['op'] == '*')
                return is_elem and 'char' in (m.get('t') or 'char'), unsigned
            (e1, u1), (e2, u2) = elem(cm[1]), elem(cm[2])
            if e1 and e2 and not (u1 and u2):
                bad = n
        ck.verdict(bad is None, rule, c, 'compare-orders-bytes-unsigned', bad, 'characters ordered by Traits::compare (unsigned bytes)' if bad is None else
                   'compare() orders two characters with a relational operator on (signed) char: bytes >= 0x80 sort below ASCII, so ordering (operator<, std::map keys) differs from std::string_view for UTF-8 text')


def rule_r4(ck, prog, rule='C20.R4'):
    f = prog.function('nostd::string_view::substr')
    g = Graph(prog, f, inline=None, sync_lambdas=False)
    rd = reaching_defs(g)
    fails = [p for p in g.points if p.n is not None and (p.n['k'] == 'throw' or (p.n['k'] == 'call' and strip_targs(p.n.get('c', '')) in ('std::terminate', 'abort', 'std::abort')))]
    rets = g.returns()
    want_fail = ('>=0', frozenset({('param:pos', 1), ('this.length_', -1), ('1', -1)}))

    def fail_edge(a, b, lab):
        if not lab or not isinstance(lab[0], int):
            return False
        return relation(g, rd, lab[1], lab[0], a.ctx, lab[2]) == want_fail

    def ok_edge(a, b, lab):
        if not lab or not isinstance(lab[0], int):
            return False
        return relation(g, rd, lab[1], lab[0], a.ctx, lab[2]) == ('>=0', frozenset({('param:pos', -1), ('this.length_', 1)}))
    ok = bool(fails) and all(g.must_pass_edge(p, fail_edge) for p in fails) and bool(rets) and all(g.must_pass_edge(r, ok_edge) for r in rets)
    ck.verdict(ok, rule, f, 'substr-fails-iff-pos>size', (fails or rets or [None])[0].n if (fails or rets) else None, 'out-of-range failure exactly for pos > size' if ok else
               'substr does not fail exactly for pos > size (pos == size must yield an empty view, pos > size must fail)')
    mins = [n for n in f.nodes if n['k'] == 'call' and strip_targs(n.get('c', '')) == 'std::min']
    ok = False
    if mins:
        lv = [linear(g, rd, f, a, g.root_ctx) for a in mins[0]['args']]
        ok = {'this.length_': 1, 'param:pos': -1} in lv
    if not ok:
        # the clipping written as a conditional expression / through named locals: count = (n < size - pos ? n : size - pos)
        from .c07 import _select_kind
        for r in rets:
            cons = [f.nodes[k] for k in f.subtree(r.n['e']) if f.nodes[k]['k'] == 'construct' and strip_targs(f.nodes[k].get('c', '')).endswith('string_view::string_view') and len(f.nodes[k].get('args', [])) == 2]
            if not cons:
                continue
            cnt_e = once_init(f, cons[0]['args'][1])
            kind_, ops_ = _select_kind(f, cnt_e['i']) if 'i' in cnt_e else (None, [])
            if kind_ == 'min':
                lv = [linear(g, rd, f, a, g.root_ctx) for a in ops_]
                if {'this.length_': 1, 'param:pos': -1} in lv and {'param:' + f.params[1]['name']: 1} in lv:
                    ok = True
                    mins = [cnt_e]
    ck.verdict(ok, rule, f, 'substr-clips-count', mins[0] if mins else None, 'count = min(n, size - pos)' if ok else 'the count is not clipped with min(n, size - pos): the sub-view can run past the end')
    if rets:
        c = strip_casts(f, rets[0].n['e'])
        a0 = linear(g, rd, f, c['args'][0], g.root_ctx) if c['k'] == 'construct' and c.get('args') else None
        ok = a0 == {'this.data_': 1, 'param:pos': 1}
        ck.verdict(ok, rule, f, 'substr-starts-at-pos', rets[0].n, 'sub-view starts at data + pos' if ok else 'the sub-view does not start at data + pos (starts at %s)' % fmt(a0))
    fs = [x for x in prog.functions('nostd::string_view::find') if len(x.params) == 2 and x.params[0]['t'] == 'char']
    if fs:
        f = fs[0]
        g = Graph(prog, f, inline=None, sync_lambdas=False)
        rd = reaching_defs(g)
        tf = [p for p in g.points if p.n is not None and p.n['k'] == 'call' and strip_targs(p.n.get('c', '')).endswith('char_traits::find')]

        def inrange(a, b, lab):
            if not lab or not isinstance(lab[0], int):
                return False
            r = relation(g, rd, lab[1], lab[0], a.ctx, lab[2])
            # pos < size, or pos <= size (an empty remainder is searched: the count size - pos cannot underflow either way)
            return r is not None and r[0] == '>=0' and dict(r[1]).get('param:pos') == -1 and dict(r[1]).get('1', 0) in (-1, 0)
        ok = bool(tf) and all(g.must_pass_edge(p, inrange) for p in tf)
        ck.verdict(ok, rule, f, 'find-searches-only-in-range', tf[0].n if tf else None, 'search only behind pos < size' if ok else 'find can search from a position past the end of the view')
        # ... and over no more than what is left of the view: the count handed to Traits::find is size - pos
        for p_ in tf:
            if len(p_.n.get('args', [])) >= 2:
                cntl = linear(g, rd, f, p_.n['args'][1], p_.ctx)
                okc = cntl in ({'this.length_': 1, 'param:pos': -1}, {'this.length()': 1, 'param:pos': -1}, {'this.size()': 1, 'param:pos': -1})
                ck.verdict(okc, rule, f, 'find-count-is-the-remainder', p_.n, 'searches size - pos characters' if okc else
                           'find searches %s characters from data() + pos, the view has only size - pos left: a character behind the end of the view is reported as found (index >= size) instead of npos' % fmt(cntl))


def rule_r6(ck, prog, rule='C20.R6'):
    """string_view: operations defined in terms of one another agree (sibling rules and small decision tables):
    * operator< / operator> are the sign of compare (table over compare = -1, 0, 1);
    * every operator!= overload is the negation of operator== on its own two operands, in order; every mixed operator== overload
      converts its operands and delegates to the (string_view, string_view) one, in order;
    * every compare overload hands its (pos, count) pairs, in declaration order, to substr of the operand they belong to;
    * find returns the offset from the start of the view, not from the search position (constant folding with the result of
      Traits::find pinned to data + k)."""
    from ..inteval import ieval
    cnt = 0
    SV = 'nostd::string_view'
    # --- relational members
    want = {'operator<': lambda c: c < 0, 'operator>': lambda c: c > 0, 'operator<=': lambda c: c <= 0, 'operator>=': lambda c: c >= 0}
    for name, pred in sorted(want.items()):
        for f in sorted(prog.functions(SV + '::' + name), key=lambda x: x.key):
            if not f.blocks:
                continue
            g = Graph(prog, f, inline=None, sync_lambdas=False)
            rd = reaching_defs(g)
            rets = g.returns()
            bad = None
            unknown = False
            for c in (-1, 0, 1):
                vals = {repr(ieval(g, rd, f, r.n['e'], r.ctx, {'call:compare': c})) for r in rets}
                if len(vals) != 1 or 'None' in vals:
                    unknown = True
                    break
                v = eval(vals.pop())
                if bool(v) != pred(c):
                    bad = 'with compare() = %d, %s yields %s' % (c, name, bool(v))
                    break
            cnt += 1
            if unknown:
                ck.inconclusive(rule, f, 'relational-is-sign-of-compare:%s' % name, None, 'the result does not fold from the value of compare()')
            else:
                ck.verdict(bad is None, rule, f, 'relational-is-sign-of-compare:%s' % name, rets[0].n if rets else None,
                           '%s is the sign of compare (3 rows)' % name if bad is None else bad + ': ordering disagrees with compare and with std::string_view')
    # --- != is !(==) on the same operands; mixed == delegates in order
    for opname in ('operator!=', 'operator=='):
        for f in sorted(prog.functions('nostd::' + opname), key=lambda x: x.key):
            if not f.blocks or len(f.params) != 2 or not any('string_view' in p['t'] for p in f.params):
                continue
            if opname == 'operator==' and all('nostd::string_view' in p['t'] for p in f.params):
                continue          # the base case, decided by C20.R3
            rets = [n for n in f.nodes if n['k'] == 'return' and n.get('e') is not None and n['e'] >= 0]
            eqs = [n for n in f.nodes if n['k'] == 'call' and n.get('op') == '==' and strip_targs(n.get('c', '')).endswith('nostd::operator==')]
            why = None
            site = '%s(%s)' % (opname, ','.join(re.sub(r'opentelemetry::|nostd::|std::|const | &|basic_string<char>', lambda m: 'string' if 'basic' in m.group(0) else '', p['t']).strip() for p in f.params))
            ptrcmp = [n for n in f.nodes if n['k'] == 'binop' and n['op'] in ('==', '!=') and
                      (f.nodes[n['lhs']].get('t') or '').rstrip().endswith('*') and (f.nodes[n['rhs']].get('t') or '').rstrip().endswith('*')]
            if ptrcmp:
                why = 'compares the addresses of the character data, not the characters'
            elif len(rets) != 1 or len(eqs) != 1:
                cnt += 1
                ck.inconclusive(rule, f, 'delegates-to-equality:' + site, rets[0] if rets else None, 'not written as one delegation to operator==; the rule does not decide other implementations')
                continue
            else:
                e = strip_casts(f, rets[0]['e'])
                negs = 0
                while e['k'] == 'unop' and e['op'] == '!':
                    negs += 1
                    e = strip_casts(f, e['e'])
                while e['k'] in ('paren',):
                    e = strip_casts(f, e['e'])
                if e['i'] != eqs[0]['i']:
                    why = 'the result is not the delegated comparison itself'
                elif (negs % 2 == 1) != (opname == 'operator!='):
                    why = 'the polarity of the delegated comparison is wrong'
                else:
                    # operand k derives from parameter k only (directly or through a string_view conversion of exactly that parameter)
                    for k, a in enumerate(eqs[0]['args'][:2]):
                        an = strip_casts(f, a)
                        hops = 0
                        while an['k'] == 'construct' and len(an.get('args', [])) == 1 and hops < 4:
                            an = strip_casts(f, an['args'][0])
                            hops += 1
                        if not (an['k'] == 'ref' and an.get('id') == f.params[k]['id']):
                            why = 'operand %d of the delegated comparison is not parameter %d (%s) as a whole' % (k + 1, k + 1, f.params[k]['name'])
                            break
            cnt += 1
            site = '%s(%s)' % (opname, ','.join(re.sub(r'opentelemetry::|nostd::|std::|const | &|basic_string<char>', lambda m: 'string' if 'basic' in m.group(0) else '', p['t']).strip() for p in f.params))
            ck.verdict(why is None, rule, f, 'delegates-to-equality:' + site, rets[0] if rets else None,
                       'delegates to operator==(string_view, string_view) on its own operands' if why is None else
                       '%s: %s - it can answer differently from the comparison it stands for' % (site, why))
    # --- compare overloads: (pos, count) pairs reach substr in order
    for f in sorted(prog.functions(SV + '::compare'), key=lambda x: x.key):
        if not f.blocks or len(f.params) < 3:
            continue
        subs = [n for n in f.nodes if n['k'] == 'call' and strip_targs(n.get('c', '')).endswith('string_view::substr')]
        why = None
        pidx = {p['id']: i for i, p in enumerate(f.params)}
        used = []
        for n in subs:
            args = [strip_casts(f, a) for a in n.get('args', []) if a is not None and a >= 0]
            ids = [pidx.get(a.get('id')) if a['k'] == 'ref' else None for a in args]
            if len(ids) != 2 or None in ids or ids[1] != ids[0] + 1:
                why = 'a substr call does not receive a (position, count) parameter pair in declaration order'
                break
            on = strip_casts(f, n['obj']) if n.get('obj') is not None else None
            owner = 'this' if on is not None and on['k'] == 'this' else (pidx.get(on.get('id')) if on is not None and on['k'] == 'ref' else None)
            if ids[0] == 0 and owner != 'this':
                why = 'the first (pos, count) pair is not applied to *this'
                break
            if ids[0] > 0 and owner != ids[0] - 1:
                why = 'a (pos, count) pair is applied to an operand it does not belong to'
                break
            used.append(ids[0])
        int_params = [i for i, p in enumerate(f.params) if 'unsigned long' in p['t'] or 'size_t' in p['t']]
        # an overload may hand its leading (pos, count) pair on to another compare overload instead of calling substr itself
        for n in f.nodes:
            if n['k'] == 'call' and strip_targs(n.get('c', '')).endswith('string_view::compare') and n is not None and len(n.get('args', [])) >= 2:
                args = [strip_casts(f, a) for a in n['args'][:2]]
                ids = [pidx.get(a.get('id')) if a['k'] == 'ref' else None for a in args]
                on = strip_casts(f, n['obj']) if n.get('obj') is not None else None
                if ids == [0, 1] and on is not None and on['k'] == 'this':
                    used.append(0)
        if why is None:
            # every position parameter is consumed by a substr (a count that only bounds a C string is consumed by its constructor)
            pos_like = [i for i in int_params if i + 1 in int_params]
            missing = [i for i in pos_like if i not in used]
            if missing:
                why = 'parameter %s is not used as a sub-range position' % f.params[missing[0]]['name']
        cnt += 1
        site = 'compare(%d parameters%s)' % (len(f.params), ',cstr' if any('char *' in p['t'] for p in f.params) else '')
        ck.verdict(why is None, rule, f, 'compare-forwards-subranges:' + site, subs[0] if subs else None,
                   'sub-range parameters reach substr in order' if why is None else 'string_view::%s: %s' % (site, why))
    # --- find: offset from the start of the view
    for f in sorted(prog.functions(SV + '::find'), key=lambda x: x.key):
        if not f.blocks or len(f.params) != 2 or f.params[0]['t'] != 'char':
            continue
        g = Graph(prog, f, inline=None, sync_lambdas=False)
        rd = reaching_defs(g)
        tf = [n for n in f.nodes if n['k'] == 'call' and strip_targs(n.get('c', '')).endswith('char_traits::find')]
        if len(tf) != 1:
            ck.inconclusive(rule, f, 'find-offset-from-view-start', None, 'Traits::find call not found')
            continue
        # the variable holding the result of Traits::find and the definitions computed from it
        holder = [d for n in f.nodes if n['k'] == 'declstmt' for d in n['decls'] if d.get('init') is not None and tf[0]['i'] in list(f.subtree(d['init'])) + [d['init']]]
        env = {'this.length_': 7, 'this.length()': 7, 'this.size()': 7, 'this.data_': ('ptr', 'chars', 0), 'this.data()': ('ptr', 'chars', 0), 'param:' + f.params[1]['name']: 2, 'call:find': ('ptr', 'chars', 5)}
        if holder:
            env['local:' + holder[0]['name']] = ('ptr', 'chars', 5)
        vals = []
        for n in f.nodes:
            defs = defs_in_node(f, n) if n['k'] in ('binop', 'declstmt', 'return') or n['k'] == 'call' else []
            for (vid, strong, vx) in defs:
                if vx is None or vx < 0 or not strong or (holder and vid == holder[0]['id']):
                    continue
                sub = list(f.subtree(vx)) + [vx]
                if any(f.nodes[i]['k'] == 'ref' and holder and f.nodes[i].get('id') == holder[0]['id'] for i in sub) or tf[0]['i'] in sub:
                    pt = g.point_of.get((id(g.root_ctx), vx))
                    vals.append((n, ieval(g, rd, f, vx, g.root_ctx, env)))
            if n['k'] == 'return' and n.get('e') is not None and n['e'] >= 0:
                sub = list(f.subtree(n['e'])) + [n['e']]
                if any(f.nodes[i]['k'] == 'ref' and holder and f.nodes[i].get('id') == holder[0]['id'] for i in sub) or tf[0]['i'] in sub:
                    vals.append((n, ieval(g, rd, f, n['e'], g.root_ctx, env)))
        cnt += 1
        if not vals or any(v is None for (_n, v) in vals):
            ck.inconclusive(rule, f, 'find-offset-from-view-start', tf[0], 'the offset computed from the search result does not fold')
        else:
            bad = [(n, v) for (n, v) in vals if v != 5]
            ck.verdict(not bad, rule, f, 'find-offset-from-view-start', bad[0][0] if bad else tf[0],
                       'a character found at data()+5 (searching from 2) is reported at 5' if not bad else
                       'a character found at data()+5 when searching from position 2 is reported at %s: find answers relative to the search position, std::string_view::find relative to the view' % (bad[0][1],))
    return cnt


def rule_r7(ck, prog, rule='C20.R7'):
    """span accessors as a table (constant folding with extent_ / Extent and data_ pinned): size() is the extent, empty() <=> the
    extent is zero, begin() is data(), end() is data() + size(), operator[](i) is data()[i]; the pointer-pair constructor takes
    its length from last - first. For the dynamic and the fixed-extent specialisation instantiated in the driver unit."""
    from ..inteval import ieval
    cnt = 0
    names = ('size', 'empty', 'begin', 'end', 'data', 'operator[]')
    by_cls = {}
    for f in prog.funcs.values():
        sq = strip_targs(f.qn)
        if sq.startswith('opentelemetry::nostd::span::') and f.name in names and f.blocks and not f.d.get('lambda'):
            by_cls.setdefault(f.qn.rsplit('::', 1)[0], []).append(f)
    for cls in sorted(by_cls):
        m = re.search(r',\s*(\d+)>$', cls)
        fixed = int(m.group(1)) if m and int(m.group(1)) < (1 << 63) else None
        extents = [fixed] if fixed is not None else [0, 3]
        bad = None
        unknown = None
        rows = 0
        for ext in extents:
            env = {'this.extent_': ext, 'this.data_': ('ptr', 'elems', 0), 'param:index': 1 if ext else 0, 'this.data()': ('ptr', 'elems', 0), 'this.size()': ext}
            want = {'size': ext, 'empty': ext == 0, 'begin': ('ptr', 'elems', 0), 'end': ('ptr', 'elems', ext), 'data': ('ptr', 'elems', 0),
                    'operator[]': ('elem', 'elems', env['param:index'])}
            for f in sorted(by_cls[cls], key=lambda x: x.key):
                if f.name == 'operator[]' and ext == 0:
                    continue
                g = Graph(prog, f, inline=None, sync_lambdas=False)
                rd = reaching_defs(g)
                rets = g.returns()
                vals = {repr(ieval(g, rd, f, r.n['e'], r.ctx, env)) for r in rets}
                rows += 1
                if len(vals) != 1 or 'None' in vals:
                    unknown = unknown or '%s does not fold' % f.name
                    continue
                v = eval(vals.pop())
                w = want[f.name]
                if isinstance(w, bool):
                    v = bool(v)
                if v != w and bad is None:
                    bad = (f, 'with %d element(s) %s() yields %s, expected %s' % (ext, f.name, v, w))
        cnt += 1
        anchor = bad[0] if bad else sorted(by_cls[cls], key=lambda x: x.key)[0]
        site = 'span-accessors:%s' % ('extent %d' % fixed if fixed is not None else 'dynamic')
        if bad:
            ck.violation(rule, anchor, site, None, 'nostd::span: ' + bad[1] + ' (std::span: size()==extent, empty()==(size()==0), end()==data()+size(), [i]==data()[i])')
        elif unknown:
            ck.inconclusive(rule, anchor, site, None, unknown)
        else:
            ck.holds(rule, anchor, site, None, '%d accessor rows agree with std::span' % rows)
    # element access is index-checked against the extent: the assertion in operator[] holds exactly for index < extent (table)
    for cls in sorted(by_cls):
        m = re.search(r',\s*(\d+)>$', cls)
        fixed = int(m.group(1)) if m and int(m.group(1)) < (1 << 63) else None
        for f in [x for x in by_cls[cls] if x.name == 'operator[]']:
            g = Graph(prog, f, inline=None, sync_lambdas=False)
            rd = reaching_defs(g)
            asserts = [n for n in f.nodes if n['k'] == 'cond' and any(f.nodes[i]['k'] == 'call' and strip_targs(f.nodes[i].get('c', '') or '').endswith('__assert_fail')
                                                                    for i in list(f.subtree(n['b'])) + [n['b']])]
            cnt += 1
            site = 'span-index-checked:%s' % ('extent %d' % fixed if fixed is not None else 'dynamic')
            if not asserts:
                ck.inconclusive(rule, f, site, None, 'no assertion on the index (the checked-slice model of the property cannot be decided)')
                continue
            bad = None
            pname = f.params[0]['name']
            for ext in ([fixed] if fixed is not None else [0, 1, 3]):
                for i in sorted({0, max(ext - 1, 0), ext, ext + 1}):
                    v = ieval(g, rd, f, asserts[0]['cnd'], g.root_ctx, {'this.extent_': ext, 'param:' + pname: i, 'this.size()': ext})
                    if v is None:
                        bad = bad or ('?', 'the asserted condition does not fold')
                    elif bool(v) != (i < ext) and bad is None:
                        bad = (asserts[0], 'with %d element(s) the index %d %s the assertion' % (ext, i, 'passes' if v else 'fails'))
            if bad and bad[0] == '?':
                ck.inconclusive(rule, f, site, asserts[0], bad[1])
            else:
                ck.verdict(bad is None, rule, f, site, asserts[0], 'operator[] asserts index < extent' if bad is None else
                           'nostd::span::operator[]: %s: element access is not checked against the extent as the slice model (and std::span under hardening) demand' % bad[1])
    # pointer-pair constructor of the dynamic span: extent_ = last - first, data_ = first
    for f in sorted(prog.funcs.values(), key=lambda x: x.key):
        if not (strip_targs(f.qn) == 'opentelemetry::nostd::span::span' and f.kind == 'ctor' and len(f.params) == 2 and f.blocks and
                all(p['t'].rstrip().endswith('*') for p in f.params) and '18446744073709551615' in f.qn):
            continue
        g = Graph(prog, f, inline=None, sync_lambdas=False)
        rd = reaching_defs(g)
        env = {'param:' + f.params[0]['name']: ('ptr', 'elems', 2), 'param:' + f.params[1]['name']: ('ptr', 'elems', 7)}
        got = {}
        for p in g.points:
            if p.el is not None and p.el.get('init') in ('extent_', 'data_') and 'e' in p.el:
                e = p.el['e']
                n = f.nodes[e]
                v = ieval(g, rd, f, e, p.ctx, env)
                if v is None:
                    # std::distance(first, last)
                    for i in list(f.subtree(e)) + [e]:
                        m_ = f.nodes[i]
                        if m_['k'] == 'call' and strip_targs(m_.get('c', '')).endswith('std::distance') and len(m_.get('args', [])) == 2:
                            a, b = ieval(g, rd, f, m_['args'][0], p.ctx, env), ieval(g, rd, f, m_['args'][1], p.ctx, env)
                            if isinstance(a, tuple) and isinstance(b, tuple):
                                v = b[2] - a[2]
                got[p.el['init']] = v
        if not got:
            # a delegating constructor: span(first, last) : span{first, distance(first, last)}
            def val_(e):
                v_ = ieval(g, rd, f, e, g.root_ctx, env)
                if v_ is None:
                    for i in list(f.subtree(e)) + [e]:
                        m_ = f.nodes[i]
                        if m_['k'] == 'call' and strip_targs(m_.get('c', '')).endswith('std::distance') and len(m_.get('args', [])) == 2:
                            a, b = ieval(g, rd, f, m_['args'][0], g.root_ctx, env), ieval(g, rd, f, m_['args'][1], g.root_ctx, env)
                            if isinstance(a, tuple) and isinstance(b, tuple):
                                v_ = b[2] - a[2]
                return v_
            for n in f.nodes:
                if n['k'] == 'construct' and strip_targs(n.get('c', '')).endswith('nostd::span::span') and len(n.get('args', [])) == 2 and \
                        (f.nodes[n['args'][0]].get('t') or '').rstrip().endswith('*') and not (f.nodes[n['args'][1]].get('t') or '').rstrip().endswith('*'):
                    got['data_'] = val_(n['args'][0])
                    got['extent_'] = val_(n['args'][1])
        cnt += 1
        if got.get('extent_') is None or got.get('data_') is None:
            ck.inconclusive(rule, f, 'span-from-pointer-pair', None, 'member initialisers do not fold')
        else:
            ok = got['extent_'] == 5 and got['data_'] == ('ptr', 'elems', 2)
            ck.verdict(ok, rule, f, 'span-from-pointer-pair', None, 'span(first, last): data_ = first, extent_ = last - first' if ok else
                       'span(first, last) with last = first + 5 gets extent %s and data %s' % (got['extent_'], got['data_']))
    return cnt


def rule_r8_unique_ptr_table(ck, prog, rule='C20.R8', cls='nostd::unique_ptr'):
    """unique_ptr observers and release, as std::unique_ptr specifies them, over the single pointer member P (found by type, not
    by name): release() returns the old P and leaves P null on every path; operator bool is P != nullptr; get() and operator->
    return P, operator* dereferences P; swap exchanges P of both operands; the conversion to std::unique_ptr gives up ownership
    (release(), not get())."""
    rec = prog.record(cls)
    ptrs = [fd['name'] for fd in rec['fields'] if fd['t'].rstrip().endswith('*') or fd['t'] in ('pointer', 'T *')]
    if len(ptrs) != 1:
        ptrs = [fd['name'] for fd in rec['fields']][:1]
    P = ptrs[0]

    def fs(name):
        return sorted([x for x in prog.funcs.values() if strip_targs(x.qn).endswith(cls + '::' + name) and x.blocks], key=lambda x: x.key)

    def is_P(f, idx, ctx=None):
        return access_path(f, idx, ctx) == ('this', P)
    seen = 0
    for f in fs('release')[:1]:
        seen += 1
        g = Graph(prog, f, inline=None, sync_lambdas=False)
        rd = reaching_defs(g)
        nulls = [p for p in g.points if p.n is not None and p.n['k'] == 'binop' and p.n['op'] == '=' and is_P(f, p.n['lhs']) and
                 (strip_casts(f, p.n['rhs']).get('null') or strip_casts(f, p.n['rhs']).get('v') == 0)]
        exch = [p for p in g.points if p.n is not None and p.n['k'] == 'call' and strip_targs(p.n.get('c', '')) in ('std::exchange',) and p.n.get('args') and is_P(f, p.n['args'][0])]
        ok = (bool(nulls) and g.exit.id not in g.reachable_from(g.entry, avoid=nulls)) or bool(exch)
        rets = [r for r in g.returns() if r.n.get('e') is not None and r.n['e'] >= 0]
        from_p = all(any((sn['k'] == 'member' and access_path(sf, sn['i'], sc) == ('this', P)) or (sn['k'] == 'call' and (strip_targs(sn.get('c', '')) == 'std::exchange' or strip_targs(sn.get('c', '')).endswith(cls + '::get')))
                         for (sf, sn, sc) in origins(g, rd, f, r.n['e'], r.ctx)) for r in rets) and bool(rets)
        ck.verdict(ok and from_p, rule, f, 'release-returns-old-and-nulls', (nulls or rets or [None])[0].n if (nulls or rets) else None,
                   'release() returns the stored pointer and leaves null behind on every path' if ok and from_p else
                   ('release() does not leave the pointer null: the object is deleted once by the new owner and once by this unique_ptr' if not ok else
                    'release() does not return the pointer it gave up: the object is leaked'))
    for f in fs('operator bool')[:1]:
        seen += 1
        g = Graph(prog, f, inline=None, sync_lambdas=False)
        rets = [r for r in g.returns() if r.n.get('e') is not None]
        verdict = None
        for r in rets:
            core, pol = norm_cond(f, r.n['e'])
            c = comparison(f, core)
            if c and c[0] in ('==', '!='):
                sides = [c[1], c[2]]
                if any(is_P(f, x) for x in sides) and any(strip_casts(f, x).get('null') or strip_casts(f, x).get('v') == 0 for x in sides):
                    says_nonnull = (c[0] == '!=') if pol else (c[0] == '==')
                    verdict = says_nonnull if verdict is None else (verdict and says_nonnull)
                    continue
            if is_P(f, core) or (strip_casts(f, core)['k'] == 'call' and strip_targs(strip_casts(f, core).get('c', '')).endswith('::get')):
                verdict = pol if verdict is None else (verdict and pol)
                continue
            verdict = None
            break
        if verdict is None:
            ck.inconclusive(rule, f, 'bool-iff-non-null', rets[0].n if rets else None, 'operator bool is not a comparison of the pointer with null')
        else:
            ck.verdict(verdict, rule, f, 'bool-iff-non-null', rets[0].n, 'true exactly when a pointer is held' if verdict else 'operator bool is true for an empty unique_ptr and false for one that owns an object')
    for name, deref in (('get', False), ('operator->', False), ('operator*', True)):
        for f in fs(name)[:1]:
            seen += 1
            g = Graph(prog, f, inline=None, sync_lambdas=False)
            rd = reaching_defs(g)
            rets = [r for r in g.returns() if r.n.get('e') is not None and r.n['e'] >= 0]
            ok = bool(rets)
            for r in rets:
                e = strip_casts(f, r.n['e'])
                if deref and e['k'] == 'unop' and e.get('op') == '*':
                    e = strip_casts(f, e['e'])
                elif deref:
                    ok = False
                srcs = origins(g, rd, f, e['i'], r.ctx)
                if not (srcs and all((sn['k'] == 'member' and access_path(sf, sn['i'], sc) == ('this', P)) or
                                     (sn['k'] == 'call' and strip_targs(sn.get('c', '')).endswith(cls + '::get')) for (sf, sn, sc) in srcs)):
                    ok = False
            ck.verdict(ok, rule, f, 'observer-yields-stored-pointer:%s' % name, rets[0].n if rets else None, '%s yields %sthe stored pointer' % (name, '*' if deref else '') if ok else
                       '%s does not yield %sthe pointer this unique_ptr holds' % (name, 'the object behind ' if deref else ''))
    for f in fs('swap')[:1]:
        seen += 1
        sw = [n for n in f.nodes if n['k'] == 'call' and strip_targs(n.get('c', '')).rsplit('::', 1)[-1] == 'swap' and len(n.get('args', [])) == 2]
        ok = False
        for n in sw:
            aps = {access_path(f, a) for a in n['args']}
            ok = ok or (('this', P) in aps and any(len(ap) == 2 and ap[0].startswith('param:') and ap[1] == P for ap in aps))
        if not sw:
            writes = {access_path(f, n['lhs']) for n in f.nodes if n['k'] == 'binop' and n['op'] == '='}
            ok = ('this', P) in writes and any(len(ap) == 2 and ap[0].startswith('param:') and ap[1] == P for ap in writes)
        ck.verdict(ok, rule, f, 'swap-exchanges-both', sw[0] if sw else None, 'both pointers are exchanged' if ok else
                   'swap does not exchange the two stored pointers (one side is only copied): both unique_ptrs end up owning the same object, the other object is leaked')
    for f in [x for x in prog.funcs.values() if strip_targs(x.qn).startswith('opentelemetry::' + cls + '::operator unique_ptr') or
              (strip_targs(x.qn).startswith('opentelemetry::' + cls + '::operator ') and 'std::unique_ptr' in (x.d.get('ret') or ''))][:1]:
        seen += 1
        calls = {strip_targs(n.get('c', '')).rsplit('::', 1)[-1] for n in f.nodes if n['k'] == 'call' and n.get('obj') is not None and f.nodes[n['obj']]['k'] == 'this' or
                 (n['k'] == 'call' and strip_targs(n.get('c', '')).startswith('opentelemetry::' + cls + '::'))}
        ok = 'release' in calls and 'get' not in calls
        ck.verdict(ok, rule, f, 'conversion-gives-up-ownership', None, 'the std::unique_ptr is built from release()' if ok else
                   'the conversion to std::unique_ptr does not release the pointer: two owners delete the same object')
    if seen < 5:
        raise AnalysisBroken('C20.R8: members of nostd::unique_ptr not instantiated in the driver unit (%d found)' % seen)


def run(ck, prog):
    ck.doc('C20.R1', 'assignment typestate: object-identity guard, source taken before release; unique_ptr: ptr_ written only through reset/release/swap, reset deletes first, every assignment overload', 11)
    ck.doc('C20.R2', 'type-level witnesses (static_assert unit compiled with the build flags)', 22)
    ck.doc('C20.R3', 'string_view equality cannot hold for different lengths; compare falls back to sizes and orders characters as unsigned bytes', 3)
    ck.doc('C20.R4', 'substr / find guards, offsets and counts', 5)
    ck.doc('C20.R5', 'std::hash<nostd::string_view> depends on the characters only', 1)
    ck.doc('C20.R6', 'string_view siblings agree: relational members are the sign of compare, != / mixed == delegate to == on their own operands, compare overloads forward their sub-range pairs, find reports the offset from the view start', 16)
    ck.doc('C20.R8', 'unique_ptr observer / release table: release returns the old pointer and nulls it, bool <=> non-null, get / -> / * yield the stored pointer, swap exchanges both, the std conversion releases', 7)
    ck.doc('C20.R7', 'span accessors, the index assertion and the pointer-pair constructor agree with std::span / the checked-slice model (constant-folded tables)', 5)
    with ck.canary('C20.R1'):
        rule_r1(ck, prog, cls='canary::c20::bad_ptr')
    rule_r1(ck, prog)
    rule_r1_unique(ck, prog)
    rule_r2(ck, prog)
    rule_r3(ck, prog)
    rule_r4(ck, prog)
    rule_r5(ck, prog)
    rule_r6(ck, prog)
    rule_r7(ck, prog)
    rule_r8_unique_ptr_table(ck, prog)
    return {}
