"""C04 - an exported span carries exactly what the application recorded before End."""
from ..ir import AnalysisBroken, strip_targs, qmatch
from ..graph import Graph
from ..expr import access_path, path_str, held_locks, reaching_defs, norm_cond, origins, leaves, defs_in_node
from .common import strip_casts, short, comparison, expr_equal, once_init, loops_over, loop_visits_every_element, subtree_through_locals

UNITS = ['sdk/src/trace/span.cc']
DRIVERS = ['trace_headers.cc']
CANARIES = ['c04_canary.cc', 'c19_canary.cc']

EXPLANATION = (
    'C04.R1 (lock-field association + dominance): in every member of sdk::trace::Span outside constructor/destructor, '
    'every access to the recordable member happens holding the span mutex, and every dereference is behind the '
    'non-null edge of a test made under that same lock. C04.R2 (End typestate): the ended flag is tested and set under '
    'the mutex, the processor\'s OnEnd is behind the not-yet-ended edge, at most one OnEnd per path, its argument is '
    'the moved recordable, and the recordable member is reset on every path after OnEnd. C04.R3 (interface '
    'completeness): every virtual of sdk::trace::Recordable (also the non-pure ones the compiler does not enforce) is '
    'overridden by MultiRecordable and by every concrete recordable in the analysed units. C04.R4 (fan-out): each '
    'MultiRecordable override loops over all children with no early exit and forwards every parameter in order to the '
    'same-named child method; MultiSpanProcessor traversals start at the list head, advance by the link on every '
    'path, have no early exit; the append links the new node behind the member that becomes the new last node. '
    'C04.R5 (record completeness at start): on the recording path of the Span constructor every setter '
    '(name, scope, identity, flags, attributes, links, kind, start time, resource) is reached on every path, fed '
    'from the matching source, and OnStart follows them; the parent id is parent.IsValid() ? parent.span_id() : SpanId(). '
    'C04.R6 (type facts): no concrete recordable (nor its event/link records) has a field of a borrowing type '
    '(string_view, span, const char*, AttributeValue), except the two named pointers to Resource/InstrumentationScope; '
    'AttributeConverter has an exact-match operator() for every alternative of AttributeValue returning the owned variant. '
    'C04.R7 (setter completeness): in every SpanData setter each parameter reaches a member write on every path.')
EXPLANATION += ' C04.R8 (callback contract): the copy callbacks handed to ForEachKeyValue by the span, event and link recordables return true on every path (a false stops the iteration and silently truncates the list). C04.R9 (clock agreement): a SteadyTimestamp default comes from steady_clock and a SystemTimestamp default from system_clock, so end - start is a difference of the same clock.'
ROUND2_EXPLANATION = (" C04.R5 also: the flags handed to the recordable are read from the span's own context only. C04.R10 (call order): SpanData::AddEvent / AddLink append (push_back / emplace_back / insert at end()). Shared C19.R1: no string_view::data() without the view's length in the attribute conversion and the trace SDK.")
ROUND2_EXPLANATION += (" C04.R11: every parameter of a Span mutator (SetAttribute, all AddEvent overloads, AddLink, SetStatus, UpdateName) is part of an argument of the recordable call it makes. C04.R12: the SetDuration argument in End is a difference whose minuend derives from EndSpanOptions (through the now-or-given helper) and whose subtrahend is the timestamp member the span stored; each now-or-given helper of span.cc returns the current time only behind the outcome 'argument equals the default timestamp'.")
EXPLANATION += ROUND2_EXPLANATION
NOT_DECIDED = 'that the stored values equal the inputs (value semantics of the copies), ordering of events/links in the containers.'

BORROWING = ('opentelemetry::nostd::string_view', 'std::basic_string_view', 'opentelemetry::nostd::span<', 'std::span<',
             'const char *')
OWNING_PTR_EXCEPTIONS = {
    'const opentelemetry::sdk::resource::Resource *': 'owned by the provider/context, which outlives every span it creates',
    'const opentelemetry::sdk::instrumentationscope::InstrumentationScope *': 'owned by the tracer, kept alive by the span\'s shared_ptr<Tracer>',
}


def span_methods(prog, cls='sdk::trace::Span'):
    rec = prog.record(cls)
    return rec, [f for f in prog.funcs.values() if f.cls == rec['qn'] and f.kind not in ('ctor', 'dtor') and not f.d.get('lambda')]


def rule_r1(ck, prog, cls='sdk::trace::Span', field='recordable_', rule='C04.R1'):
    rec, ms = span_methods(prog, cls)
    mutexes = [fd['name'] for fd in rec['fields'] if 'mutex' in fd['t'].lower()]
    if not mutexes:
        raise AnalysisBroken('%s: no mutex member' % cls)
    cnt = 0
    for f in sorted(ms, key=lambda x: x.line):
        g = Graph(prog, f, inline=None, sync_lambdas=True)
        held = held_locks(g)
        accesses = [p for p in g.points if p.n is not None and p.n['k'] == 'member' and
                    access_path(p.f, p.n['i'], p.ctx) == ('this', field)]
        if not accesses:
            continue
        cnt += 1
        site = '%s@%d-params' % (f.name, len(f.params))
        unlocked = [p for p in accesses if not any(l == 'this.' + m for m in mutexes for l in held.get(p.id, ()))]
        if unlocked:
            p = unlocked[0]
            ck.violation(rule, f, site + ':locked', p.n,
                         '%s is read or used without holding %s: it races with End() moving the recordable out (a test made before the lock is stale when the lock is acquired)' % (field, mutexes[0]),
                         path=g.describe_path(g.path(g.entry, p) or []))
        else:
            ck.holds(rule, f, site + ':locked', accesses[0].n, '%d accesses, all under %s' % (len(accesses), mutexes[0]))
        # dereferences behind the non-null edge
        derefs = []
        for p in g.points:
            n = p.n
            if n is not None and n['k'] == 'call' and n.get('obj') is not None:
                c = strip_targs(n.get('c', ''))
                if c.rsplit('::', 1)[-1] in ('operator->', 'operator*') and access_path(p.f, n['obj'], p.ctx) == ('this', field):
                    derefs.append(p)

        def nonnull_edge(a, b, lab):
            if not lab or not isinstance(lab[0], int):
                return False
            core, pol = norm_cond(lab[1], lab[0])
            if access_path(lab[1], core, a.ctx) != ('this', field):
                return False
            truth = lab[2] if pol else (not lab[2])
            # the test itself must have been made under the lock
            cp = g.point_of.get((id(a.ctx), core))
            if cp is not None and not any(l == 'this.' + m for m in mutexes for l in held.get(cp.id, ())):
                return False
            return truth is True
        bad = [p for p in derefs if not g.must_pass_edge(p, nonnull_edge)]
        if bad:
            ck.violation(rule, f, site + ':non-null', bad[0].n,
                         '%s is dereferenced on a path that has not passed a non-null test made under the lock (after End it is null)' % field,
                         path=g.describe_path(g.path(g.entry, bad[0], avoid_edges=nonnull_edge) or []))
        elif derefs:
            ck.holds(rule, f, site + ':non-null', derefs[0].n, '%d dereferences behind the non-null edge' % len(derefs))
    return cnt


def rule_r2(ck, prog, cls='sdk::trace::Span', rule='C04.R2'):
    rec = prog.record(cls)
    fs = [f for f in prog.funcs.values() if f.cls == rec['qn'] and f.name == 'End']
    if not fs:
        raise AnalysisBroken('%s::End vanished' % cls)
    f = fs[0]
    g = Graph(prog, f, inline=None, sync_lambdas=False)
    rd = reaching_defs(g)
    held = held_locks(g)
    onends = g.calls('SpanProcessor::OnEnd')
    if not onends:
        ck.violation(rule, f, 'onend-called', None, 'End never hands the recordable to the processor')
        return
    flag_fields = [fd['name'] for fd in rec['fields'] if fd['t'] in ('bool', 'std::atomic<bool>')]

    def not_ended_edge(a, b, lab):
        if not lab or not isinstance(lab[0], int):
            return False
        core, pol = norm_cond(lab[1], lab[0])
        p = access_path(lab[1], core, a.ctx)
        if len(p) == 2 and p[0] == 'this' and p[1] in flag_fields:
            return (lab[2] if pol else not lab[2]) is False
        if _is_flag_exchange(lab[1], lab[1].nodes[core], a.ctx):
            return (lab[2] if pol else not lab[2]) is False      # the old value std::exchange / atomic exchange returned
        return False

    def _is_flag_exchange(ff, n, ctx):
        """std::exchange(flag, true) / flag.exchange(true): reads the old value and sets the flag in one step"""
        if n['k'] != 'call':
            return False
        c = strip_targs(n.get('c', ''))
        if c == 'std::exchange' and len(n.get('args', [])) == 2:
            p = access_path(ff, n['args'][0], ctx)
            return len(p) == 2 and p[0] == 'this' and p[1] in flag_fields and strip_casts(ff, n['args'][1]).get('v') == 1
        if c.rsplit('::', 1)[-1] == 'exchange' and n.get('obj') is not None and n.get('args'):
            p = access_path(ff, n['obj'], ctx)
            return len(p) == 2 and p[0] == 'this' and p[1] in flag_fields and strip_casts(ff, n['args'][0]).get('v') == 1
        return False
    oe = onends[0]
    ok = g.must_pass_edge(oe, not_ended_edge)
    ck.verdict(ok, rule, f, 'onend-behind-not-ended', oe.n,
               'OnEnd is behind the not-yet-ended edge' if ok else 'a second End() can reach OnEnd again: the ended flag does not guard it')
    # flag set before OnEnd on every path
    sets = [p for p in g.points if p.n is not None and p.n['k'] == 'binop' and p.n['op'] == '=' and
            len(access_path(f, p.n['lhs'], p.ctx)) == 2 and access_path(f, p.n['lhs'], p.ctx)[1] in flag_fields and
            strip_casts(f, p.n['rhs']).get('v') == 1]
    sets += [p for p in g.points if p.n is not None and _is_flag_exchange(p.f, p.n, p.ctx)]
    ok = bool(sets) and g.must_pass(oe, sets)
    ck.verdict(ok, rule, f, 'flag-set-before-onend', sets[0].n if sets else oe.n,
               'ended flag set before OnEnd' if ok else 'OnEnd can be reached without the ended flag having been set: End is not idempotent')
    locked = all(any(l.startswith('this.') for l in held.get(p.id, ())) for p in sets + [oe])
    ck.verdict(locked, rule, f, 'end-under-lock', oe.n, 'flag update and OnEnd under the span mutex' if locked else
               'the ended flag is set or OnEnd is called without the span mutex: two concurrent End() calls can both export')
    multi = any(b.id in g.reachable_from([q for (q, _l) in a.succ]) for a in onends for b in onends)
    ck.verdict(not multi and len(onends) == 1, rule, f, 'onend-once-per-path', oe.n,
               'one OnEnd per path' if not multi and len(onends) == 1 else 'OnEnd can be called twice on one path')
    # argument is the moved recordable, and the member is reset afterwards on every path
    arg = oe.n['args'][0] if oe.n.get('args') else None
    # (the recordable may first be moved into a local that is then handed over)
    moved_local = None
    if arg is not None and access_path(f, arg, oe.ctx)[:1] != ('this',):
        local_ref = strip_casts(f, arg)
        a_ = once_init(f, arg)
        if 'i' in a_ and a_ is not local_ref and access_path(f, a_['i'], oe.ctx)[:1] == ('this',) and 'unique_ptr' in (local_ref.get('t') or ''):
            moved_local = local_ref      # a unique_ptr local initialised by moving the member out
            arg = a_['i']
    ok = arg is not None and access_path(f, arg, oe.ctx)[:1] == ('this',) and 'ecordable' in access_path(f, arg, oe.ctx)[-1]
    ck.verdict(ok, rule, f, 'onend-gets-the-recordable', oe.n, 'OnEnd receives the span\'s recordable' if ok else 'OnEnd is not handed the span\'s own recordable')
    fieldp = access_path(f, arg, oe.ctx) if arg is not None else None
    resets = [p for p in g.points if p.n is not None and p.n['k'] == 'call' and p.n.get('obj') is not None and
              strip_targs(p.n.get('c', '')).rsplit('::', 1)[-1] in ('reset', 'release', 'operator=') and
              access_path(f, p.n['obj'], p.ctx) == fieldp]
    ok = bool(resets) and g.must_reach(oe, resets)
    if not ok and moved_local is not None:
        # the member was emptied by the move construction of the local, before OnEnd
        mp = [p for p in g.points if p.n is not None and p.n['k'] == 'declstmt' and any(d['id'] == moved_local.get('id') for d in p.n['decls'])]
        if mp and g.must_pass(oe, mp):
            ok = True
            resets = mp
    ck.verdict(ok, rule, f, 'recordable-null-after-end', resets[0].n if resets else oe.n,
               'recordable member reset on every path after OnEnd' if ok else
               'after OnEnd a path leaves the recordable member non-null: later SetAttribute/AddEvent would write into a moved-from or exported recordable')


def rule_r3(ck, prog):
    base = prog.record('sdk::trace::Recordable')
    virtuals = [m for m in base['methods'] if m.get('virtual') and m.get('kind') != 'dtor' and not m['name'].startswith('operator ')]
    if len(virtuals) < 12:
        raise AnalysisBroken('sdk::trace::Recordable has %d virtual setters, fewer than the 12 confirmed' % len(virtuals))
    for r in prog.derived_from('sdk::trace::Recordable'):
        if r.get('abstract') or r['qn'].startswith('canary::'):
            continue
        overridden = set()
        for m in r['methods']:
            for o in m.get('over', ()):
                overridden.add(o)
        missing = [m for m in virtuals if m['key'] not in overridden]

        class _F:  # tiny stand-in so that reports carry the class name
            qn = r['qn']
            def loc(self, n=None):
                return '%s:%d' % (r['file'].replace('/repo/', ''), r['line'])
        if missing:
            ck.violation('C04.R3', _F(), 'overrides-all-virtuals', None,
                         '%s does not override %s: that part of the record is silently dropped for this recordable' %
                         (strip_targs(r['qn']), ', '.join(m['name'] for m in missing)))
        else:
            ck.holds('C04.R3', _F(), 'overrides-all-virtuals', None, '%d virtuals overridden' % len(virtuals))


def _loop_facts(f, loop):
    """(has early exit) for a loop node: break/return inside its body (not in nested lambdas)"""
    body = loop.get('body')
    early = []
    if body is not None:
        for i in f.subtree(body):
            k = f.nodes[i]['k']
            if k in ('break', 'return', 'GotoStmt'):
                early.append(f.nodes[i])
    return early


_HELPER_CACHE = {}


def _helper_visits_every_child(prog, h, container):
    """None when helper h loops over this.<container> and invokes its callable parameter on every element on every path, with no
    early exit; else the reason"""
    key = (h.key, container)
    if key in _HELPER_CACHE:
        return _HELPER_CACHE[key]
    g = Graph(prog, h, inline=None, sync_lambdas=False)
    loops = loops_over(h, lambda ap: ap == ('this', container))
    pids = {p['id'] for p in h.params}
    visits = [p for p in g.points if p.n is not None and p.n['k'] == 'call' and
              strip_casts(h, p.n['fx'] if p.n.get('fx') is not None else (p.n['obj'] if p.n.get('obj') is not None else -1)).get('id') in pids] \
        if True else []
    if len(loops) != 1:
        r = 'does not loop over the children'
    elif not visits:
        r = 'never invokes its callback'
    else:
        r = loop_visits_every_element(g, h, loops[0], visits)
    _HELPER_CACHE[key] = r
    return r


def rule_r4_multirecordable(ck, prog, cls='sdk::trace::MultiRecordable', base='sdk::trace::Recordable', rule='C04.R4',
                            container='recordables_', allow_child_null_check=False):
    rec = prog.record(cls)
    brec = prog.record(base)
    vkeys = {m['key']: m for m in brec['methods'] if m.get('virtual') and m.get('kind') != 'dtor'}
    cnt = 0
    for f in sorted([f for f in prog.funcs.values() if f.cls == rec['qn']], key=lambda x: x.line):
        over = [o for o in f.d.get('over', ()) if o in vkeys]
        if not over or f.name.startswith('operator '):
            continue
        cnt += 1
        site = 'fanout:%s' % f.name
        loops = [n for n in f.nodes if n['k'] == 'forrange' and access_path(f, n['range']) == ('this', container)]
        if not loops:
            loops = [n for n in f.nodes if n['k'] in ('for', 'while', 'forrange')]
        if not loops:
            # the fan-out may go through a private higher-order helper: `ForEachChild([&](Recordable &r) { r.SetName(name); })`.
            # Then the helper visits every child unconditionally (flow-graph check on the helper), and the callback forwards.
            via = None
            for n in f.nodes:
                h = prog.funcs.get(n.get('ck')) if n['k'] == 'call' else None
                if h is None or h.cls != rec['qn'] or not h.blocks:
                    continue
                lams = [prog.funcs[f.nodes[k]['fn']] for a in n.get('args', []) if a is not None and a >= 0 for k in f.subtree(a)
                        if f.nodes[k]['k'] == 'lambda' and f.nodes[k].get('fn') in prog.funcs]
                if lams:
                    via = (n, h, lams[0])
            if via is not None:
                hn, h, lf = via
                why = _helper_visits_every_child(prog, h, container)
                lcalls = [m for m in lf.nodes if m['k'] == 'call' and m.get('virt') and strip_targs(m.get('c', '')).rsplit('::', 1)[-1] == f.name]
                branching = [m for m in lf.nodes if m['k'] in ('if', 'cond', 'SwitchStmt', 'while', 'for', 'do', 'forrange') or (m['k'] == 'binop' and m['op'] in ('&&', '||'))]
                if why is not None:
                    ck.violation(rule, f, site, hn, '%s fans out through %s, which %s' % (short(f), h.name, why))
                elif len(lcalls) != 1 or branching:
                    ck.violation(rule, f, site, hn, 'the callback handed to %s does not call %s on the child unconditionally' % (h.name, f.name))
                else:
                    args = [strip_casts(lf, a) for a in lcalls[0].get('args', [])]
                    okargs = len(args) == len(f.params) and all(a['k'] == 'ref' and a.get('id') == p['id'] for a, p in zip(args, f.params))
                    ck.verdict(okargs, rule, f, site, lcalls[0], 'all children (through %s), %d parameter(s) forwarded' % (h.name, len(f.params)) if okargs else
                               'the parameters are not all forwarded in order to the child\'s %s' % f.name)
                continue
            ck.violation(rule, f, site, None, '%s does not loop over the child recordables' % short(f))
            continue
        loop = loops[0]
        early = _loop_facts(f, loop)
        calls = [f.nodes[i] for i in f.subtree(loop['body']) if f.nodes[i]['k'] == 'call' and
                 strip_targs(f.nodes[i].get('c', '')).rsplit('::', 1)[-1] == f.name and f.nodes[i].get('virt')]
        if early:
            ck.violation(rule, f, site, early[0], 'the fan-out loop can exit early (%s): later children miss this part of the record' % early[0]['k'])
            continue
        if not calls:
            ck.violation(rule, f, site, loop, 'the fan-out loop never calls %s on the child' % f.name)
            continue
        call = calls[0]
        # the call is unconditional inside the body: no `if` between loop body and the call
        pm = f.parent_map()
        x = call['i']
        cond_between = False
        while x in pm and pm[x] != loop['i']:
            x = pm[x]
            if f.nodes[x]['k'] in ('if', 'cond', 'SwitchStmt') or (f.nodes[x]['k'] == 'binop' and f.nodes[x]['op'] in ('&&', '||')):
                if allow_child_null_check and f.nodes[x]['k'] == 'if':
                    core, pol = norm_cond(f, f.nodes[x]['cnd'])
                    if any(f.nodes[i]['k'] == 'ref' and f.nodes[i].get('id') == loop.get('var') for i in f.subtree(core)) and \
                            not any(f.nodes[i]['k'] == 'call' and not strip_targs(f.nodes[i].get('c', '')).startswith('std::') for i in f.subtree(core)):
                        continue   # `if (child)` : a null child has nothing to forward to
                cond_between = True
        if cond_between:
            ck.violation(rule, f, site, call, 'the child call is conditional inside the fan-out loop: some children can be skipped')
            continue
        args = [strip_casts(f, a) for a in call.get('args', [])]
        okargs = len(args) == len(f.params) and all(a['k'] == 'ref' and a.get('id') == p['id'] for a, p in zip(args, f.params))
        if not okargs:
            ck.violation(rule, f, site, call, 'the parameters are not all forwarded in order to the child\'s %s' % f.name)
            continue
        ck.holds(rule, f, site, call, 'all children, no early exit, %d parameter(s) forwarded' % len(f.params))
    return cnt


def rule_r4_list(ck, prog, cls='sdk::trace::MultiSpanProcessor', rule='C04.R4'):
    rec = prog.record(cls)
    ptr_fields = [fd['name'] for fd in rec['fields'] if 'ProcessorNode *' in fd['t'] or fd['t'].endswith('Node *')]
    fs = {f.name: f for f in prog.funcs.values() if f.cls == rec['qn']}
    head = None
    link = None
    for name in ('MakeRecordable', 'OnStart', 'OnEnd', 'ForceFlush', 'Shutdown'):
        f = fs.get(name)
        if f is None:
            raise AnalysisBroken('%s::%s vanished' % (cls, name))
        g = Graph(prog, f, inline=None, sync_lambdas=False)
        loops = [n for n in f.nodes if n['k'] in ('while', 'for', 'do')]
        if not loops:
            ck.violation(rule, f, 'traversal:%s' % name, None, 'no traversal loop over the processor list')
            continue
        loop = loops[0]
        # loop variable: the pointer tested in the condition
        core, pol = norm_cond(f, loop['cnd'])
        cn = strip_casts(f, core)
        if cn['k'] != 'ref':
            ck.inconclusive(rule, f, 'traversal:%s' % name, loop, 'loop condition is not a test of the cursor')
            continue
        vid = cn['id']
        inits = [(n, v) for n in f.nodes for (i, s, v) in defs_in_node(f, n) if i == vid and n['k'] == 'declstmt']
        init_path = access_path(f, inits[0][1]) if inits and inits[0][1] is not None else None
        in_loop = set(f.subtree(loop['body'])) | (set(f.subtree(loop['inc'])) if loop.get('inc') is not None and loop['inc'] >= 0 else set())
        updates = [n for n in f.nodes if n['k'] == 'binop' and n['op'] == '=' and strip_casts(f, n['lhs']).get('id') == vid
                   and n['i'] in in_loop]
        ok = True
        why = []
        if not (init_path and len(init_path) == 2 and init_path[0] == 'this' and init_path[1] in ptr_fields):
            ok = False
            why.append('the cursor does not start at a list member')
        else:
            if head is None:
                head = init_path[1]
            elif init_path[1] != head:
                ok = False
                why.append('the cursor starts at %s, other traversals start at %s' % (init_path[1], head))
        if not updates:
            ok = False
            why.append('the cursor is never advanced')
        else:
            up = access_path(f, updates[0]['rhs'])
            if not (len(up) == 2 and up[0].startswith('local:%s:' % vid)):
                ok = False
                why.append('the cursor is not advanced along its own link')
            else:
                if link is None:
                    link = up[1]
                elif up[1] != link:
                    ok = False
                    why.append('advances along %s, other traversals along %s' % (up[1], link))
            # advanced on every path of the body: from loop body entry to back edge
            up_pts = [p for p in g.points if p.n is not None and any(p.n is u for u in updates)]
            cond_pts = [p for p in g.points if p.n is not None and p.n['i'] == core]
            if up_pts and cond_pts:
                # any path from the condition (true edge) back to the condition must pass an update
                starts = [q for cp in cond_pts for (q, lab) in cp.succ] or []
                body_starts = []
                for p in g.points:
                    for (q, lab) in p.succ:
                        if lab and isinstance(lab[0], int) and lab[0] == loop['cnd'] and lab[2] is (pol is True):
                            body_starts.append(q)
                r = g.reachable_from(body_starts, avoid=up_pts)
                if any(cp.id in r for cp in cond_pts):
                    ok = False
                    why.append('a path through the loop body does not advance the cursor')
        early = _loop_facts(f, loop)
        if early:
            ok = False
            why.append('the traversal can exit early (%s): later processors are skipped' % early[0]['k'])
        childcalls = [f.nodes[i] for i in f.subtree(loop['body']) if f.nodes[i]['k'] == 'call' and f.nodes[i].get('virt')
                      and strip_targs(f.nodes[i].get('c', '')).rsplit('::', 1)[-1] == name]
        if not childcalls:
            ok = False
            why.append('the child processor\'s %s is never called' % name)
        ck.verdict(ok, rule, f, 'traversal:%s' % name, loop, 'starts at head, advances on every path, no early exit' if ok else '; '.join(why))
    # the append
    f = fs.get('AddProcessor')
    if f is None:
        raise AnalysisBroken('%s::AddProcessor vanished' % cls)
    g = Graph(prog, f, inline=None, sync_lambdas=False)
    newvars = [d['id'] for n in f.nodes if n['k'] == 'declstmt' for d in n['decls'] if 'init' in d and f.nodes[d['init']]['k'] == 'new']
    if not newvars or link is None or head is None:
        ck.inconclusive(rule, f, 'append', None, 'list roles not discovered (new node %s, link %s, head %s)' % (bool(newvars), link, head))
        return
    nv = newvars[0]
    # members assigned the new node, and on which paths
    assigns = {}
    link_writes = []
    for p in g.points:
        n = p.n
        if n is None or n['k'] != 'binop' or n['op'] != '=':
            continue
        rhs = strip_casts(f, n['rhs'])
        is_new = (rhs['k'] == 'ref' and rhs.get('id') == nv) or \
                 (rhs['k'] == 'binop' and rhs['op'] == '=' and strip_casts(f, rhs['rhs']).get('id') == nv)
        if not is_new:
            continue
        lp = access_path(f, n['lhs'], p.ctx)
        if len(lp) == 2 and lp[0] == 'this':
            assigns.setdefault(lp[1], []).append(p)
        elif len(lp) == 3 and lp[0] == 'this' and lp[2] == link:
            link_writes.append((p, lp[1]))
    # creation point
    creates = [p for p in g.points if p.n is not None and p.n['k'] == 'declstmt' and any(d['id'] == nv for d in p.n['decls'])]
    tails = [m for m, pts in assigns.items() if creates and g.must_reach(creates[0], pts)]
    if not tails:
        ck.violation(rule, f, 'append', None, 'no member is set to the new node on every append path: the node is not reachable as the last one')
        return
    tail = [t for t in tails if t != head] or tails
    tail = tail[0]
    if not link_writes:
        ck.violation(rule, f, 'append', None, 'a non-first node is never linked behind an existing node')
        return
    bad = [(p, m) for (p, m) in link_writes if m != tail]
    if bad:
        ck.violation(rule, f, 'append', bad[0][0].n,
                     'the new node is linked behind %s, not behind the current last node %s: nodes between them are dropped from every traversal' % (bad[0][1], tail))
    else:
        order_ok = all(any(tp.id in g.reachable_from([q for (q, _l) in p.succ]) for tp in assigns[tail]) for (p, m) in link_writes)
        ck.verdict(order_ok, rule, f, 'append', link_writes[0][0].n,
                   'new node linked behind the current last node %s, then %s updated' % (tail, tail) if order_ok else
                   'the last-node member is updated before the old last node is linked to the new one')


def rule_r5(ck, prog):
    rec = prog.record('sdk::trace::Span')
    ctors = [f for f in prog.funcs.values() if f.cls == rec['qn'] and f.kind == 'ctor']
    if not ctors:
        raise AnalysisBroken('sdk::trace::Span constructor vanished')
    f = ctors[0]
    from .common import same_class_inline
    g = Graph(prog, f, inline=same_class_inline(prog, rec['qn']), max_depth=4, sync_lambdas=True)

    def null_edge(a, b, lab):
        if not lab or not isinstance(lab[0], int):
            return False
        core, pol = norm_cond(lab[1], lab[0])
        if access_path(lab[1], core, a.ctx) != ('this', 'recordable_'):
            return False
        return (lab[2] if pol else not lab[2]) is False
    setters = {
        'SetName': ('param', 'name'),
        'SetInstrumentationScope': ('call', 'GetInstrumentationScope'),
        'SetIdentity': ('field', 'this.span_context_'),
        'SetTraceFlags': ('call', 'trace_flags'),
        'SetSpanKind': ('memberof', 'kind'),
        'SetStartTime': ('memberof', 'start_system_time'),
        'SetResource': ('call', 'GetResource'),
    }
    def rcalls(name):
        return [p for p in g.points if p.n is not None and p.n['k'] == 'call' and p.n.get('virt') and not (p.ctx is not None and p.ctx.lambda_of) and
                strip_targs(p.n.get('c', '')).rsplit('::', 1)[-1] == name and qmatch(p.n.get('cls', ''), 'sdk::trace::Recordable')]
    onstart = [p for p in g.calls('SpanProcessor::OnStart')]
    for name, (kind, what) in sorted(setters.items()):
        pts = rcalls(name)
        site = 'start:%s' % name
        if not pts:
            ck.violation('C04.R5', f, site, None, 'the constructor never calls %s on the recordable: this part of the record is missing at export' % name)
            continue
        r = g.reachable_from(g.entry, avoid=pts, avoid_edges=null_edge)
        if g.exit.id in r:
            ck.violation('C04.R5', f, site, pts[0].n, '%s is skipped on a recording path of the constructor' % name,
                         path=g.describe_path(g.path(g.entry, g.exit, avoid=pts, avoid_edges=null_edge) or []))
            continue
        lv = set()
        for a in pts[0].n.get('args', []):
            lv |= leaves(f, a)
        ok = False
        for l in lv:
            if kind == 'param' and l[0] == 'param' and l[1] == what:
                ok = True
            if kind == 'call' and l[0] == 'call' and l[1].rsplit('::', 1)[-1] == what:
                ok = True
            if kind == 'field' and l[0] == 'field' and l[1] == what:
                ok = True
            if kind == 'memberof' and l[0] == 'memberof' and l[1] == what:
                ok = True
        if ok and name == 'SetTraceFlags':
            # the exported flags are the new span's own: every trace_flags() read in the argument is on the span's own context
            foreign = [m for a in pts[0].n.get('args', []) if a is not None and a >= 0 for m in [pts[0].f.nodes[i] for i in list(pts[0].f.subtree(a)) + [a]]
                       if m['k'] == 'call' and strip_targs(m.get('c', '')).rsplit('::', 1)[-1] == 'trace_flags' and m.get('obj') is not None and
                       access_path(pts[0].f, m['obj'], pts[0].ctx)[:2] != ('this', 'span_context_')]
            if foreign:
                ck.violation('C04.R5', f, site, foreign[0], 'the trace flags handed to the recordable can come from another context than the span\'s own (e.g. the parent\'s): exporters see a sampled bit / flag bits that are not the sampler\'s decision for this span')
                continue
        if not ok:
            ck.violation('C04.R5', f, site, pts[0].n, '%s is not fed from %s' % (name, what))
            continue
        if onstart and not all(op.id in g.reachable_from([q for (q, _l) in pts[0].succ]) for op in onstart):
            ck.violation('C04.R5', f, site, pts[0].n, '%s is called after the processor\'s OnStart' % name)
            continue
        ck.holds('C04.R5', f, site, pts[0].n, 'reached on every recording path, fed from %s, before OnStart' % what)
    # attributes / links through the iterables
    for pname, setter in (('attributes', 'SetAttribute'), ('links', 'AddLink')):
        site = 'start:%s' % setter
        ppid = [p_['id'] for p_ in f.params if p_['name'] == pname]
        it = [p for p in g.points if p.n is not None and p.n['k'] == 'call' and not (p.ctx is not None and p.ctx.lambda_of) and
              strip_targs(p.n.get('c', '')).rsplit('::', 1)[-1] == 'ForEachKeyValue' and p.n.get('obj') is not None and
              p.f.nodes[p.n['obj']].get('id') is not None and ppid and ppid[0] in g.canon_var(p.f.nodes[p.n['obj']]['id'])]
        inner = [p for p in g.points if p.n is not None and p.n['k'] == 'call' and p.n.get('virt') and
                 strip_targs(p.n.get('c', '')).rsplit('::', 1)[-1] == setter and p.ctx is not g.root_ctx]
        ok = bool(it) and bool(inner) and g.exit.id not in g.reachable_from(g.entry, avoid=it, avoid_edges=null_edge)
        if ok:
            # the per-element callback must not stop the iteration and must forward both parts
            lam = inner[0].f
            lg = Graph(prog, lam, inline=None, sync_lambdas=False)
            rets = lg.returns()
            if any(strip_casts(lam, r.n['e']).get('v') != 1 for r in rets if r.n.get('e') is not None):
                ok = False
            args = [strip_casts(lam, a) for a in inner[0].n.get('args', [])]
            if not (len(args) == len(lam.params) and all(a['k'] == 'ref' and a.get('id') == p['id'] for a, p in zip(args, lam.params))):
                ok = False
        ck.verdict(ok, 'C04.R5', f, site, (inner[0].n if inner else None),
                   'every %s entry forwarded to %s' % (pname, setter) if ok else
                   'the %s passed at start are not all forwarded to %s (iteration missing, conditional, stopping early or dropping a part)' % (pname, setter))
    # parent id decision
    ids = rcalls('SetIdentity')
    if ids:
        a = ids[0].n['args'][1] if len(ids[0].n.get('args', [])) > 1 else None
        ok = False
        if a is not None:
            from .common import scenario_sources
            ppar = [p for p in f.params if 'SpanContext' in p['t'] and 'unique_ptr' not in p['t']]
            pids = {p['id'] for p in ppar}

            def atom_role(ff, cnd, ctx):
                core, pol = norm_cond(ff, cnd)
                cn = strip_casts(ff, core)
                if cn['k'] == 'call' and strip_targs(cn.get('c', '')).endswith('SpanContext::IsValid') and cn.get('obj') is not None and \
                        strip_casts(ff, cn['obj']).get('id') in pids:
                    return 'parentValid', pol
                return None, pol

            def classify(ff, n, ctx):
                if n['k'] == 'call' and strip_targs(n.get('c', '')).endswith('SpanContext::span_id') and n.get('obj') is not None and \
                        strip_casts(ff, n['obj']).get('id') in pids:
                    return 'parent-span-id'
                if n['k'] == 'construct' and strip_targs(n.get('c', '')).endswith('SpanId::SpanId') and not n.get('args'):
                    return 'zero'
                return None
            v_ = scenario_sources(g, f, a, ids[0].ctx, {'parentValid': True}, atom_role, classify, at=ids[0])
            i_ = scenario_sources(g, f, a, ids[0].ctx, {'parentValid': False}, atom_role, classify, at=ids[0])
            ok = v_ == {'parent-span-id'} and i_ == {'zero'}
        ck.verdict(ok, 'C04.R5', f, 'start:parent-id', ids[0].n,
                   'parent id = parent.IsValid() ? parent.span_id() : SpanId()' if ok else
                   'the parent span id handed to SetIdentity is not parent.IsValid() ? parent.span_id() : SpanId()')


def _borrowing(prog, t, depth=0, seen=None):
    """reason string if type t can hold a borrowed pointer, else None"""
    if seen is None:
        seen = set()
    if t in OWNING_PTR_EXCEPTIONS:
        return None
    for b in BORROWING:
        if b in t:
            return 'contains %s' % b.rstrip('<')
    if depth > 4:
        return None
    # records named inside the type
    for qn, r in prog.records.items():
        if qn in seen or len(qn) < 8:
            continue
        pos = t.find(qn)
        # whole-name match only: not a prefix of a nested or longer name
        while pos >= 0 and (t[pos + len(qn):pos + len(qn) + 1] in (':',) or t[pos + len(qn):pos + len(qn) + 1].isalnum() or t[pos + len(qn):pos + len(qn) + 1] == '_' or
                            (pos > 0 and (t[pos - 1].isalnum() or t[pos - 1] in ':_'))):
            pos = t.find(qn, pos + 1)
        if pos >= 0:
            seen.add(qn)
            for fd in r['fields']:
                w = _borrowing(prog, fd['t'], depth + 1, seen)
                if w:
                    return 'via %s::%s: %s' % (strip_targs(qn).rsplit('::', 1)[-1], fd['name'], w)
            for b in r['bases']:
                w = _borrowing(prog, b['t'], depth + 1, seen)
                if w:
                    return 'via base %s: %s' % (b['t'][:60], w)
    return None


def rule_r6(ck, prog, base='sdk::trace::Recordable', rule='C04.R6', skip=()):
    cnt = 0
    for r in prog.derived_from(base):
        if r.get('abstract') or r['qn'].startswith('canary::') and not skip == 'canary-only':
            continue
        if skip == 'canary-only' and not r['qn'].startswith('canary::'):
            continue

        class _F:
            qn = r['qn']
            def loc(self, n=None):
                return '%s:%d' % (r['file'].replace('/repo/', ''), r['line'])
        for fd in r['fields']:
            if 'unique_ptr<opentelemetry::sdk::trace::Recordable' in fd['t'] or 'Recordable>' in fd['t']:
                continue  # child recordables (fan-out) are checked on their own
            cnt += 1
            w = _borrowing(prog, fd['t'])
            if w:
                ck.violation(rule, _F(), 'owned-field:%s' % fd['name'], None,
                             'field %s of %s has the borrowing type %s (%s): the exported record would point into caller memory' %
                             (fd['name'], strip_targs(r['qn']), fd['t'][:80], w))
            else:
                ck.holds(rule, _F(), 'owned-field:%s' % fd['name'], None, fd['t'][:80])
    return cnt


def rule_r6_converter(ck, prog):
    av = prog.aliases.get('opentelemetry::common::AttributeValue')
    ov = prog.aliases.get('opentelemetry::sdk::common::OwnedAttributeValue')
    conv = prog.record('sdk::common::AttributeConverter')
    if not av or not ov or not av.get('targs'):
        raise AnalysisBroken('AttributeValue / OwnedAttributeValue alias not found')

    class _F:
        qn = conv['qn']
        def loc(self, n=None):
            return '%s:%d' % (conv['file'].replace('/repo/', ''), conv['line'])
    ops = [m for m in conv['methods'] if m['name'] == 'operator()' and m.get('params')]
    for alt in av['targs']:
        exact = [m for m in ops if len(m['params']) == 1 and m['params'][0].replace('const ', '').replace(' &', '') == alt.replace('const ', '', 0) or
                 (len(m['params']) == 1 and m['params'][0] == alt)]
        ok = bool(exact) and all(m['ret'] == ov['t'] for m in exact)
        ck.verdict(ok, 'C04.R6', _F(), 'converter:%s' % alt[:60], None,
                   'exact-match overload returning the owned variant' if ok else
                   'AttributeConverter has no exact-match operator() for alternative %s: the value would be converted through an implicit conversion (e.g. const char* -> bool)' % alt)
    bad = [a for a in ov['targs'] if any(b in a for b in BORROWING)]
    ck.verdict(not bad, 'C04.R6', _F(), 'owned-variant-alternatives', None,
               'no borrowing alternative in OwnedAttributeValue' if not bad else 'OwnedAttributeValue has a borrowing alternative %s' % bad[0])


def rule_r7(ck, prog, cls='sdk::trace::SpanData', base='sdk::trace::Recordable', rule='C04.R7'):
    rec = prog.record(cls)
    brec = prog.record(base)
    vkeys = {m['key'] for m in brec['methods'] if m.get('virtual') and m.get('kind') != 'dtor'}
    cnt = 0
    for f in sorted([f for f in prog.funcs.values() if f.cls == rec['qn']], key=lambda x: x.line):
        if not any(o in vkeys for o in f.d.get('over', ())) or f.name.startswith('operator '):
            continue
        g = Graph(prog, f, inline=None, sync_lambdas=False)
        for prm in f.params:
            if not prm['name']:
                continue
            cnt += 1
            site = 'setter:%s:%s' % (f.name, prm['name'])
            sinks = []
            for p in g.points:
                n = p.n
                if n is None:
                    continue
                uses_param = False
                target = None
                if n['k'] == 'binop' and n['op'] == '=' or (n['k'] == 'call' and n.get('op') == '='):
                    lhs = n['lhs'] if n['k'] == 'binop' else n.get('obj')
                    rhs = n['rhs'] if n['k'] == 'binop' else (n['args'][0] if n.get('args') else None)
                    if lhs is not None and rhs is not None and access_path(f, lhs)[:1] == ('this',):
                        target = lhs
                        uses_param = ('param', prm['name']) in leaves(f, rhs)
                elif n['k'] == 'call' and n.get('obj') is not None and access_path(f, n['obj'])[:1] == ('this',) and \
                        len(access_path(f, n['obj'])) >= 2 and not n.get('cconst'):
                    uses_param = any(('param', prm['name']) in leaves(f, a) for a in n.get('args', []))
                if uses_param:
                    sinks.append(p)
            if not sinks:
                ck.violation(rule, f, site, None, 'parameter %s of %s::%s never reaches a member: that part of the record is dropped' % (prm['name'], cls.rsplit('::', 1)[-1], f.name))
            elif g.exit.id in g.reachable_from(g.entry, avoid=sinks):
                ck.violation(rule, f, site, sinks[0].n,
                             'parameter %s of %s is stored only on some paths: on the others the previous value survives (stale data at export)' % (prm['name'], f.name),
                             path=g.describe_path(g.path(g.entry, g.exit, avoid=sinks) or []))
            else:
                ck.holds(rule, f, site, sinks[0].n, 'stored on every path')
    return cnt


def rule_r8(ck, prog, rule='C04.R8'):
    """attributes / links / event attributes supplied as iterables are all copied: no copy callback asks the iteration to stop"""
    from .common import callbacks_never_stop
    def in_scope(f):
        fl = f.d.get('file') or ''
        return '/sdk/src/trace/' in fl or '/sdk/include/opentelemetry/sdk/trace/' in fl or fl.endswith('/sdk/common/attribute_utils.h')
    hosts = [f for f in prog.funcs.values() if in_scope(f)]
    n = callbacks_never_stop(ck, prog, rule, hosts, exempt=('EqualTo',))
    if n < 3:
        raise AnalysisBroken('fewer than 3 ForEachKeyValue copy callbacks found in the span / attribute-map code (%d)' % n)


def rule_r9(ck, prog, rule='C04.R9'):
    """clock agreement: a SteadyTimestamp is only ever built from steady_clock::now(), a SystemTimestamp from system_clock::now() -
    the duration is the difference of two steady readings, which is garbage when one of them comes from the other clock"""
    cnt = 0
    for f in sorted(prog.funcs.values(), key=lambda x: x.key):
        if not f.qn.startswith(('opentelemetry::sdk::trace::', '(anonymous namespace)::', 'opentelemetry::sdk::logs::')) and '/sdk/src/trace/' not in (f.d.get('file') or ''):
            continue
        for n in f.nodes:
            if n['k'] != 'construct':
                continue
            c = strip_targs(n.get('c', ''))
            want = 'steady_clock' if c.endswith('common::SteadyTimestamp::SteadyTimestamp') else ('system_clock' if c.endswith('common::SystemTimestamp::SystemTimestamp') else None)
            if want is None or not n.get('args'):
                continue
            nows = [strip_targs(f.nodes[j].get('c', '')) for a in n['args'] if a is not None and a >= 0 for j in f.subtree(a)
                    if f.nodes[j]['k'] == 'call' and strip_targs(f.nodes[j].get('c', '')).endswith('::now')]
            if not nows:
                continue
            cnt += 1
            ok = all(want in x for x in nows)
            ck.verdict(ok, rule, f, '%s-from-%s@%s' % ('steady' if want == 'steady_clock' else 'system', want, f.name), n,
                       'built from %s::now()' % want if ok else
                       'a %s is built from %s: start and end of a span are then read from different clocks whenever only one of them is supplied by the caller, the exported duration is garbage' %
                       ('SteadyTimestamp' if want == 'steady_clock' else 'SystemTimestamp', nows[0]))
    if cnt < 2:
        raise AnalysisBroken('fewer than 2 timestamp constructions from a clock reading found (%d)' % cnt)


def rule_r10(ck, prog, rule='C04.R10', cls='sdk::trace::SpanData'):
    """events and links are kept in call order: AddEvent / AddLink store the new element at the end of their member sequence
    (push_back / emplace_back, or insert at end()) - an insertion at a computed position re-orders what the application recorded"""
    rec = prog.record(cls)
    cnt = 0
    for name in ('AddEvent', 'AddLink'):
        for f in sorted([x for x in prog.funcs.values() if x.cls == rec['qn'] and x.name == name and x.blocks], key=lambda x: x.key):
            stores = [n for n in f.nodes if n['k'] == 'call' and n.get('obj') is not None and access_path(f, n['obj'])[:1] == ('this',) and len(access_path(f, n['obj'])) == 2 and
                      strip_targs(n.get('c', '')).rsplit('::', 1)[-1] in ('push_back', 'emplace_back', 'insert', 'emplace', 'push_front', 'emplace_front')]
            cnt += 1
            if not stores:
                ck.inconclusive(rule, f, 'appended-in-call-order:%s' % name, None, 'the store into the member sequence was not recognised')
                continue
            bad = None
            for n in stores:
                m = strip_targs(n['c']).rsplit('::', 1)[-1]
                if m in ('push_back', 'emplace_back'):
                    continue
                if m in ('insert', 'emplace') and n.get('args'):
                    pos = f.nodes[n['args'][0]]
                    sub = [f.nodes[i] for i in subtree_through_locals(f, n['args'][0])]
                    ends = [x for x in sub if x['k'] == 'call' and strip_targs(x.get('c', '')).rsplit('::', 1)[-1] in ('end', 'cend') and x.get('obj') is not None and access_path(f, x['obj']) == access_path(f, n['obj'])]
                    others = [x for x in sub if x['k'] == 'call' and x not in ends and strip_targs(x.get('c', '')).rsplit('::', 1)[-1] not in ('end', 'cend')]
                    if ends and not others:
                        continue
                bad = (n, m)
                break
            ck.verdict(bad is None, rule, f, 'appended-in-call-order:%s' % name, bad[0] if bad else stores[0],
                       'the new element is appended' if bad is None else
                       'SpanData::%s stores the new element with %s at a computed position: events / links are exported in another order than the application recorded them' % (name, bad[1]))
    if cnt < 2:
        raise AnalysisBroken('C04.R10: SpanData::AddEvent / AddLink not found')


def rule_r11_mutators_forward(ck, prog, rule='C04.R11', cls='sdk::trace::Span'):
    """what the application hands to a mutator of the SDK span is what the recordable receives: every parameter of SetAttribute /
    AddEvent (all overloads) / AddLink / SetStatus / UpdateName is (part of) an argument of the recordable call the mutator makes"""
    rec = prog.record(cls)
    cnt = 0
    for f in sorted([x for x in prog.funcs.values() if x.cls == rec['qn'] and x.name in ('SetAttribute', 'AddEvent', 'AddLink', 'SetStatus', 'UpdateName')],
                    key=lambda x: (x.line, x.key)):
        calls = [n for n in f.nodes if n['k'] == 'call' and 'Recordable::' in strip_targs(n.get('c', '')) and n.get('obj') is not None]
        site = '%s(%s)' % (f.name, ','.join(p_['name'] for p_ in f.params))
        if not calls:
            ck.inconclusive(rule, f, site, None, 'no call on the recordable found in this mutator')
            continue
        cnt += 1
        passed = set()
        for c in calls:
            for a in c.get('args', []):
                if a is None or a < 0:
                    continue
                for i in list(subtree_through_locals(f, a)) + [a]:
                    n = f.nodes[i]
                    if n['k'] == 'ref' and n.get('sk') == 'param':
                        passed.add(n['id'])
        missing = [p_['name'] for p_ in f.params if p_['id'] not in passed]
        ck.verdict(not missing, rule, f, site, calls[0], 'every parameter reaches the recordable call' if not missing else
                   'Span::%s does not hand its parameter %s to the recordable: what the application recorded is not what is exported' % (f.name, ', '.join(missing)))
    if cnt < 5:
        raise AnalysisBroken('C04.R11: fewer than five forwarding mutators of %s found' % cls)


def rule_r12_duration(ck, prog, rule='C04.R12', cls='sdk::trace::Span'):
    """duration = end - start on the steady clock, and an end time given by the caller is the one used: the minuend of the
    SetDuration argument derives from the end option (through the now-or-given helper), the subtrahend from the start time the
    span stored; the now-or-given helpers return their argument whenever it is not the default value"""
    rec = prog.record(cls)
    f = [x for x in prog.funcs.values() if x.cls == rec['qn'] and x.name == 'End'][0]
    g = Graph(prog, f, inline=None, sync_lambdas=False)
    rd = reaching_defs(g)
    durs = [p for p in g.points if p.n is not None and p.n['k'] == 'call' and p.n.get('virt') and strip_targs(p.n.get('c', '')).endswith('Recordable::SetDuration') and p.n.get('args')]
    if not durs:
        raise AnalysisBroken('Span::End: SetDuration call not found')
    dp = durs[0]
    sub = None
    for i in list(subtree_through_locals(f, dp.n['args'][0])) + [dp.n['args'][0]]:
        n = f.nodes[i]
        if (n['k'] == 'binop' and n['op'] == '-') or (n['k'] == 'call' and n.get('op') == '-' and len(n.get('args', [])) == 2):
            sub = n
    if sub is None:
        ck.inconclusive(rule, f, 'duration-is-end-minus-start', dp.n, 'the duration is not written as a difference in End')
    else:
        l, r = (sub['lhs'], sub['rhs']) if sub['k'] == 'binop' else (sub['args'][0], sub['args'][1])

        def side(idx):
            kinds = set()
            for j in list(subtree_through_locals(f, idx)) + [idx]:
                n = f.nodes[j]
                ap = access_path(f, j)
                if n['k'] == 'member' and len(ap) >= 2 and ap[-1].startswith('end_') and ap[0].startswith('param:'):
                    kinds.add('end-option')
                if n['k'] == 'member' and ap[:1] == ('this',) and len(ap) == 2 and 'Timestamp' in (n.get('t') or ''):
                    kinds.add('start-member')
                if n['k'] == 'call' and strip_targs(n.get('c', '')).endswith('::now'):
                    kinds.add('now')
            return kinds
        lk, rk = side(l), side(r)
        if 'end-option' in rk or 'start-member' in lk:
            ck.violation(rule, f, 'duration-is-end-minus-start', sub, 'the duration handed to the recordable is start - end (a negative duration for every span)')
        elif 'start-member' in rk and 'end-option' in lk:
            ck.holds(rule, f, 'duration-is-end-minus-start', sub, 'minuend from the end option (or now), subtrahend from the stored start time')
        elif 'start-member' in rk and 'now' in lk:
            ck.violation(rule, f, 'duration-is-end-minus-start', sub, 'the end time is always "now": an end time given in EndSpanOptions is ignored, the exported duration is not the one the application recorded')
        else:
            ck.inconclusive(rule, f, 'duration-is-end-minus-start', sub, 'sources of the two operands not recognised (%s - %s)' % (sorted(lk), sorted(rk)))
    # the now-or-given helpers
    helpers = set()
    for x in prog.funcs.values():
        if x.d.get('local') and len(x.params) == 1 and 'Timestamp' in x.params[0]['t'] and 'Timestamp' in (x.d.get('ret') or '') and x.file.endswith('span.cc'):
            helpers.add(x.key)
    cnt = 0
    for k in sorted(helpers):
        h = prog.funcs[k]
        hg = Graph(prog, h, inline=None, sync_lambdas=False)
        pid = h.params[0]['id']
        rets = hg.returns()
        site = 'given-time-is-used@%s(%s)' % (h.name, h.params[0]['t'].replace('const ', '').replace(' &', '').rsplit('::', 1)[-1])
        def unwrap(idx):
            n = strip_casts(h, idx)
            while n['k'] == 'construct' and n.get('copymove') and n.get('args'):
                n = strip_casts(h, n['args'][0])
            return n
        # result sources: a return, or each arm of a returned ?: (selected at the arm's own point)
        srcs = []
        for r in rets:
            if r.n.get('e') is None or r.n['e'] < 0:
                continue
            e = unwrap(r.n['e'])
            if e['k'] == 'cond':
                for br in (e.get('a'), e.get('b')):
                    bp = None
                    for j in [br] + list(h.subtree(br)):
                        bp = hg.point_of.get((id(hg.root_ctx), j))
                        if bp is not None:
                            break
                    srcs.append((bp or r, unwrap(br)))
            else:
                srcs.append((r, e))
        given = [p_ for (p_, e) in srcs if e.get('id') == pid]
        others = [p_ for (p_, e) in srcs if e.get('id') != pid]

        def default_edge(want_default):
            def pred(a, b, lab):
                if not lab or not isinstance(lab[0], int) or lab[1] is not h:
                    return False
                core, pol = norm_cond(h, lab[0])
                out = lab[2] if pol else not lab[2]
                n = h.nodes[core]
                if n['k'] == 'call' and n.get('op') in ('==', '!=') and len(n.get('args', [])) + (1 if n.get('obj') is not None else 0) == 2:
                    sides = [strip_casts(h, a_) for a_ in ([n['obj']] if n.get('obj') is not None else []) + list(n['args'])]
                    if any(s_.get('id') == pid for s_ in sides) and any(s_['k'] == 'construct' and not s_.get('args') for s_ in sides):
                        return (out is (n['op'] == '==')) is want_default
                return False
            return pred
        cnt += 1
        if not given:
            ck.violation(rule, h, site, None, '%s never returns the time it was given: explicit start / end times of the application are replaced by the current time' % h.name)
            continue
        nows = others
        ok = all(hg.must_pass_edge(r, default_edge(True)) for r in nows) and all(not hg.must_pass_edge(r, default_edge(True)) for r in given)
        if not any(True for p_ in hg.points for (q, lab) in p_.succ if default_edge(True)(p_, q, lab) or default_edge(False)(p_, q, lab)):
            ck.inconclusive(rule, h, site, given[0].n, 'comparison of the argument with the default timestamp not recognised')
            continue
        ck.verdict(ok, rule, h, site, given[0].n, 'the current time is returned only when the argument is the default timestamp' if ok else
                   '%s returns the current time although a time was given (or the given time only when it is the default)' % h.name)
    if cnt < 2:
        ck.inconclusive(rule, f, 'given-time-is-used', None, 'the now-or-given helpers of span.cc were not found (%d)' % cnt)


def run(ck, prog):
    ck.doc('C04.R8', 'attribute / link copy callbacks handed to ForEachKeyValue never ask to stop', 3)
    ck.doc('C04.R9', 'clock agreement: SteadyTimestamp from steady_clock, SystemTimestamp from system_clock', 2)
    ck.doc('C08.R7', '(shared rule, see C08) no member of AttributeMap stores with a non-overwriting call (event / link attribute lists are last-write-wins)', 1)
    ck.doc('C04.R10', 'events and links are appended in call order (SpanData::AddEvent / AddLink)', 2)
    ck.doc('C19.R1', '(shared rule, see C19) no string_view::data() into a call without the view\'s length in the attribute conversion and the trace SDK', 0)
    ck.doc('C04.R11', 'every parameter of a Span mutator reaches the recordable call it makes', 5)
    ck.doc('C04.R12', 'duration = end - start; an end / start time given by the caller is the one used (now-or-given helpers)', 3)
    ck.doc('C04.R1', 'Span mutators: recordable only touched under the span mutex; dereferences behind the non-null edge', 16)
    ck.doc('C04.R2', 'Span::End typestate: ended flag, single OnEnd with the moved recordable, recordable reset afterwards', 6)
    ck.doc('C04.R3', 'every virtual of sdk::trace::Recordable is overridden by every concrete recordable', 2)
    ck.doc('C04.R4', 'fan-out completeness: MultiRecordable overrides, MultiSpanProcessor traversals and append', 18)
    ck.doc('C04.R5', 'Span constructor: every setter reached on every recording path, fed from its source, before OnStart', 10)
    ck.doc('C04.R6', 'type facts: recordables own their data; AttributeConverter exact for every alternative', 30)
    ck.doc('C04.R7', 'SpanData setters: every parameter stored on every path', 18)
    ck.doc('C13.R7', '(shared rule) the simple span processor hands every ended span to the exporter (no path around Export)', 1)
    with ck.canary('C04.R1'):
        rule_r1(ck, prog, 'canary::c04::BadSpan')
    with ck.canary('C04.R2'):
        rule_r2(ck, prog, 'canary::c04::BadSpan')
    with ck.canary('C04.R4'):
        rule_r4_multirecordable(ck, prog, 'canary::c04::BadMulti')
    with ck.canary('C04.R6'):
        rule_r6(ck, prog, skip='canary-only')
    with ck.canary('C04.R7'):
        rule_r7(ck, prog, 'canary::c04::BadData')
    rule_r1(ck, prog)
    rule_r2(ck, prog)
    rule_r11_mutators_forward(ck, prog)
    rule_r12_duration(ck, prog)
    rule_r3(ck, prog)
    rule_r4_multirecordable(ck, prog)
    rule_r4_list(ck, prog)
    rule_r5(ck, prog)
    rule_r6(ck, prog)
    rule_r6_converter(ck, prog)
    rule_r7(ck, prog)
    from . import c13
    c13.rule_r7_simple(ck, prog, cls='sdk::trace::SimpleSpanProcessor', method='OnEnd')
    rule_r8(ck, prog)
    rule_r9(ck, prog)
    from . import c08
    c08.rule_r7_bulk(ck, prog, classes=('sdk::common::AttributeMap',))
    rule_r10(ck, prog)
    # attribute values are copied with their length (see C19.R1): string_view::data() into a NUL-terminated API truncates at an embedded NUL
    from . import c19
    with ck.canary('C19.R1'):
        c19.rule_r1(ck, prog, only='canary::c19::', observe_others=False)
    c19.rule_r1(ck, prog, path_filters=('/sdk/include/opentelemetry/sdk/common/attribute_utils.h', '/sdk/src/trace/', '/sdk/include/opentelemetry/sdk/trace/'), observe_others=False)
    return {}
