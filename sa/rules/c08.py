"""C08 - metric series are keyed by attribute-set value; filters and limits lose nothing (structural part)."""
from ..ir import AnalysisBroken, strip_targs, qmatch
from ..graph import Graph
from ..expr import access_path, path_str, reaching_defs, norm_cond, origins, leaves, defs_in_node
from ..linear import linear, relation, fmt, rel_str
from .common import strip_casts, short, comparison, same_class_inline, subtree_through_locals, loops_over
from ..symb import feasible_reach

UNITS = ['sdk/src/metrics/state/filtered_ordered_attribute_map.cc', 'sdk/src/metrics/state/sync_metric_storage.cc',
         'sdk/src/metrics/state/temporal_metric_storage.cc']
DRIVERS = ['metrics_headers.cc']
CANARIES = ['c08_canary.cc']

EXPLANATION = (
    'C08.R1 (type facts/forwarding): the attribute-set key type derives from std::map (sorted iteration => order-insensitive '
    'hash and equality) and its hash function iterates the whole map folding key and value. C08.R2 (hash typestate): every '
    'constructor of FilteredOrderedAttributeMap (a defaulted one keeps the sentinel) and every function that mutates such an '
    'object reaches UpdateHash() on every path before returning. C08.R3 (dependence): every AttributesHashMap constructed '
    'inside a storage that has a configured limit receives a limit depending on it - use of the default argument there is a '
    'violation. C08.R4 (guards/dominance): IsOverflowAttributes <=> size+1 >= limit; in every GetOrSetDefault the overflow test '
    'is reached only on the lookup-miss edge and dominates the insertion; the overflow path looks the overflow key up before '
    'inserting it. C08.R5 (dependence): a value stored under the shared overflow key by Set must merge with what is already '
    'stored there. C08.R6 (dominance): in the filtering constructors SetAttribute is behind "no processor or key allowed"; the '
    'filter looks keys up by the full view (no string_view::data() into a NUL-terminated parameter). C08.R7 (last-write-wins '
    'stores): attribute setters store with an overwriting form (operator[] assignment / insert_or_assign), never emplace/insert.')
EXPLANATION += ' C08.R1 also checks that every scalar value hash is std::hash<T> of the value itself (not of a copy of its representation), that array hashes fold every element, and that equality of two sets compares the sorted maps element-wise. C08.R5 (exposure of finding D7b): while Set replaces the overflow value, no table created with a configured limit is filled through Set.'
EXPLANATION += " C08.R4 finds the overflow predicate and the overflow-series insertion by what they do (a bool member relating the table size to the limit; a non-overwriting insertion under the overflow key), not by name. C08.R6's insertion gate is a decision table over 'processor is non-null' x 'isPresent returned true', evaluated through callbacks and file-local helpers. C08.R7 accepts emplace followed by an assignment to the found element on the not-inserted outcome."
ROUND2_EXPLANATION = (' C08.R6 also: FilteringAttributesProcessor::isPresent is true exactly when the allow-list lookup finds the key (decision table). Shared C06.R3: reader fan-out of buildMetrics.')
ROUND2_EXPLANATION += (" C08.R8: AttributesHashMap::GetAllEnteries hands every entry to the callback and leaves the loop early only on the callback's false; every GetOrSetDefault returns the entry found / inserted under the key asked about (or the overflow helper's result), never one chosen by position; every 'found' test compares find() with end() of the same table.")
EXPLANATION += ROUND2_EXPLANATION
NOT_DECIDED = 'hash collision behaviour; conservation of totals through overflow across cycles (arithmetic over histories). The filter clause is decided for synchronous instruments only: for observable instruments the view filter is not applied at all - recorded as finding D20 under C19 (C19.R3), whose check owns meter.cc.'

NON_OVERWRITING = ('emplace', 'emplace_hint', 'insert', 'try_emplace')


class _R:
    def __init__(self, r):
        self.qn = r['qn']
        self.r = r

    def loc(self, n=None):
        return '%s:%d' % (self.r['file'].replace('/repo/', ''), self.r['line'])


def rule_r1(ck, prog, rule='C08.R1'):
    r = prog.record('sdk::common::OrderedAttributeMap')
    ok = any(b['t'].startswith('std::map<std::basic_string<char>') for b in r['bases'])
    ck.verdict(ok, rule, _R(r), 'ordered-map-base', None, 'derives from std::map (sorted by key)' if ok else
               'the attribute-set type no longer derives from the sorted std::map: iteration order, hence hash and equality, depend on insertion order')
    f = prog.function('sdk::common::GetHashForAttributeMap')
    loops = loops_over(f, lambda ap: ap == ('param:' + f.params[0]['name'],))
    ok = len(loops) >= 1
    if ok:
        body = [f.nodes[i] for i in f.subtree(loops[0]['body'])]
        mem = {n['name'] for n in body if n['k'] == 'member' and n['name'] in ('first', 'second')}
        early = [n for n in body if n['k'] in ('break', 'return', 'continue')]
        ok = mem == {'first', 'second'} and not early
    if not ok:
        # the same fold written as std::accumulate / std::for_each over [map.begin(), map.end()) with the body in a lambda
        for n in f.nodes:
            if n['k'] == 'call' and strip_targs(n.get('c', '')) in ('std::accumulate', 'std::for_each') and len(n.get('args', [])) >= 3:
                ends = [(strip_targs(f.nodes[k].get('c', '')).rsplit('::', 1)[-1], strip_casts(f, f.nodes[k]['obj']).get('id') if f.nodes[k].get('obj') is not None else None)
                        for a in n['args'][:2] for k in f.subtree(a) if f.nodes[k]['k'] == 'call' and strip_targs(f.nodes[k].get('c', '')).rsplit('::', 1)[-1] in ('begin', 'end', 'cbegin', 'cend')]
                lams = [prog.funcs[f.nodes[k]['fn']] for k in f.subtree(n['args'][-1]) if f.nodes[k]['k'] == 'lambda' and f.nodes[k].get('fn') in prog.funcs]
                if [e[0] for e in ends[:2]] not in (['begin', 'end'], ['cbegin', 'cend']) or any(e[1] != f.params[0]['id'] for e in ends[:2]) or not lams:
                    continue
                lf = lams[0]
                mem = {m['name'] for m in lf.nodes if m['k'] == 'member' and m['name'] in ('first', 'second')}
                branching = [m for m in lf.nodes if m['k'] in ('if', 'cond', 'break', 'continue', 'SwitchStmt') or (m['k'] == 'binop' and m['op'] in ('&&', '||'))]
                rets = [m for m in lf.nodes if m['k'] == 'return']
                if mem == {'first', 'second'} and not branching and len(rets) <= 1:
                    ok = True
                    loops = [n]
    ck.verdict(ok, rule, f, 'hash-folds-key-and-value', loops[0] if loops else None, 'whole map, key and value folded' if ok else
               'the attribute-set hash does not fold every key and every value: different sets collide systematically / equal sets can differ')


def rule_r1_consistency(ck, prog, rule='C08.R1'):
    """hash and equality agree: equality compares the contents; each value hash is std::hash of the value itself (a hash of the
    representation separates values that compare equal, e.g. 0.0 and -0.0)"""
    n_scalar = 0
    for f in sorted(prog.functions('sdk::common::GetHash'), key=lambda x: x.key):
        if len(f.params) != 2:
            continue
        pt = f.params[1]['t']
        if 'std::vector<' in pt:
            # element-wise: a loop over the whole vector, each element through GetHash
            loops = [n for n in f.nodes if n['k'] == 'forrange' and strip_casts(f, n['range']).get('id') == f.params[1]['id']]
            ok = len(loops) == 1 and not [f.nodes[i] for i in f.subtree(loops[0]['body']) if f.nodes[i]['k'] in ('break', 'return', 'continue', 'if')] and \
                any(f.nodes[i]['k'] == 'call' and strip_targs(f.nodes[i].get('c', '')).endswith('common::GetHash') for i in f.subtree(loops[0]['body']))
            ck.verdict(ok, rule, f, 'value-hash(%s)' % pt.split('std::vector<', 1)[1].split('>')[0][:20] + '[]', loops[0] if loops else None,
                       'every element folded through GetHash' if ok else 'the array hash does not fold every element')
            continue
        n_scalar += 1
        site = 'value-hash(%s)' % pt.replace('const', '').replace('&', '').replace(' ', '').rsplit('::', 1)[-1][:24]
        hs = [n for n in f.nodes if n['k'] == 'call' and strip_targs(n.get('c', '')).startswith('std::hash') and n.get('op') == '()']
        if len(hs) != 1:
            ck.inconclusive(rule, f, site, None, 'shape of the value hash not recognised (%d std::hash applications)' % len(hs))
            continue
        h = hs[0]
        a = strip_casts(f, h['args'][0])
        hops = 0
        while a['k'] == 'construct' and 'basic_string' in a.get('c', '') and hops < 3 and \
                len([x for k, x in enumerate(a.get('args', [])) if k not in a.get('defargs', [])]) == 1:
            a = strip_casts(f, a['args'][0])
            hops += 1
        ok = a['k'] == 'ref' and a.get('id') == f.params[1]['id']
        why = 'std::hash is applied to something other than the value itself (a copy of its representation?): values that compare equal, e.g. 0.0 and -0.0, can hash differently and become two series'
        if ok:
            ht = h.get('ck') or ''
            base = pt.replace('const', '').replace('&', '').replace(' ', '')
            want = {'char*': 'basic_string'}.get(base, base)
            ht = ht.replace(' ', '')
            ok = ('hash<' + want) in ht.replace('const ', '') or (want == 'basic_string' and 'basic_string' in ht) or ('std::basic_string' in want and 'basic_string' in ht)
            why = 'the value is hashed through std::hash of another type (%s for %s): the conversion can merge or separate values differently from equality' % (ht[:40], base)
        ck.verdict(ok, rule, f, site, h, 'std::hash<T> of the value itself' if ok else why)
    if n_scalar < 8:
        raise AnalysisBroken('only %d scalar GetHash instantiations found' % n_scalar)
    # equality of the series key compares the contents
    r = prog.record('sdk::metrics::FilteredOrderedAttributeMap')
    eqs = [prog.funcs[m['key']] for m in r['methods'] if m.get('name') == 'operator==' and m['key'] in prog.funcs]
    if not eqs:
        raise AnalysisBroken('FilteredOrderedAttributeMap::operator== not found')
    f = eqs[0]
    rets = [n for n in f.nodes if n['k'] == 'return']
    ok = len(rets) == 1
    if ok:
        conj = []
        stack = [rets[0]['e']]
        top_or = False
        while stack:
            x = strip_casts(f, stack.pop())
            if x['k'] == 'binop' and x['op'] == '&&':
                stack += [x['lhs'], x['rhs']]
            elif x['k'] == 'binop' and x['op'] == '||':
                top_or = True
            else:
                conj.append(x)
        content = [x for x in conj if x['k'] == 'call' and strip_targs(x.get('c', '')).endswith('operator==') and
                   any('std::map<' in (f.nodes[a].get('t') or '') or 'OrderedAttributeMap' in (f.nodes[a].get('t') or '') for a in x.get('args', []))]
        ok = bool(content) and not top_or
    ck.verdict(ok, rule, f, 'equality-compares-contents', rets[0] if rets else None, 'equality requires the sorted maps to be equal element-wise' if ok else
               'equality of two attribute sets does not require their contents to be equal (hash / size only): the value hash ignores the alternative\'s type, so {k:true} and {k:1} collapse into one series')


def rule_r2(ck, prog, rule='C08.R2', cls='sdk::metrics::FilteredOrderedAttributeMap'):
    r = prog.record(cls)
    sentinel = any(fd['name'] == 'hash_' and fd.get('hasinit') for fd in r['fields'])
    cnt = 0
    for m in r['methods']:
        if m.get('kind') != 'ctor' or m.get('copyctor') or m.get('movector'):
            continue
        cnt += 1
        site = 'ctor(%s)' % ','.join(p.rsplit('::', 1)[-1][:24] for p in m.get('params', []))
        f = prog.funcs.get(m['key'])
        if f is None:
            if m.get('defaulted'):
                ck.violation(rule, _R(r), site, None,
                             'this constructor is defaulted: the cached hash keeps its sentinel initialiser instead of the hash of the (empty) set, so an empty set built this way is unequal to every other empty set')
            else:
                ck.inconclusive(rule, _R(r), site, None, 'constructor body not in the analysed units')
            continue
        g = Graph(prog, f, inline=None, sync_lambdas=True)
        ups = g.calls(cls + '::UpdateHash')
        deleg = [p for p in g.points if p.n is not None and p.n['k'] == 'construct' and qmatch(p.n.get('c', ''), cls + '::FilteredOrderedAttributeMap')
                 and p.ctx is g.root_ctx]
        if deleg and any(p.el is not None and p.el.get('delegating') for p in g.points):
            ck.holds(rule, f, site, None, 'delegates to a constructor that updates the hash')
            continue
        ok = bool(ups) and g.exit.id not in g.reachable_from(g.entry, avoid=ups)
        # no mutation after the last update
        late = False
        for u in ups:
            r2 = g.reachable_from([q for (q, _l) in u.succ])
            for p in g.points:
                if p.id in r2 and p.n is not None and p.n['k'] == 'call' and strip_targs(p.n.get('c', '')).rsplit('::', 1)[-1] in ('SetAttribute', 'operator[]', 'insert', 'erase', 'emplace', 'clear'):
                    late = True
        ck.verdict(ok and not late, rule, f, site, ups[0].n if ups else None, 'UpdateHash() on every path, after the last insertion' if ok and not late else
                   'a path through this constructor ends without UpdateHash() after the last insertion: the cached hash is stale and the set lands in the wrong series')
    # mutations outside the class
    for f in prog.funcs.values():
        if f.cls == r['qn'] or f.qn.startswith('canary::') or '/test/' in f.file:
            continue
        muts = []
        for n in f.nodes:
            if n['k'] == 'call' and n.get('obj') is not None and strip_targs(n.get('c', '')).rsplit('::', 1)[-1] in ('SetAttribute', 'insert', 'erase', 'emplace', 'clear') \
                    and (f.nodes[n['obj']].get('t') or '').replace('const ', '') == r['qn'] and f.nodes[n['obj']]['k'] == 'ref':
                muts.append(n)
        if not muts:
            continue
        # the function whose local is mutated (a lambda mutates a captured local of its parent)
        host = f
        while host.d.get('lambda') and host.d.get('parent') in prog.funcs:
            host = prog.funcs[host.d['parent']]
        cnt += 1
        g = Graph(prog, host, inline=None, sync_lambdas=True)
        ups = g.calls(cls + '::UpdateHash')
        mp = [p for p in g.points if p.n is not None and any(p.n is m for m in muts)]
        ok = bool(ups) and all(g.must_reach(p, ups) for p in mp)
        ck.verdict(ok, rule, host, 'mutation-then-update', muts[0], 'every mutation is followed by UpdateHash()' if ok else
                   '%s mutates a FilteredOrderedAttributeMap and a path returns without UpdateHash(): stale hash' % short(host))
    return cnt


def rule_r3(ck, prog, rule='C08.R3', classes=('sdk::metrics::SyncMetricStorage', 'sdk::metrics::TemporalMetricStorage', 'sdk::metrics::AsyncMetricStorage')):
    cnt = 0
    for cls in classes:
        r = prog.record(cls)
        def _has_limit(rec):
            if any('limit' in fd['name'] for fd in rec['fields']):
                return True
            return any('limit' in p['name'] for x in prog.funcs.values() if x.cls == rec['qn'] and x.kind == 'ctor' for p in x.params)
        has_limit = _has_limit(r)
        # a class embedded in a storage that has a configured limit must receive it
        owners = [o for o in prog.records.values() if any(fd['t'].replace('const ', '') == r['qn'] for fd in o['fields'])]
        owner_limit = [o for o in owners if _has_limit(o)]
        for f in sorted([x for x in prog.funcs.values() if x.cls == r['qn'] or (x.d.get('lambda') and x.d.get('parent', '').startswith(r['qn'] + '::'))], key=lambda x: x.line):
            for n in f.nodes:
                if n['k'] == 'construct' and qmatch(n.get('c', ''), 'AttributesHashMapWithCustomHash::AttributesHashMapWithCustomHash') and not n.get('copymove'):
                    cnt += 1
                    site = 'hashmap-in:%s' % (f.name if not f.d.get('lambda') else 'lambda')
                    if n.get('defargs'):
                        if has_limit or any(p['name'] == 'attributes_limit' for p in f.params):
                            ck.violation(rule, f, site, n,
                                         '%s creates an AttributesHashMap with the default cardinality limit although the storage has a configured one: the configured limit is lost for this table' % short(f))
                        elif owner_limit:
                            ck.violation(rule, f, site + ':unconfigured', n,
                                         '%s creates an AttributesHashMap with the default cardinality limit although it serves %s, which has a configured limit that never reaches this table: merged tables can hold more series than configured' %
                                         (short(f), strip_targs(owner_limit[0]['qn']).rsplit('::', 1)[-1]))
                        else:
                            ck.holds(rule, f, site, n, 'no configurable limit exists for this storage: the default applies consistently')
                    else:
                        lv = leaves(f, n['args'][0])
                        ok = any((l[0] == 'param' and 'limit' in l[1]) or (l[0] == 'field' and 'limit' in l[1]) for l in lv)
                        ck.verdict(ok, rule, f, site, n, 'limit argument depends on the configured limit' if ok else 'the limit argument does not depend on the configured limit')
    return cnt


def _overflow_guards(prog, cls):
    """the overflow predicate of the table, found by what it does: a parameterless bool member whose result relates the number of
    stored series to the configured limit"""
    rec = prog.record(cls)
    limit = [fd['name'] for fd in rec['fields'] if fd['t'].replace('const ', '') in ('size_t', 'unsigned long', 'std::size_t')]
    out = []
    for f in sorted([x for x in prog.funcs.values() if x.cls == rec['qn'] and not x.params and x.blocks], key=lambda x: x.key):
        if (f.d.get('ret') or '').replace('const ', '') != 'bool':
            continue
        g = Graph(prog, f, inline=None, sync_lambdas=False)
        rets = g.returns()
        if len(rets) != 1 or rets[0].n.get('e') is None:
            continue
        rd = reaching_defs(g)
        rel = relation(g, rd, f, rets[0].n['e'], g.root_ctx, True)
        if not rel or not rel[1]:
            continue
        terms = {t for (t, c) in rel[1]}
        if any(t.endswith('.size()') for t in terms) and any(t == 'this.' + l for t in terms for l in limit):
            out.append((f, g, rets[0], rel))
    return out


def rule_r4(ck, prog, rule='C08.R4', cls='sdk::metrics::AttributesHashMapWithCustomHash'):
    guards = _overflow_guards(prog, cls)
    if not guards:
        raise AnalysisBroken('%s: no overflow predicate (bool member relating the table size to the limit) found' % cls)
    guard_keys = {gd[0].key for gd in guards}
    for (f, g, ret, rel) in guards:
        limit = [t for (t, c) in rel[1] if t.startswith('this.') and not t.endswith('()')]
        want = ('>=0', frozenset({('this.hash_map_.size()', 1), ('1', 1), (limit[0] if limit else '?', -1)}))
        ck.verdict(rel == want, rule, f, 'overflow-guard', ret.n,
                   'overflow <=> ' + rel_str(rel) if rel == want else 'overflow guard is %s, expected size+1 >= limit (one slot is reserved for the overflow series)' % rel_str(rel))
    cnt = 0
    for gf in sorted(prog.functions(cls + '::GetOrSetDefault'), key=lambda x: x.line):
        cnt += 1
        # (an overload may delegate to a sibling overload: overloads of the same name are inlined)
        g = Graph(prog, gf, inline=lambda caller, call, callee, depth, _gf=gf: callee.cls == _gf.cls and callee.name == _gf.name, sync_lambdas=False, max_depth=2)
        rd = reaching_defs(g)
        site = 'GetOrSetDefault@%d' % gf.line if False else 'GetOrSetDefault(%s)' % gf.params[0]['t'].rsplit('::', 1)[-1][:28]
        finds = g.calls('std::unordered_map::find')
        ofl = [p for p in g.points if p.n is not None and p.n['k'] == 'call' and p.n.get('ck') in guard_keys]
        ins = [p for p in g.points if p.n is not None and p.n['k'] == 'call' and p.n.get('obj') is not None and
               access_path(p.f, p.n['obj'], p.ctx) == ('this', 'hash_map_') and
               strip_targs(p.n.get('c', '')).rsplit('::', 1)[-1] in ('emplace', 'operator[]', 'insert', 'try_emplace', 'insert_or_assign')]

        def miss_edge(a, b, lab):
            if not lab or not isinstance(lab[0], int):
                return False
            core, pol = norm_cond(lab[1], lab[0])
            cn = lab[1].nodes[core]
            if cn['k'] == 'call' and cn.get('op') in ('==', '!='):
                ops = ([cn['obj']] if cn.get('obj') is not None else []) + cn.get('args', [])
                names = set()
                for o in ops:
                    for (sf, sn, sc) in origins(g, rd, lab[1], o, a.ctx):
                        names.add(strip_targs(sn.get('c', '')).rsplit('::', 1)[-1] if sn['k'] == 'call' else sn['k'])
                if 'find' in names and 'end' in names:
                    truth = lab[2] if pol else (not lab[2])
                    return truth is (cn['op'] == '==')
            return False
        ok = bool(finds) and bool(ofl) and bool(ins)
        why = 'lookup / overflow test / insertion not all present'
        if ok:
            ok = all(g.must_pass_edge(p, miss_edge) for p in ofl)
            why = 'the overflow test runs before (or without) the lookup miss: once the table is full, measurements for series that already exist are folded into the overflow series'
            if ok:
                def not_overflow(a, b, lab):
                    if not lab or not isinstance(lab[0], int):
                        return False
                    core, pol = norm_cond(lab[1], lab[0])
                    cn = lab[1].nodes[core]
                    if cn['k'] == 'call' and cn.get('ck') in guard_keys:
                        return (lab[2] if pol else not lab[2]) is False
                    return False
                ok = all(g.must_pass_edge(p, not_overflow) for p in ins)
                why = 'an insertion of a new series is not behind the not-overflow edge: the table can grow past its limit'
        ck.verdict(ok, rule, gf, site, (ofl or finds or [None])[0].n if (ofl or finds) else None,
                   'lookup miss -> overflow test -> insertion' if ok else why)
    # the overflow series itself: wherever a member inserts under the overflow key with a call that keeps an existing entry, or
    # creates it, the key has been looked up first (otherwise earlier overflow contributions are replaced / a second one is made)
    rec = prog.record(cls)
    n_ofl = 0
    for of in sorted([x for x in prog.funcs.values() if x.cls == rec['qn'] and x.blocks], key=lambda x: x.key):
        def keyed(n):
            return n.get('args') and any(of.nodes[j]['k'] == 'ref' and of.nodes[j].get('name') == 'kOverflowAttributes' for j in of.subtree(n['args'][0]))
        ins_nodes = [n for n in of.nodes if n['k'] == 'call' and strip_targs(n.get('c', '')).rsplit('::', 1)[-1] in NON_OVERWRITING and
                     'unordered_map' in strip_targs(n.get('c', '')) and keyed(n)]
        if not ins_nodes:
            continue
        n_ofl += 1
        g = Graph(prog, of, inline=None, sync_lambdas=False)
        finds = [p for p in g.points if p.n is not None and p.n['k'] == 'call' and 'unordered_map' in strip_targs(p.n.get('c', '')) and
                 strip_targs(p.n.get('c', '')).rsplit('::', 1)[-1] in ('find', 'count', 'contains') and keyed(p.n)]
        ins = [g.point_of[(id(g.root_ctx), n['i'])] for n in ins_nodes if (id(g.root_ctx), n['i']) in g.point_of]
        ok = bool(finds) and bool(ins) and all(g.must_pass(p, finds) for p in ins)
        ck.verdict(ok, rule, of, 'overflow-series-lookup-then-insert', ins_nodes[0], 'overflow key looked up before it is inserted' if ok else
                   'the overflow series is inserted without looking it up first (or not under the overflow key): earlier overflow contributions are replaced')
    if not n_ofl:
        raise AnalysisBroken('%s: no member inserts the overflow series' % cls)
    return cnt


def rule_r5(ck, prog, rule='C08.R5', cls='sdk::metrics::AttributesHashMapWithCustomHash'):
    cnt = 0
    replacing = False
    for sf in sorted(prog.functions(cls + '::Set'), key=lambda x: x.line):
        if len(sf.params) != 2:
            continue
        g = Graph(prog, sf, inline=None, sync_lambdas=False)
        for p in g.points:
            n = p.n
            if n is None or n['k'] != 'call' or n.get('op') != '=':
                continue
            on = sf.nodes[n['obj']]
            if on['k'] == 'call' and on.get('op') == '[]' and on.get('args') and strip_casts(sf, on['args'][0]).get('name') == 'kOverflowAttributes':
                cnt += 1
                lv = leaves(sf, n['args'][0]) if n.get('args') else set()
                merges = any(l[0] == 'call' and l[1].rsplit('::', 1)[-1] in ('Merge',) for l in lv)
                site = 'overflow-store(%s)' % sf.params[0]['t'].rsplit('::', 1)[-1].replace(' ', '')[:32]
                if merges:
                    ck.holds(rule, sf, site, n, 'merged with the stored overflow value')
                else:
                    replacing = True
                    ck.violation(rule, sf, site, n,
                                 'Set stores the new aggregation over the shared overflow key without merging it with what is already stored there: earlier overflow contributions are lost')
    # exposure: while Set replaces the overflow value, a table created with a *configured* limit must not be filled through
    # Set — copying the L entries of a full delta table into a table of limit L makes the L-th Set overwrite the real overflow
    # series. (Tables with the default limit reach that state only at 2000 series: that is the recorded finding itself.)
    if replacing:
        n_sites = 0
        for f in sorted(prog.funcs.values(), key=lambda x: x.key):
            if not (f.cls or '').startswith('opentelemetry::sdk::metrics::') and not f.d.get('lambda') and not f.qn.startswith('canary::c08'):
                continue
            limited = {}
            for n in f.nodes:
                if n['k'] == 'declstmt':
                    for d in n['decls']:
                        if d.get('init') is not None and d['init'] >= 0:
                            for j in f.subtree(d['init']):
                                m = f.nodes[j]
                                if m['k'] == 'construct' and qmatch(m.get('c', ''), 'AttributesHashMapWithCustomHash::AttributesHashMapWithCustomHash') and \
                                        not m.get('copymove') and m.get('args') and not m.get('defargs') and 'limit' in ' '.join(str(l[1]) for l in leaves(f, m['args'][0])):
                                    limited[d['id']] = d['name']
            if not limited:
                continue
            users = [f] + [x for x in prog.funcs.values() if x.d.get('lambda') and x.d.get('parent') == f.key]
            for u in users:
                for n in u.nodes:
                    if n['k'] == 'call' and qmatch(n.get('c', ''), cls + '::Set') and n.get('obj') is not None:
                        ids = {u.nodes[j].get('id') for j in u.subtree(n['obj']) if u.nodes[j]['k'] == 'ref'}
                        hit = ids & set(limited)
                        if hit:
                            n_sites += 1
                            ck.violation(rule, f, 'replacing-Set-on-configured-limit-table:%s' % limited[sorted(hit)[0]], n,
                                         '%s is created with the configured cardinality limit and filled through Set, which replaces the overflow value: merging a full '
                                         'delta table (limit entries) into it overwrites the overflow series with a regular one and the total is lost for cumulative / multi-reader collection' % limited[sorted(hit)[0]])
        if not ck._canary and not n_sites:
            ck.holds(rule, prog.functions(cls + '::Set')[0], 'no-configured-limit-table-filled-through-Set', None,
                     'tables created with a configured limit are only filled through GetOrSetDefault + Aggregate/Merge')
    return cnt


def rule_r6(ck, prog, rule='C08.R6', cls='sdk::metrics::FilteredOrderedAttributeMap'):
    r = prog.record(cls)
    cnt = 0
    for f in [x for x in prog.funcs.values() if x.cls == r['qn'] and x.kind == 'ctor' and any(p['name'] == 'processor' for p in x.params)]:
        g = Graph(prog, f, inline=same_class_inline(prog, r['qn']), sync_lambdas=True)
        sets = g.calls('OrderedAttributeMap::SetAttribute')
        cnt += 1
        site = 'filter-gates-insert(%s)' % f.params[0]['t'].rsplit('::', 1)[-1][:24]
        if not sets:
            ck.violation(rule, f, site, None, 'the filtering constructor never inserts')
            continue

        # decision table: pin "the processor is non-null" and "isPresent(key) returned ..." in the constructor, its callbacks and the
        # helpers it calls; an insertion must be unreachable exactly when there is a processor and it rejected the key
        def pins_for(nonnull, present):
            pins = {}
            for c in g.ctxs:
                for n in c.f.nodes:
                    if n['k'] == 'call' and strip_targs(n.get('c', '')).endswith('AttributesProcessor::isPresent'):
                        pins[(id(c.f), n['i'])] = present
                    elif n['k'] == 'ref' and 'AttributesProcessor' in (n.get('t') or '') and (n.get('t') or '').rstrip().endswith('*'):
                        pins[(id(c.f), n['i'])] = nonnull
            return pins
        table = {}
        for nonnull in (True, False):
            for present in (True, False):
                table[(nonnull, present)] = feasible_reach(g, [g.entry], sets, pins=pins_for(nonnull, present)) is not None
        ok = (not table[(True, False)]) and table[(True, True)]
        ck.verdict(ok, rule, f, site, sets[0].n, 'insertion behind "no processor or key allowed" (decision table over processor!=null / isPresent: %s)' %
                   ', '.join('%s/%s:%s' % ('proc' if a else 'null', 'present' if b else 'absent', 'insert' if v else 'skip') for (a, b), v in sorted(table.items())) if ok else
                   ('an attribute can be inserted although there is a processor and it rejected the key' if table[(True, False)] else
                    'no attribute is inserted even when the processor allows its key'))
    # key lookups of the filter use the full view
    for f in prog.functions('sdk::metrics::FilteringAttributesProcessor::isPresent') + prog.functions('sdk::metrics::FilteringAttributesProcessor::process'):
        hosts = [f] + [x for x in prog.funcs.values() if x.d.get('lambda') and x.d.get('parent') == f.key]
        for h in hosts:
            for n in h.nodes:
                if n['k'] == 'call' and strip_targs(n.get('c', '')).rsplit('::', 1)[-1] in ('find', 'count', 'contains', 'equal_range') and n.get('args') and \
                        n.get('obj') is not None and access_path(h, n['obj'])[:1] == ('this',):
                    cnt += 1
                    sub = [h.nodes[i] for i in subtree_through_locals(h, n['args'][0])]
                    data_calls = [x for x in sub if x['k'] == 'call' and strip_targs(x.get('c', '')).endswith('string_view::data')]
                    sized = [x for x in sub if x['k'] == 'call' and strip_targs(x.get('c', '')).endswith(('string_view::size', 'string_view::length'))]
                    conv = [x for x in sub if x['k'] in ('call', 'construct') and 'basic_string' in strip_targs(x.get('c', ''))]
                    ok = not data_calls or bool(sized)
                    ck.verdict(ok, rule, h, 'filter-key-full-view', n, 'key looked up by its full view' if ok else
                               'the filter looks the key up through string_view::data() only (strlen-terminated): a key view that is not NUL-terminated is filtered with the wrong bytes')
    # the filter allows a key exactly when the allow-list contains it: decision table over the outcome of the lookup
    from ..symb import returns_under_pins, T as _T, F as _F
    for f in prog.functions('sdk::metrics::FilteringAttributesProcessor::isPresent'):
        g = Graph(prog, f, inline=None, sync_lambdas=False)
        looks = [n for n in f.nodes if comparison(f, n['i']) and any(f.nodes[i]['k'] == 'call' and strip_targs(f.nodes[i].get('c', '')).rsplit('::', 1)[-1] in ('find', 'count', 'contains')
                                                                   and f.nodes[i].get('obj') is not None and access_path(f, f.nodes[i]['obj'])[:1] == ('this',) for i in f.subtree(n['i']))]
        looks += [n for n in f.nodes if n['k'] == 'call' and strip_targs(n.get('c', '')).rsplit('::', 1)[-1] in ('count', 'contains') and n.get('obj') is not None and
                  access_path(f, n['obj'])[:1] == ('this',) and not any(n['i'] in f.subtree(l['i']) for l in looks)]
        cnt += 1
        if not looks:
            ck.inconclusive(rule, f, 'allowed-iff-in-allow-list', None, 'lookup in the allow-list not recognised')
            continue

        def found_truth(n, found):
            c = comparison(f, n['i'])
            if not c:
                return found          # count() / contains() used as a truth value
            op, a, b = c
            zero = any(strip_casts(f, x).get('v') == 0 for x in (a, b))
            if op in ('>', '>=', '<', '<=') and zero:
                # count(k) > 0, 0 < count(k), count(k) >= 1 ...
                lhs_is_lookup = strip_casts(f, b).get('v') == 0
                return found if ((op in ('>',) and lhs_is_lookup) or (op in ('<',) and not lhs_is_lookup)) else (not found)
            return found if op == '!=' else (not found if op == '==' else found)
        res = {}
        for found in (True, False):
            res[found] = returns_under_pins(g, {n['i']: found_truth(n, found) for n in looks})
        ok = res[True] == {_T} and res[False] == {_F}
        ck.verdict(ok, rule, f, 'allowed-iff-in-allow-list', looks[0],
                   'isPresent is true exactly when the key is found in the allow-list' if ok else
                   'FilteringAttributesProcessor::isPresent answers %s for a key that is %s the allow-list: the filter lets keys through (or drops keys) that the view did not configure - e.g. an empty allow-list must remove every attribute' %
                   (('true' if _T in res[False] else 'false'), 'not in' if _T in res[False] else 'in'))
    return cnt


def rule_r6_processor_reaches_key(ck, prog, rule='C08.R6', cls='sdk::metrics::SyncMetricStorage'):
    """every series key a storage with an attributes processor builds from caller attributes goes through that processor: each
    GetOrSetDefault(KeyValueIterable, processor, ...) and each FilteredOrderedAttributeMap built from a KeyValueIterable gets
    this->attributes_processor_ (a key built without it keeps the keys the view filters out: two series instead of one)"""
    r = prog.record(cls)
    procs = [fd['name'] for fd in r['fields'] if 'AttributesProcessor' in fd['t']]
    if not procs:
        raise AnalysisBroken('%s has no attributes processor member' % cls)
    cnt = 0
    for f in sorted([x for x in prog.funcs.values() if x.cls == r['qn'] and not x.d.get('lambda')], key=lambda x: x.key):
        kv_params = [p for p in f.params if 'KeyValueIterable' in p['t']]
        if not kv_params:
            continue
        for n in f.nodes:
            uses_kv = lambda idx: any(f.nodes[j]['k'] == 'ref' and f.nodes[j].get('id') == kv_params[0]['id'] for j in f.subtree(idx))
            is_lookup = n['k'] == 'call' and qmatch(n.get('c', ''), 'AttributesHashMapWithCustomHash::GetOrSetDefault') and n.get('args') and uses_kv(n['args'][0])
            is_key = n['k'] == 'construct' and qmatch(n.get('c', ''), 'FilteredOrderedAttributeMap::FilteredOrderedAttributeMap') and n.get('args') and \
                not n.get('copymove') and uses_kv(n['args'][0])
            if not (is_lookup or is_key):
                continue
            cnt += 1
            passed = any(access_path(f, a) == ('this', procs[0]) for a in n.get('args', [])[1:] if a is not None and a >= 0)
            site = 'processor-reaches-key@%s(%s)' % (f.name, ','.join(p['t'].rsplit('::', 1)[-1][:18] for p in f.params))
            ck.verdict(passed, rule, f, site, n, 'the series key is built through %s' % procs[0] if passed else
                       '%s builds the series key from the caller\'s attributes without %s: attribute keys the view filters out stay in the key, so one filtered series splits into several (the sibling overloads apply the filter)' % (f.name, procs[0]))
    if cnt < 2:
        raise AnalysisBroken('%s: fewer than 2 attribute-keyed lookups found' % cls)
    return cnt


def rule_r7_bulk(ck, prog, rule='C08.R7', classes=('sdk::common::AttributeMap', 'sdk::common::OrderedAttributeMap')):
    """who-may-write: besides the setters, no member (constructors and their copy callbacks included) stores into the attribute map
    with a non-overwriting call - a bulk path using emplace/insert makes duplicate keys of one attribute list first-write-wins"""
    cnt = 0
    for cls in classes:
        rec = prog.record(cls)
        hosts = [f for f in prog.funcs.values() if f.cls == rec['qn'] or (f.d.get('lambda') and (f.d.get('parent') or '').startswith(rec['qn'] + '::'))]
        bad = None
        for f in hosts:
            for n in f.nodes:
                if n['k'] == 'call' and strip_targs(n.get('c', '')).rsplit('::', 1)[-1] in NON_OVERWRITING and 'map' in strip_targs(n.get('c', '')) and \
                        (n.get('obj') is None or access_path(f, n['obj'])[:1] == ('this',) or f.nodes[n['obj']]['k'] in ('this', 'cast')):
                    if _overwrites_when_present(prog, f, n) or _insert_only_when_absent(prog, f, n):
                        continue      # present -> overwritten, absent -> inserted: last write wins all the same
                    bad = (f, n)
        cnt += 1
        site = 'no-first-write-wins-store:%s' % cls.rsplit('::', 1)[-1]
        if bad:
            ck.violation(rule, bad[0], site, bad[1], '%s stores into the attribute map with %s, which keeps an existing entry: a key given twice in one attribute list (event, link, resource) resolves first-wins' %
                         (short(bad[0]), strip_targs(bad[1]['c']).rsplit('::', 1)[-1]))
        else:
            class _F:
                qn = rec['qn']
                def loc(self, n=None):
                    return '%s:%d' % (rec['file'].replace('/repo/', ''), rec['line'])
            ck.holds(rule, _F(), site, None, 'every store of the class goes through an overwriting call')
    return cnt



def _insert_only_when_absent(prog, f, store):
    """a non-overwriting store that is taken only when a lookup (find / lower_bound + key comparison) missed, the hit branch
    assigning the found element's value: present -> overwritten, absent -> inserted, so the last write wins"""
    g = Graph(prog, f, inline=None, sync_lambdas=False)
    sp = g.point_of.get((id(g.root_ctx), store['i']))
    if sp is None:
        return False
    its = {}
    for m in f.nodes:
        if m['k'] == 'declstmt':
            for d in m['decls']:
                if d.get('init') is not None and d['init'] >= 0:
                    c_ = strip_casts(f, d['init'])
                    for _ in range(3):
                        if c_['k'] == 'construct' and len(c_.get('args', [])) == 1:
                            c_ = strip_casts(f, c_['args'][0])
                    if c_['k'] == 'call' and strip_targs(c_.get('c', '')).rsplit('::', 1)[-1] in ('find', 'lower_bound') and 'map' in strip_targs(c_.get('c', '')):
                        its[d['id']] = strip_targs(c_['c']).rsplit('::', 1)[-1]
    if not its:
        return False

    def via_it(idx, member):
        seen_member = False
        for j in f.subtree(idx):
            m = f.nodes[j]
            if m['k'] == 'member' and m.get('name') == member:
                seen_member = True
            if m['k'] == 'ref' and m.get('id') in its and seen_member:
                return m['id']
        return None
    fixes = []
    for p in g.points:
        n = p.n
        if n is None:
            continue
        lhs = n['lhs'] if (n['k'] == 'binop' and n['op'] == '=') else (n.get('obj') if (n['k'] == 'call' and n.get('op') == '=') else None)
        if lhs is not None and via_it(lhs, 'second') is not None:
            fixes.append((p, via_it(lhs, 'second')))
    if not fixes:
        return False
    fp, it = fixes[0]

    def hit_edge(a, b, lab):
        if not lab or not isinstance(lab[0], int):
            return False
        c = comparison(lab[1], lab[0])
        if not c:
            return False
        if its[it] == 'find':
            names = {strip_targs(lab[1].nodes[k].get('c', '')).rsplit('::', 1)[-1] for k in lab[1].subtree(lab[0]) if lab[1].nodes[k]['k'] == 'call'}
            refs = {lab[1].nodes[k].get('id') for k in lab[1].subtree(lab[0]) if lab[1].nodes[k]['k'] == 'ref'}
            return it in refs and ('end' in names or 'cend' in names) and lab[2] is (c[0] == '!=')
        return c[0] == '==' and lab[2] is True and (via_it(c[1], 'first') == it or via_it(c[2], 'first') == it)
    exclusive = fp.id not in g.reachable_from([q for (q, _l) in sp.succ]) and sp.id not in g.reachable_from([q for (q, _l) in fp.succ])
    # the overwrite is behind the hit edge, the insertion is not reachable over it
    return exclusive and g.must_pass_edge(fp, hit_edge) and sp.id not in g.reachable_from(
        [q for p_ in g.points for (q, lab) in p_.succ if hit_edge(p_, q, lab)])


def _overwrites_when_present(prog, f, store):
    """a non-overwriting store (emplace/insert/try_emplace) whose result is kept, followed - on every path on which the result says
    "not inserted" - by an assignment to the found element (result.first->second = value): last-write-wins all the same"""
    res = [d for m in f.nodes if m['k'] == 'declstmt' for d in m['decls'] if d.get('init') is not None and d['init'] >= 0 and
           store['i'] in ([d['init']] + list(f.subtree(d['init'])))]
    if len(res) != 1:
        return False
    vid = res[0]['id']
    g = Graph(prog, f, inline=None, sync_lambdas=False)
    sp = g.point_of.get((id(g.root_ctx), store['i']))
    if sp is None:
        return False

    def through(idx, names):
        """member names on the way from expression idx down to the result variable"""
        seen = []
        for j in [idx] + list(f.subtree(idx)):
            m = f.nodes[j]
            if m['k'] == 'member':
                seen.append(m['name'])
            if m['k'] == 'ref' and m.get('id') == vid:
                return all(x in seen for x in names)
        return False
    fixes = []
    for p in g.points:
        n = p.n
        if n is None:
            continue
        lhs = n['lhs'] if (n['k'] == 'binop' and n['op'] == '=') else (n.get('obj') if (n['k'] == 'call' and n.get('op') == '=') else None)
        if lhs is not None and through(lhs, ('first', 'second')):
            fixes.append(p)
    if not fixes:
        return False

    def inserted_edge(a, b, lab):
        if not lab or not isinstance(lab[0], int):
            return False
        core, pol = norm_cond(lab[1], lab[0])
        cn = lab[1].nodes[core]
        if cn['k'] == 'member' and cn['name'] == 'second' and through(core, ('second',)) and not through(core, ('first',)):
            return (lab[2] if pol else not lab[2]) is True
        return False
    return g.exit.id not in g.reachable_from([q for (q, _l) in sp.succ], avoid=fixes, avoid_edges=inserted_edge)


def rule_r7(ck, prog, rule='C08.R7', setters=('sdk::common::OrderedAttributeMap::SetAttribute', 'sdk::common::AttributeMap::SetAttribute')):
    cnt = 0
    for s in setters:
        for f in prog.functions(s):
            cnt += 1
            stores = [n for n in f.nodes if n['k'] == 'call' and n.get('obj') is not None and
                      strip_targs(n.get('c', '')).rsplit('::', 1)[-1] in NON_OVERWRITING + ('operator[]', 'insert_or_assign') and
                      ('map' in strip_targs(n.get('c', '')))]
            bad = [n for n in stores if strip_targs(n.get('c', '')).rsplit('::', 1)[-1] in NON_OVERWRITING and not _overwrites_when_present(prog, f, n) and
                   not _insert_only_when_absent(prog, f, n)]
            good = [n for n in stores if n not in bad]
            if bad:
                ck.violation(rule, f, 'last-write-wins-store', bad[0],
                             '%s stores with %s, which keeps an existing entry: a key given twice resolves first-wins instead of last-wins' %
                             (short(f), strip_targs(bad[0]['c']).rsplit('::', 1)[-1]))
            elif good:
                ck.holds(rule, f, 'last-write-wins-store', good[0], 'overwriting store (%s)' % strip_targs(good[0]['c']).rsplit('::', 1)[-1])
            else:
                ck.inconclusive(rule, f, 'last-write-wins-store', None, 'no map store recognised')
    return cnt


def rule_r8_table_access(ck, prog, rule='C08.R8', cls='sdk::metrics::AttributesHashMapWithCustomHash'):
    """the series table answers for the key it is asked about and its walk visits every series:
    (a) GetAllEnteries calls the callback for every entry and leaves the loop early only on the callback's false;
    (b) every GetOrSetDefault returns the aggregation of the entry it looked up / inserted under the given key (or what the
        overflow helper returns), never an entry chosen by position;
    (c) "found" is `find(key) != end()` of the same map."""
    from .common import loop_visits_every_element
    rec = prog.record(cls)
    meths = [x for x in prog.funcs.values() if x.cls == rec['qn'] and x.blocks and not x.d.get('lambda')]
    # (a)
    for f in sorted([x for x in meths if x.name in ('GetAllEnteries', 'GetAllEntries')], key=lambda x: x.key):
        g = Graph(prog, f, inline=None, sync_lambdas=False)
        loops = [n for n in f.nodes if n['k'] in ('forrange', 'for', 'while')]
        cbp = [p_ for p_ in f.params if 'function_ref' in p_['t'] or 'function<' in p_['t']]
        calls = [p for p in g.points if p.n is not None and p.f is f and p.n['k'] == 'call' and cbp and
                 any(f.nodes[j]['k'] == 'ref' and f.nodes[j].get('id') == cbp[0]['id'] for j in ([p.n['obj']] if p.n.get('obj') is not None else []) + ([p.n['fx']] if p.n.get('fx') is not None else []))]
        if len(loops) != 1 or not calls:
            ck.inconclusive(rule, f, 'walk-visits-every-series', None, 'loop over the table / callback invocation not recognised')
            continue

        def cb_false(a, b, lab, _c=calls):
            if not lab or not isinstance(lab[0], int) or lab[1] is not f:
                return False
            core, pol = norm_cond(f, lab[0])
            return any(core == c_.n['i'] for c_ in _c) and (lab[2] if pol else not lab[2]) is False
        why = loop_visits_every_element(g, f, loops[0], calls, allowed_exit=cb_false)
        ck.verdict(why is None, rule, f, 'walk-visits-every-series', loops[0], 'every series is handed to the callback; the walk stops early only when the callback says so' if why is None else
                   'GetAllEnteries: %s - series are missing from every collection' % why)
    # (b)
    for f in sorted([x for x in meths if x.name == 'GetOrSetDefault'], key=lambda x: x.key):
        g = Graph(prog, f, inline=None, sync_lambdas=False)
        rd = reaching_defs(g)
        keys = {p_['id'] for p_ in f.params if 'MetricAttributes' in p_['t'] or 'FilteredOrderedAttributeMap' in p_['t']}
        keys |= {d['id'] for n in f.nodes if n['k'] == 'declstmt' for d in n['decls'] if 'MetricAttributes' in (d.get('t') or '') or 'FilteredOrderedAttributeMap' in (d.get('t') or '')}
        site = 'returns-the-looked-up-series@(%s)' % ','.join(p_['t'].replace('const ', '').split('::')[-1].split('<')[0].strip(' &') for p_ in f.params[:2])
        bad = None
        n_ret = 0
        for r in g.returns():
            if r.n.get('e') is None or r.n['e'] < 0:
                continue
            n_ret += 1
            tbl_calls = []
            for j in list(subtree_through_locals(f, r.n['e'])) + [r.n['e']]:
                m = f.nodes[j]
                if m['k'] == 'call' and m.get('obj') is not None and strip_casts(f, m['obj'])['k'] == 'member' and access_path(f, m['obj']) == ('this', 'hash_map_'):
                    tbl_calls.append(m)
            # (the overflow helper, or a sibling overload of GetOrSetDefault - which is checked itself)
            helper = any(f.nodes[j]['k'] == 'call' and f.nodes[j].get('ck') in prog.funcs and prog.funcs[f.nodes[j]['ck']].cls == f.cls and
                         ('Attributes' in prog.funcs[f.nodes[j]['ck']].name or prog.funcs[f.nodes[j]['ck']].name == f.name)
                         for j in list(subtree_through_locals(f, r.n['e'])) + [r.n['e']])
            if helper and not tbl_calls:
                continue
            if not tbl_calls:
                bad = bad or (r.n, 'a return that does not come from a lookup in the table')
                continue
            for m in tbl_calls:
                nm = strip_targs(m.get('c', '')).rsplit('::', 1)[-1]
                if nm in ('find', 'emplace', 'try_emplace', 'operator[]', 'insert', 'at'):
                    a0 = m['args'][0] if m.get('args') else None
                    refs = {f.nodes[j].get('id') for j in (list(f.subtree(a0)) + [a0] if a0 is not None and a0 >= 0 else []) if f.nodes[j]['k'] == 'ref'}
                    if not (refs & keys):
                        bad = bad or (m, '%s with a key other than the one asked about' % nm)
                elif nm in ('end', 'cend', 'size', 'empty'):
                    continue
                else:
                    bad = bad or (m, 'an entry chosen by %s(), not by the key' % nm)
        if not n_ret:
            continue
        ck.verdict(bad is None, rule, f, site, bad[0] if bad else None, 'every return hands out the entry found / inserted under the given key (or the overflow series)' if bad is None else
                   'GetOrSetDefault returns %s: the measurement is aggregated into another series' % bad[1])
    # (c)
    for f in sorted(meths, key=lambda x: x.key):
        cnt = 0
        for n in f.nodes:
            c = comparison(f, n['i'])
            if not c or c[0] not in ('==', '!='):
                continue
            sides = [strip_casts(f, c[1]), strip_casts(f, c[2])]
            def is_find(x):
                x = once_init_(f, x)
                return x['k'] == 'call' and strip_targs(x.get('c', '')).rsplit('::', 1)[-1] == 'find' and x.get('obj') is not None and access_path(f, x['obj'])[:2] == ('this', 'hash_map_')
            fs_ = [x for x in sides if is_find(x)]
            if not fs_:
                continue
            other = [x for x in sides if not is_find(x)]
            cnt += 1
            ok = bool(other) and other[0]['k'] == 'call' and strip_targs(other[0].get('c', '')).rsplit('::', 1)[-1] in ('end', 'cend') and \
                other[0].get('obj') is not None and access_path(f, other[0]['obj'])[:2] == ('this', 'hash_map_')
            ck.verdict(ok, rule, f, 'found-iff-not-end@%s(%d params):%d' % (f.name, len(f.params), cnt), n, 'lookup result compared with end() of the table' if ok else
                       '%s compares the result of find() with something other than end() of the table: present series are reported missing (a second series is created for the same attributes) or the reverse' % f.name)


def once_init_(f, x):
    from .common import once_init
    if x['k'] == 'ref' and x.get('sk') == 'local':
        return once_init(f, x['i'])
    return x


def run(ck, prog):
    ck.doc('C08.R1', 'series key type is a sorted map; its hash folds every key and value; value hashes are std::hash of the value; equality compares contents', 19)
    ck.doc('C08.R2', 'hash typestate: every constructor / mutation of FilteredOrderedAttributeMap ends in UpdateHash()', 5)
    ck.doc('C08.R3', 'the configured cardinality limit reaches every AttributesHashMap a storage creates', 3)
    ck.doc('C08.R4', 'overflow guard arithmetic; lookup miss -> overflow test -> insertion in every GetOrSetDefault', 5)
    ck.doc('C08.R5', 'a value stored under the shared overflow key is merged, not replaced', 2)
    ck.doc('C08.R6', 'filter gates insertion; filter key lookups use the full view; allowed <=> in the allow-list; the storage\'s processor reaches every key built from caller attributes', 7)
    ck.doc('C08.R8', 'the series table: the walk visits every series; GetOrSetDefault returns the entry of the key asked about; found <=> find() != end()', 6)
    ck.doc('C08.R7', 'attribute setters store last-write-wins; no other member stores with a non-overwriting call', 4)
    with ck.canary('C08.R2'):
        rule_r2(ck, prog, cls='canary::c08::BadKey')
    with ck.canary('C08.R7'):
        rule_r7(ck, prog, setters=('canary::c08::BadMap::SetAttribute',))
    rule_r1(ck, prog)
    rule_r1_consistency(ck, prog)
    rule_r2(ck, prog)
    rule_r3(ck, prog)
    rule_r4(ck, prog)
    rule_r5(ck, prog)
    rule_r6(ck, prog)
    rule_r6_processor_reaches_key(ck, prog)
    rule_r7(ck, prog)
    rule_r7_bulk(ck, prog)
    rule_r8_table_access(ck, prog)
    # "the total over all reported series equals everything recorded, for delta and cumulative readers alike": the reader fan-out of
    # buildMetrics (shared with C06) is a prerequisite - a delta report that bypasses the per-reader stash loses series for the others
    from . import c06
    ck.doc('C06.R3', '(shared rule, see C06) buildMetrics reader fan-out: fast path only for a single reader; no early return before the stash', 5)
    c06.build_metrics_rules(ck, prog, rule4=None)
    return {}
