"""C13 - an exported log record carries what was emitted, correlated with the active span (structural part)."""
from ..ir import AnalysisBroken, strip_targs, qmatch
from ..graph import Graph
from ..expr import access_path, path_str, held_locks, reaching_defs, norm_cond, origins, leaves, defs_in_node
from .common import strip_casts, short, comparison, same_class_inline, loops_over, loop_visits_every_element, gated_by, pointer_pins
from ..symb import feasible_reach
from . import c04, c08

UNITS = ['sdk/src/logs/logger.cc', 'sdk/src/logs/read_write_log_record.cc', 'sdk/src/logs/multi_recordable.cc',
         'sdk/src/logs/multi_log_record_processor.cc', 'sdk/src/logs/simple_log_record_processor.cc',
         'sdk/src/logs/batch_log_record_processor.cc', 'sdk/src/logs/logger_provider.cc']
DRIVERS = ['logs_dispatch.cc']
CANARIES = ['c13_canary.cc']

EXPLANATION = (
    'C13.R1 (type facts): no concrete sdk::logs::Recordable has a field of a borrowing type (string_view, span, const char*, '
    'AttributeValue), the Resource/InstrumentationScope pointers excepted. C13.R2 (decision table/forwarding): in '
    'Logger::CreateLogRecord, on each branch that found an active span (or span context) and behind nothing but its non-null '
    'test, SetTraceId/SetSpanId/SetTraceFlags are all reached on every path and fed from the matching getters; no identity '
    'setter is reachable otherwise. In the API template the argument setters run after CreateLogRecord and before '
    'EmitLogRecord(record), and they are sequenced left to right (operands of comma operators, never sibling arguments of one '
    'call, whose order g++ evaluates right to left). C13.R3 (dominance): in Logger::EmitLogRecord the enabled gate and the null '
    'gate dominate everything; resource and scope are set before OnEmit; exactly one OnEmit per path. C13.R4 (fan-out): the '
    'logs MultiRecordable forwards every virtual to every child; MultiLogRecordProcessor::OnEmit/MakeRecordable visit every '
    'processor without early exit. C13.R5 (dispatch table from the instantiations): each documented argument type selects the '
    'documented setter. C13.R6 (last-write-wins): ReadWriteLogRecord::SetAttribute stores with an overwriting form.')
EXPLANATION += " C13.R6: every ReadWriteLogRecord setter stores each parameter on every path. C13.R7: no path through SimpleLogRecordProcessor::OnEmit avoids the exporter's Export. C13.R1 (exposure of finding D9): while the SDK record keeps non-owning attribute values, the API container setter iterates the caller's container by reference."
EXPLANATION += ' C13.R8 (callback contract): the attribute copy callbacks the log record and its API setter hand to ForEachKeyValue never ask the iteration to stop. C13.R2 and C13.R4 are evaluated on the flow graph with private / file-local helpers inlined (fan-out loops in range-for, index or iterator form).'
ROUND2_EXPLANATION = (' C13.R9: an identity setter (re)creates the shared trace-identity block only when it is null (pinned). Shared C19.R7: every named constructor parameter of LoggerProvider / LoggerContext is used.')
ROUND2_EXPLANATION += (" C13.R10: a string view built from a nullable name pointer (EventId::name_) is guarded by a null test of that pointer (D21, fixed). C13.R11: the API template overloads that receive a null record from CreateLogRecord return without dereferencing it. Shared C01.R5: every constructor of the batch log processor creates its queue with the configured max_queue_size.")
ROUND2_EXPLANATION += (" C13.R3 also: the argument of SetResource originates from GetResource() of this logger's context and the argument of SetInstrumentationScope from this logger's own scope.")
ROUND2_EXPLANATION += (' C13.R7 also: the view the simple processors hand to Export is span(&record, 1) - it starts at the parameter and has exactly one element.')
EXPLANATION += ROUND2_EXPLANATION
NOT_DECIDED = 'value equality at export; that every argument combination compiles to the documented setter beyond the instantiated ones.'


def rule_r2(ck, prog, rule='C13.R2'):
    f = prog.function('sdk::logs::Logger::CreateLogRecord')
    # (a correlation block moved into a private / file-local helper is inlined)
    g = Graph(prog, f, inline=same_class_inline(prog, f.cls), sync_lambdas=False, max_depth=3)
    rd = reaching_defs(g)
    setters = {'SetTraceId': 'trace_id', 'SetSpanId': 'span_id', 'SetTraceFlags': 'trace_flags'}
    pts = {s: [p for p in g.points if p.n is not None and p.n['k'] == 'call' and p.n.get('virt') and strip_targs(p.n.get('c', '')).rsplit('::', 1)[-1] == s] for s in setters}
    # branches: edges on which a reference local (the found span / span context) is tested non-null
    branches = []
    for p in g.points:
        for (q, lab) in p.succ:
            if lab and isinstance(lab[0], int):
                ff = lab[1]
                core, pol = norm_cond(ff, lab[0])
                cn = ff.nodes[core]
                if cn['k'] == 'ref' and cn.get('sk') == 'local' and 'shared_ptr<' in (cn.get('t') or ''):
                    truth = lab[2] if pol else (not lab[2])
                    if truth is True:
                        branches.append((p, q, cn))
    if len(branches) < 2:
        ck.violation(rule, f, 'correlation-branches', None,
                     'CreateLogRecord no longer has a branch for an active Span and one for an active SpanContext guarded by their non-null test')
        return
    for bi, (p, q, cn) in enumerate(branches):
        kind = 'span' if 'trace::Span>' in cn['t'] and 'SpanContext' not in cn['t'] else 'span-context'
        for s, getter in setters.items():
            mine = [x for x in pts[s] if x.id in g.reachable_from(q)]
            r = g.reachable_from(q, avoid=mine)
            ok = bool(mine) and g.exit.id not in r
            if ok:
                a = mine[0].n['args'][0]
                mf = mine[0].f
                names = [strip_targs(mf.nodes[i].get('c', '')).rsplit('::', 1)[-1] for i in mf.subtree(a) if mf.nodes[i]['k'] == 'call']
                src_ok = getter in names and any(mf.nodes[i]['k'] == 'ref' and mf.nodes[i].get('id') == cn.get('id') for i in mf.subtree(a))
                ck.verdict(src_ok, rule, f, '%s:%s' % (kind, s), mine[0].n, '%s(%s())' % (s, getter) if src_ok else '%s is not fed from the active %s\'s %s()' % (s, kind, getter))
            else:
                ck.violation(rule, f, '%s:%s' % (kind, s), cn,
                             'an active %s was found (non-null) but a path skips %s: the record is not correlated with the active span (e.g. an extra condition such as IsRecording() on the span)' % (kind, s),
                             path=g.describe_path(g.path(q, g.exit, avoid=mine) or []))
    # nothing is set when no active span was found
    allset = [x for v in pts.values() for x in v]
    starts = [q for (_p, q, _c) in branches]
    stray = [x for x in allset if not any(x.id in g.reachable_from(q) for q in starts)]
    ck.verdict(not stray, rule, f, 'no-identity-without-active-span', stray[0].n if stray else None,
               'identity setters only behind a found active span' if not stray else 'a trace identity is written although no active span was found')


def rule_r2_api(ck, prog, rule='C13.R2'):
    fs = [f for f in prog.functions('logs::Logger::EmitLogRecord') if f.d.get('inst') and f.params and 'unique_ptr' in f.params[0]['t'] and len(f.params) > 2]
    if not fs:
        raise AnalysisBroken('no instantiation of Logger::EmitLogRecord(record, args...) in the driver unit')
    for f in fs:
        sets = [n for n in f.nodes if n['k'] == 'call' and 'LogRecordSetterTrait' in strip_targs(n.get('c', '')) and strip_targs(n.get('c', '')).endswith('::Set')]
        site = 'sequenced(%d args)' % (len(f.params) - 1)
        if len(sets) != len(f.params) - 1:
            ck.violation(rule, f, site, None, 'not every argument is applied to the record (%d setters for %d arguments)' % (len(sets), len(f.params) - 1))
            continue
        # unsequenced: two setter calls inside different arguments of one call
        bad = None
        for n in f.nodes:
            if n['k'] in ('call', 'construct') and n not in sets:
                holders = [a for a in n.get('args', []) if any(f.nodes[i] in sets for i in f.subtree(a))]
                if len(holders) >= 2:
                    bad = n
        # order: i-th setter (source order = comma chain order) takes the i-th argument
        order = []
        for s in sets:
            refs = [f.nodes[i] for a in s.get('args', [])[1:] for i in f.subtree(a) if f.nodes[i]['k'] == 'ref' and f.nodes[i].get('sk') == 'param']
            order.append(refs[0]['id'] if refs else None)
        g = Graph(prog, f, inline=None, sync_lambdas=False)
        pts = [g.point_of.get((id(g.root_ctx), s['i'])) for s in sets]
        seq = sorted(range(len(sets)), key=lambda i: min(k for k, p in enumerate(g.points) if p is pts[i]) if pts[i] is not None else 0)
        lr = [order[i] for i in seq] == [p['id'] for p in f.params[1:]]
        emit = [p for p in g.points if p.n is not None and p.n['k'] == 'call' and p.n.get('virt') and strip_targs(p.n.get('c', '')).endswith('Logger::EmitLogRecord')]
        before = bool(emit) and all(pt is not None and emit[0].id in g.reachable_from([q for (q, _l) in pt.succ]) for pt in pts)
        if bad is not None:
            ck.violation(rule, f, site, bad,
                         'the argument setters are sibling arguments of one call: their evaluation order is unspecified (g++ evaluates right to left), so for two arguments that write the same field the first one wins instead of the last')
        else:
            ck.verdict(lr and before, rule, f, site, sets[0], 'setters sequenced left to right, before EmitLogRecord(record)' if lr and before else
                       'the argument setters are not applied left to right before the record is emitted')


def rule_r3(ck, prog, rule='C13.R3'):
    fs = [f for f in prog.functions('sdk::logs::Logger::EmitLogRecord') if not f.d.get('inst')]
    f = fs[0]
    g = Graph(prog, f, inline=None, sync_lambdas=False)
    onemit = [p for p in g.points if p.n is not None and p.n['k'] == 'call' and p.n.get('virt') and strip_targs(p.n.get('c', '')).endswith('LogRecordProcessor::OnEmit')]
    if not onemit:
        ck.violation(rule, f, 'onemit', None, 'EmitLogRecord never hands the record to the processor')
        return

    def enabled_edge(a, b, lab):
        if not lab or not isinstance(lab[0], int):
            return False
        core, pol = norm_cond(lab[1], lab[0])
        cn = lab[1].nodes[core]
        if cn['k'] == 'call' and strip_targs(cn.get('c', '')).endswith('LoggerConfig::IsEnabled'):
            return (lab[2] if pol else not lab[2]) is True
        return False

    def nonnull_edge(a, b, lab):
        if not lab or not isinstance(lab[0], int):
            return False
        core, pol = norm_cond(lab[1], lab[0])
        cn = strip_casts(f, core)
        if cn['k'] == 'ref' and cn.get('id') == f.params[0]['id']:
            return (lab[2] if pol else not lab[2]) is True
        return False
    effects = [p for p in g.points if p.n is not None and p.n['k'] == 'call' and p.n.get('virt') and 'Recordable::' in strip_targs(p.n.get('c', ''))] + onemit
    ok = gated_by(g, effects, lambda ff, cn: strip_targs(cn.get('c', '')).endswith('LoggerConfig::IsEnabled'))[0]
    ck.verdict(ok, rule, f, 'enabled-gate', effects[0].n, 'everything behind the enabled edge' if ok else 'a disabled logger can still emit')
    # (null gate: the record pointer pinned to null)
    ok = feasible_reach(g, [g.entry], effects, pins=pointer_pins(f, lambda ap: ap == ('param:' + f.params[0]['name'],), False)) is None
    ck.verdict(ok, rule, f, 'null-gate', effects[0].n, 'everything behind the non-null record edge' if ok else 'a null record is dereferenced or emitted')
    for s in ('SetResource', 'SetInstrumentationScope'):
        pts = [p for p in g.points if p.n is not None and p.n['k'] == 'call' and p.n.get('virt') and strip_targs(p.n.get('c', '')).rsplit('::', 1)[-1] == s]
        ok = bool(pts) and all(g.must_pass(o, pts) for o in onemit)
        ck.verdict(ok, rule, f, '%s-before-onemit' % s, pts[0].n if pts else None, '%s precedes OnEmit' % s if ok else 'the record reaches the processor without %s' % s)
    # what is set is the logger's own: the resource of the context this logger belongs to, the scope this logger was created with
    rd = reaching_defs(g)
    for (s, wants, what) in (('SetResource', ('LoggerContext::GetResource',), 'the resource of its provider\'s context'),
                             ('SetInstrumentationScope', ('Logger::GetInstrumentationScope',), 'the instrumentation scope of this logger')):
        for p in [p for p in g.points if p.n is not None and p.n['k'] == 'call' and p.n.get('virt') and strip_targs(p.n.get('c', '')).rsplit('::', 1)[-1] == s and p.n.get('args')]:
            srcs = origins(g, rd, p.f, p.n['args'][0], p.ctx)
            good = bool(srcs)
            for (sf, sn, sc) in srcs:
                if sn['k'] == 'call' and any(strip_targs(sn.get('c', '')).endswith(w) for w in wants):
                    # called on this logger / on this logger's context member
                    o = sn.get('obj')
                    ap = access_path(sf, o, sc) if o is not None else ('this',)
                    if ap[:1] == ('this',) or (o is not None and sf.nodes[o]['k'] == 'this'):
                        continue
                    on = strip_casts(sf, o) if o is not None else None
                    while on is not None and on['k'] == 'call' and on.get('op') in ('->', '*') and on.get('obj') is not None:
                        on = strip_casts(sf, on['obj'])
                    if on is not None and access_path(sf, on['i'], sc)[:1] == ('this',):
                        continue
                    good = False
                elif sn['k'] == 'member' and access_path(sf, sn['i'], sc)[:1] == ('this',) and s == 'SetInstrumentationScope':
                    continue
                elif sn['k'] == 'unop' and sn.get('op') == '*' and s == 'SetInstrumentationScope' and \
                        any(sf.nodes[j]['k'] == 'member' and access_path(sf, j, sc)[:1] == ('this',) for j in sf.subtree(sn['i'])):
                    continue
                else:
                    good = False
            ck.verdict(good, rule, f, '%s-own' % s, p.n, 'the record receives %s' % what if good else
                       'the record handed to the processor does not receive %s (it is given something else)' % what)
    multi = len(onemit) != 1 or any(b.id in g.reachable_from([q for (q, _l) in a.succ]) for a in onemit for b in onemit)
    ck.verdict(not multi, rule, f, 'one-onemit-per-path', onemit[0].n, 'exactly one OnEmit' if not multi else 'a record can be handed to the processor twice')


def rule_r4_processor(ck, prog, rule='C13.R4'):
    rec = prog.record('sdk::logs::MultiLogRecordProcessor')
    for name in ('OnEmit', 'MakeRecordable', 'ForceFlush', 'Shutdown'):
        f = [x for x in prog.funcs.values() if x.cls == rec['qn'] and x.name == name][0]
        loops = loops_over(f, lambda ap: ap == ('this', 'processors_'))
        ok = len(loops) == 1
        why = 'no loop over all processors'
        if ok:
            g = Graph(prog, f, inline=None, sync_lambdas=False)
            body = set(f.subtree(loops[0]['body']))
            calls = [p for p in g.points if p.n is not None and p.f is f and p.n['i'] in body and p.n['k'] == 'call' and p.n.get('virt') and
                     strip_targs(p.n.get('c', '')).rsplit('::', 1)[-1] == name]

            def no_record_edge(a, b, lab):
                # (OnEmit) the only condition allowed around the child call is the test of the released child record: its null edge
                if name != 'OnEmit' or not lab or not isinstance(lab[0], int):
                    return False
                core, pol = norm_cond(lab[1], lab[0])
                cn = strip_casts(lab[1], core)
                if cn['k'] == 'ref' and cn.get('sk') == 'local' and 'unique_ptr' in (cn.get('t') or ''):
                    return (lab[2] if pol else not lab[2]) is False
                return False
            why = loop_visits_every_element(g, f, loops[0], calls, allowed_exit=no_record_edge if name == 'OnEmit' else None)
            ok = why is None and len(calls) == 1
            if why is None and not ok:
                why = 'the loop does not call %s exactly once on each processor' % name
        ck.verdict(ok, rule, f, 'processors:%s' % name, loops[0] if loops else None, 'every processor, no early exit' if ok else why)


def rule_r5(ck, prog, rule='C13.R5'):
    table = {
        'opentelemetry::logs::Severity': {'SetSeverity'},
        'opentelemetry::logs::EventId': {'SetEventId'},
        'opentelemetry::trace::SpanContext': {'SetSpanId', 'SetTraceId', 'SetTraceFlags'},
        'opentelemetry::trace::SpanId': {'SetSpanId'},
        'opentelemetry::trace::TraceId': {'SetTraceId'},
        'opentelemetry::trace::TraceFlags': {'SetTraceFlags'},
        'opentelemetry::common::SystemTimestamp': {'SetTimestamp'},
        'std::chrono::time_point<std::chrono::system_clock': {'SetTimestamp'},
        'opentelemetry::nostd::string_view': {'SetBody'},
        'absl::otel_v1::variant<bool': {'SetBody'},
    }
    seen = set()
    for f in prog.funcs.values():
        q = f.qn
        if 'LogRecordSetterTrait<' not in q or f.name != 'Set' or not f.d.get('inst'):
            continue
        arg = q.split('LogRecordSetterTrait<', 1)[1]
        for key, want in table.items():
            if arg.startswith(key) and key not in seen:
                seen.add(key)
                got = {strip_targs(n.get('c', '')).rsplit('::', 1)[-1] for n in f.nodes if n['k'] == 'call' and n.get('virt') and strip_targs(n.get('c', '')).startswith('opentelemetry::logs::LogRecord::')}
                ck.verdict(got == want, rule, f, 'dispatch:%s' % key.rsplit('::', 1)[-1][:24], None, '%s -> %s' % (key.rsplit('::', 1)[-1], ','.join(sorted(got))) if got == want else
                           'an argument of type %s sets %s, documented is %s' % (key, sorted(got), sorted(want)))
    if len(seen) < 8:
        raise AnalysisBroken('only %d of the documented argument types are instantiated in the driver unit' % len(seen))


def rule_r9(ck, prog, rule='C13.R9', cls='sdk::logs::ReadWriteLogRecord'):
    """identity setters are independent: a setter (SetTraceId / SetSpanId / SetTraceFlags) creates the shared identity block only when
    it is absent - with "the block exists" pinned, the assignment that replaces it is unreachable.  A setter that re-creates the
    block on some other condition wipes what the other two setters stored (explicit identity is delivered in argument order, so the
    span id may well arrive before the trace id)."""
    rec = prog.record(cls)
    ptr_fields = [fd['name'] for fd in rec['fields'] if 'unique_ptr' in fd['t'] or 'shared_ptr' in fd['t'] or fd['t'].rstrip().endswith('*')]
    cnt = 0
    for f in sorted([x for x in prog.funcs.values() if x.cls == rec['qn'] and x.name.startswith('Set') and x.blocks and not x.d.get('lambda')], key=lambda x: x.key):
        g = None
        for fld in ptr_fields:
            resets = [n for n in f.nodes if ((n['k'] == 'binop' and n['op'] == '=' and access_path(f, n['lhs']) == ('this', fld)) or
                                              (n['k'] == 'call' and n.get('op') == '=' and n.get('obj') is not None and access_path(f, n['obj']) == ('this', fld)) or
                                              (n['k'] == 'call' and n.get('obj') is not None and access_path(f, n['obj']) == ('this', fld) and
                                               strip_targs(n.get('c', '')).rsplit('::', 1)[-1] in ('reset',)))]
            if not resets:
                continue
            # only blocks that several setters share (a field written through this pointer elsewhere)
            sharers = {x.name for x in prog.funcs.values() if x.cls == rec['qn'] and x.name.startswith('Set') and
                       any(m['k'] == 'member' and access_path(x, m['i'])[:2] == ('this', fld) for m in x.nodes)}
            if len(sharers) < 2:
                continue
            if g is None:
                g = Graph(prog, f, inline=None, sync_lambdas=False)
            pts = [p for p in g.points if p.f is f and p.n is not None and any(p.n is r for r in resets)]
            pins = pointer_pins(f, lambda ap, fld=fld: ap == ('this', fld), True)
            cnt += 1
            leak = feasible_reach(g, [g.entry], pts, pins=pins)
            ck.verdict(leak is None, rule, f, 'identity-block-created-only-when-absent:%s' % f.name, resets[0],
                       '%s is (re)created only when it is null' % fld if leak is None else
                       '%s can replace an existing %s: what %s stored before (e.g. a span id delivered ahead of the trace id) is wiped' %
                       (f.name, fld, ' / '.join(sorted(sharers - {f.name}))))
    if cnt == 0:
        raise AnalysisBroken('C13.R9: no setter creating a shared identity block found in %s' % cls)
    return cnt


def rule_r10(ck, prog, rule='C13.R10'):
    """no view over a possibly-null character pointer: in the argument setters of the logs API (LogRecordSetterTrait<...>::Set) a
    nostd::string_view (or std::string) built from `p.get()` of an owning pointer member that one of the class's constructors leaves
    null (EventId(int64_t) has no name) has to be behind a non-null test of that pointer - string_view(const char*) measures the
    text with strlen and crashes on nullptr.  Decided by pinning: with the pointer pinned to null the construction is unreachable."""
    cnt = 0
    for f in sorted(prog.funcs.values(), key=lambda x: x.key):
        if 'LogRecordSetterTrait<' not in f.qn or f.name != 'Set' or not f.blocks:
            continue
        g = None
        for n in f.nodes:
            if n['k'] != 'construct' or not (strip_targs(n.get('c', '')).endswith('nostd::string_view::string_view') or 'basic_string' in strip_targs(n.get('c', ''))):
                continue
            args = [a for a in n.get('args', []) if a is not None and a >= 0 and f.nodes[a]['k'] != 'defarg']
            if len(args) != 1:
                continue
            an = strip_casts(f, args[0])
            if not (an['k'] == 'call' and strip_targs(an.get('c', '')).rsplit('::', 1)[-1] == 'get' and an.get('obj') is not None and 'unique_ptr' in strip_targs(an.get('c', ''))):
                continue
            ap = access_path(f, an['obj'])
            fld = ap[-1] if ap else None
            # is there a constructor of the owning class that leaves the member null?
            owner = f.nodes[an['obj']].get('owner') or ''
            nullable = False
            for c in prog.funcs.values():
                if c.kind == 'ctor' and c.cls and owner and strip_targs(c.cls).endswith(strip_targs(owner).rsplit('::', 1)[-1]):
                    for b in c.blocks:
                        for e in b['el']:
                            if isinstance(e, dict) and e.get('init') == fld and 'e' in e:
                                iv = strip_casts(c, e['e'])
                                while iv['k'] in ('construct', 'initlist') and len(iv.get('args', iv.get('ch', []))) == 1:
                                    iv = strip_casts(c, (iv.get('args') or iv.get('ch'))[0])
                                if iv.get('null') or (iv['k'] in ('construct', 'initlist') and not iv.get('args', iv.get('ch', []))):
                                    nullable = True
            if not nullable:
                continue
            if g is None:
                g = Graph(prog, f, inline=None, sync_lambdas=False)
            pt = g.point_of.get((id(g.root_ctx), n['i']))
            pins = pointer_pins(f, lambda p_, ap=ap: p_ == ap, False)
            cnt += 1
            guarded = pt is not None and feasible_reach(g, [g.entry], [pt], pins=pins) is None
            ck.verdict(guarded, rule, f, 'view-over-nullable-pointer:%s' % fld, n,
                       'the view over %s is built only behind a non-null test' % fld if guarded else
                       'a string view is built from %s.get(), which is null for objects made by the constructor that takes no text (EventId(int64_t)): strlen(nullptr) - emitting such an argument crashes instead of recording it' % fld)
    return cnt


def rule_r11(ck, prog, rule='C13.R11'):
    """"a null record is ignored": in every instantiation of the API template Logger::EmitLogRecord(unique_ptr<LogRecord> &&, args...)
    nothing is applied to the record and nothing is emitted when the record pointer is null - with the pointer pinned to null no
    argument setter (LogRecordSetterTrait / IgnoreTraitResult) and no virtual EmitLogRecord is reachable"""
    cnt = 0
    for f in sorted(prog.funcs.values(), key=lambda x: x.key):
        if not strip_targs(f.qn).endswith('logs::Logger::EmitLogRecord') or not f.blocks or not f.params or 'unique_ptr<opentelemetry::logs::LogRecord>' not in f.params[0]['t'].replace(' ', ''):
            continue
        if f.d.get('virtual') or 'sdk::' in f.qn:
            continue
        rid = f.params[0]['id']
        g = Graph(prog, f, inline=None, sync_lambdas=False)
        uses = [p for p in g.points if p.f is f and p.n is not None and p.n['k'] == 'call' and
                ('LogRecordSetterTrait' in (p.n.get('c') or '') or strip_targs(p.n.get('c', '')).endswith('Logger::EmitLogRecord') or
                 'IgnoreTraitResult' in (p.n.get('c') or '')) and
                any(f.nodes[i]['k'] == 'ref' and f.nodes[i].get('id') == rid for a in (p.n.get('args') or []) if a is not None and a >= 0 for i in list(f.subtree(a)) + [a])]
        if not uses:
            continue
        cnt += 1
        pins = {n['i']: False for n in f.nodes if n['k'] == 'ref' and n.get('id') == rid}
        leak = feasible_reach(g, [g.entry], uses, pins=pins)
        if cnt <= 1 or leak is not None:
            ck.verdict(leak is None, rule, f, 'null-record-ignored(%d arguments)' % (len(f.params) - 1), uses[0].n,
                       'with a null record nothing is applied or emitted' if leak is None else
                       'the API EmitLogRecord(record, args...) applies its arguments to (or emits) a null record: the setters dereference nullptr instead of the call being ignored')
    if cnt == 0:
        raise AnalysisBroken('C13.R11: no instantiation of the API template Logger::EmitLogRecord(record, args...) in the driver unit')
    return cnt


def run(ck, prog):
    ck.doc('C13.R1', 'concrete log recordables own their data (no borrowing field types); API container setters view caller storage', 11)
    ck.doc('C13.R2', 'correlation: all three identity setters on every path behind a found active span; API setters sequenced left to right', 9)
    ck.doc('C13.R3', 'EmitLogRecord: enabled and null gates first; resource/scope before OnEmit; one OnEmit', 5)
    ck.doc('C13.R4', 'logs MultiRecordable and MultiLogRecordProcessor fan-out completeness', 14)
    ck.doc('C13.R5', 'argument type -> setter dispatch table (from the instantiations)', 8)
    ck.doc('C08.R7', '(shared rule) ReadWriteLogRecord::SetAttribute stores last-write-wins', 1)
    ck.doc('C13.R6', 'ReadWriteLogRecord setters: every parameter stored on every path (explicit identity always overrides)', 10)
    ck.doc('C13.R8', 'attribute copy callbacks handed to ForEachKeyValue never ask to stop', 1)
    ck.doc('C01.R3', '(shared rule, see C01) the container handed to Export is filled by this batch only', 4)
    ck.doc('C01.R4', '(shared rule, see C01) count handed to Consume derives from size() / the batch bound', 1)
    ck.doc('C01.R5', '(shared rule, see C01) every constructor of the batch log processor creates the queue with the configured max_queue_size', 2)
    ck.doc('C02.R13', '(shared rule, see C02) the logger provider\'s destructor shuts its context down', 1)
    ck.doc('C13.R7', 'the simple log processor hands every record to the exporter (no path around Export)', 1)
    ck.doc('C13.R11', 'the API template EmitLogRecord(record, args...) ignores a null record (no setter, no emit reachable)', 1)
    ck.doc('C13.R10', 'API argument setters build no string view over a pointer member that a constructor leaves null without testing it', 1)
    ck.doc('C13.R9', 'identity setters are independent: the shared trace-identity block is created only when absent', 3)
    ck.doc('C19.R7', '(shared rule, see C19) every named constructor parameter of the logger provider / context is used (the configurator reaches the context)', 3)
    with ck.canary('C13.R2'):
        rule_r2_api_canary(ck, prog)
    c04.rule_r6(ck, prog, base='sdk::logs::Recordable', rule='C13.R1')
    rule_r2(ck, prog)
    rule_r2_api(ck, prog)
    rule_r3(ck, prog)
    c04.rule_r4_multirecordable(ck, prog, cls='sdk::logs::MultiRecordable', base='logs::LogRecord', rule='C13.R4', allow_child_null_check=True)
    c04.rule_r4_multirecordable(ck, prog, cls='sdk::logs::MultiRecordable', base='sdk::logs::Recordable', rule='C13.R4', allow_child_null_check=True)
    rule_r4_processor(ck, prog)
    rule_r5(ck, prog)
    c08.rule_r7(ck, prog, setters=('sdk::logs::ReadWriteLogRecord::SetAttribute',))
    n6 = c04.rule_r7(ck, prog, cls='sdk::logs::ReadWriteLogRecord', base='logs::LogRecord', rule='C13.R6')
    n6 += c04.rule_r7(ck, prog, cls='sdk::logs::ReadWriteLogRecord', base='sdk::logs::Recordable', rule='C13.R6')
    rule_r7_simple(ck, prog)
    rule_r1_exposure(ck, prog)
    # exactly once through the batch processor: the container handed to Export holds this batch only (see C01.R3)
    from . import c01, c02
    from .common import Roles, callbacks_never_stop
    from ..callgraph import CallGraph
    cg = CallGraph(prog)
    lroles = Roles(prog, 'sdk::logs::BatchLogRecordProcessor', cg=cg)
    c01.rule_r3_r4(ck, prog, cg, lroles)
    # ... and accepted while the configured queue has room: every constructor sizes the queue with max_queue_size (see C01.R5)
    c01.rule_r5(ck, prog, lroles)
    # the scope / resource a queued record points to stays alive until it is exported: the provider drains in its destructor
    c02.rule_r13(ck, prog, providers=('sdk::logs::LoggerProvider',))
    # attributes supplied as a KeyValueIterable are all copied
    hosts = [f for f in prog.funcs.values() if 'LogRecordSetterTrait<' in f.qn or (f.cls or '').startswith('opentelemetry::sdk::logs::')]
    n8 = callbacks_never_stop(ck, prog, 'C13.R8', hosts)
    if not n8:
        raise AnalysisBroken('no ForEachKeyValue copy callback found in the logs API traits')
    rule_r9(ck, prog)
    rule_r10(ck, prog)
    rule_r11(ck, prog)
    # "a disabled logger emits nothing" needs the configurator to reach the context through every provider constructor (see C19.R7)
    from . import c19
    c19.rule_r7(ck, prog)
    return {}


def rule_r7_simple(ck, prog, rule='C13.R7', cls='sdk::logs::SimpleLogRecordProcessor', method='OnEmit'):
    """the simple processor hands every record to its exporter: no path through OnEmit avoids Export"""
    f = prog.function(cls + '::' + method)
    g = Graph(prog, f, inline=None, sync_lambdas=False)
    ex = [p for p in g.points if p.n is not None and p.n['k'] == 'call' and p.n.get('virt') and strip_targs(p.n.get('c', '')).endswith('Exporter::Export')]
    if not ex:
        raise AnalysisBroken('%s::%s: call of the exporter not found' % (cls, method))
    rd = reaching_defs(g)

    def after_shutdown(a, b, lab):
        # dropping a record once the processor has been shut down is what C02 asks for: the edge on which the shutdown latch reads true
        if not lab or not isinstance(lab[0], int):
            return False
        core, pol = norm_cond(lab[1], lab[0])
        truth = lab[2] if pol else (not lab[2])
        names = set()
        for (sf, sn, sc) in origins(g, rd, lab[1], core, a.ctx):
            for j in sf.subtree(sn['i']):
                m = sf.nodes[j]
                if m['k'] == 'call':
                    names.add(strip_targs(m.get('c', '')).rsplit('::', 1)[-1])
                if m['k'] == 'member':
                    names.add(m['name'])
        return truth is True and ('IsShutdown' in names or any('shutdown' in x.lower() for x in names if x.endswith('_')))
    ok = g.exit.id not in g.reachable_from(g.entry, avoid=ex, avoid_edges=after_shutdown)
    ck.verdict(ok, rule, f, 'every-record-exported', ex[0].n, 'every path through %s calls the exporter\'s Export (except after shutdown)' % method if ok else
               '%s can return without handing the record to the exporter (try-lock / early return): a record emitted while another thread is exporting is dropped' % method,
               path=None if ok else g.describe_path(g.path(g.entry, g.exit, avoid=ex, avoid_edges=after_shutdown) or []))
    # what is handed over is the record itself: a view of exactly one element that starts at the parameter
    par = f.params[0]
    for ep in ex:
        srcs = [(sf, sn) for a in ep.n.get('args', []) if a is not None and a >= 0 for (sf, sn, sc) in origins(g, rd, ep.f, a, ep.ctx)]
        spans = [(sf, sn) for (sf, sn) in srcs if sn['k'] == 'construct' and 'span<' in (sn.get('c') or '') and len(sn.get('args', [])) == 2]
        if not spans:
            ck.inconclusive(rule, f, 'one-element-view-of-the-record', ep.n, 'the view handed to Export is not built as span(pointer, count) in %s' % method)
            continue
        for (sf, sn) in spans:
            a0, a1 = strip_casts(sf, sn['args'][0]), strip_casts(sf, sn['args'][1])
            at_param = a0['k'] == 'unop' and a0.get('op') == '&' and strip_casts(sf, a0['e']).get('id') == par['id']
            one = a1.get('v') == 1
            ok2 = at_param and one
            ck.verdict(ok2, rule, sf, 'one-element-view-of-the-record', sn, 'Export receives span(&record, 1)' if ok2 else
                       ('the view handed to Export has %s elements instead of one: the record is not exported (or the exporter reads past it)' % a1.get('v', '?') if at_param else
                        'the view handed to Export does not start at the record that was passed in'))


def rule_r1_exposure(ck, prog, rule='C13.R1'):
    """While the SDK log record keeps non-owning attribute values (finding D9), the API setters must at least hand it views into the
    caller's storage: iterating a caller container by value stores views into a per-iteration copy that dies before the record is
    even emitted."""
    rec = prog.record('sdk::logs::ReadWriteLogRecord')
    borrowing = [fd for fd in rec['fields'] if fd['name'] == 'attributes_map_' and c04._borrowing(prog, fd['t'])]
    cnt = 0
    for f in sorted(prog.funcs.values(), key=lambda x: x.key):
        if 'LogRecordSetterTrait<' not in f.qn or f.name != 'Set':
            continue
        for lp in [n for n in f.nodes if n['k'] == 'forrange']:
            calls = [f.nodes[i] for i in f.subtree(lp['body']) if f.nodes[i]['k'] == 'call' and f.nodes[i].get('virt') and
                     strip_targs(f.nodes[i].get('c', '')).endswith('LogRecord::SetAttribute')]
            if not calls:
                continue
            decl = None
            for n in f.nodes:
                if n['k'] == 'declstmt':
                    for d in n['decls']:
                        if d['id'] == lp['var']:
                            decl = d
            if decl is None:
                continue
            cnt += 1
            byval = not decl['t'].rstrip().endswith('&')
            site = 'container-attributes-viewed-in-caller-storage'
            if byval and borrowing:
                ck.violation(rule, f, site, lp,
                             'the attribute container is iterated by value (%s %s) and views of the copy are handed to SetAttribute; ReadWriteLogRecord keeps the non-owning value, so the exported attribute points into a destroyed per-iteration copy' % (decl['t'][:50], decl['name']))
            else:
                ck.holds(rule, f, site, lp, 'loop variable is a reference into the caller\'s container' if not byval else 'copy is harmless: the record owns its values')
    if not cnt:
        raise AnalysisBroken('no LogRecordSetterTrait<container>::Set instantiation with an attribute loop in the driver unit')


def rule_r2_api_canary(ck, prog):
    f = prog.function('canary::c13::BadEmit')
    sets = [n for n in f.nodes if n['k'] == 'call' and strip_targs(n.get('c', '')).endswith('canary::c13::Set')]
    for n in f.nodes:
        if n['k'] == 'call' and n not in sets:
            holders = [a for a in n.get('args', []) if any(f.nodes[i] in sets for i in f.subtree(a))]
            if len(holders) >= 2:
                ck.violation('C13.R2', f, 'sequenced', n, 'canary: unsequenced setters')
