"""C02 - ForceFlush and Shutdown are complete, final and always return."""
from ..ir import AnalysisBroken, strip_targs, qmatch
from ..graph import Graph
from ..expr import access_path, path_str, held_locks, reaching_defs, defs_in_node, leaves, norm_cond, origins
from ..callgraph import CallGraph
from ..symb import explore_false_child
from .common import (Roles, EXPORTER_EXPORT, EXPORTER_FLUSH, EXPORTER_SHUTDOWN, same_class_inline, member_funcs,
                     comparison, strip_casts, short, FLIP, cond_text, atomic_op, gated_by)
from . import c03

UNITS = ['sdk/src/trace/batch_span_processor.cc', 'sdk/src/logs/batch_log_record_processor.cc',
         'sdk/src/metrics/export/periodic_exporting_metric_reader.cc', 'sdk/src/metrics/metric_reader.cc',
         'sdk/src/metrics/meter_context.cc', 'sdk/src/logs/multi_log_record_processor.cc',
         'sdk/src/trace/tracer_provider.cc', 'sdk/src/trace/tracer_context.cc', 'sdk/src/logs/logger_provider.cc',
         'sdk/src/logs/logger_context.cc', 'sdk/src/metrics/meter_provider.cc',
         'sdk/src/metrics/state/metric_collector.cc', 'sdk/src/logs/simple_log_record_processor.cc']
DRIVERS = ['trace_headers.cc']
CANARIES = ['c02_canary.cc']

EXPLANATION = (
    'C02.R1 (must-precede): in the worker\'s export cycle the atomic load of the pending flush ticket (the counter '
    'ForceFlush increments) precedes, in the same iteration, every queue-size snapshot / Consume (periodic reader: '
    'the start of the collect thread). C02.R2: every publication (store/CAS) of the notified counter takes its value '
    'from that load, and is preceded by the exporter\'s Export on every path from a Consume, and (batch) by the '
    'exporter\'s ForceFlush. C02.R3: every return of the public flush entry is literally false or contains the '
    'comparison notified >= own ticket (own ticket derived from this call\'s fetch_add). C02.R4 (aggregation, '
    'three-valued path evaluation): in every ForceFlush/OnForceFlush layer, on every feasible path after a child '
    'flush call returned false, the function returns definitely false. C02.R5: the exporter/child Shutdown call '
    'is guarded by the first-caller outcome of an atomic read-modify-write of the latch (not a load followed by a '
    'store). C02.R6: the worker join dominates the exporter Shutdown; exporter Export/ForceFlush sites of the batch '
    'processors are reachable only from the worker entry; the periodic reader joins its worker in OnShutDown. '
    'C02.R7: in OnEnd/OnEmit/ForceFlush of the batch processors every queue insertion, ticket increment, wait and '
    'notification is guarded by the not-shut-down outcome of a read of the latch. C02.R8: every condition-variable '
    'wait reachable from these classes is a timed wait. C02.R9 (must-follow): after the exporter\'s ForceFlush in the '
    'completion helper the publication of the ticket follows on every path except those taken because the notified '
    'counter already covers the ticket (a necessary condition for ForceFlush/Shutdown termination when the exporter fails).')
EXPLANATION += ' C02.R10 (fan-out over the flow graph): every layer that forwards ForceFlush/Shutdown to a list of children makes the child call in every iteration (no short-circuit, condition or continue in front of it) and does not leave the loop early.'
EXPLANATION += ' C02.R11 (relational): a pending flush ticket is published as served only on paths on which the whole snapshot was consumed (the count handed to Consume is the full size, or a nothing-left edge was passed). C02.R12 (dominance): once the worker has observed the shutdown flag it returns only behind an observation that the queue is empty. C02.R13 (must-reach): every provider destructor (tracer, meter, logger) reaches the Shutdown of its context on every path.'
ROUND2_EXPLANATION = (' C02.R2 also requires that every ticket value that can be published was read before a queue snapshot on the way to the publication (every inlined copy of the completion helper). C02.R6 also: no thread of a class that drives an exporter is detached.')
EXPLANATION += ROUND2_EXPLANATION
NOT_DECIDED = ('termination/liveness of the timed loops under every interleaving and timeout; that a true ForceFlush '
               'really covered every record under all schedules (only the ordering/aggregation necessary conditions are decided).')

FLUSH_NAMES = ('ForceFlush', 'OnForceFlush')


def _pending_loads(g, roles):
    out = []
    for p in g.points:
        if p.n is None:
            continue
        op = atomic_op(p.n)
        if op and op[0] == 'load':
            if path_str(access_path(p.f, p.n['obj'], p.ctx)) == roles.pending:
                out.append(p)
    return out


def _notified_field(roles):
    """atomic member (other than the pending ticket and the latch) that the flush entry loads"""
    cands = {}
    fs = [roles.flush] + [f for f in roles.funcs if f.d.get('lambda') and f.d.get('parent') == roles.flush.key]
    for f in fs:
        for n in f.nodes:
            op = atomic_op(n)
            if op and op[0] == 'load':
                p = path_str(access_path(f, n['obj']))
                if p.startswith('this.') and p not in (roles.pending, roles.latch):
                    cands[p] = cands.get(p, 0) + 1
    # the notified counter is the one compared with something (appears in a comparison)
    best = None
    for f in fs:
        for n in f.nodes:
            c = comparison(f, n['i'])
            if not c:
                continue
            for side in (c[1], c[2]):
                m = strip_casts(f, side)
                op = atomic_op(m)
                if op and op[0] == 'load':
                    p = path_str(access_path(f, m['obj']))
                    if p in cands and c[0] in ('>=', '<=', '>', '<'):
                        best = p
    return best


def rule_r1_r2(ck, prog, cg, roles, batch=True):
    if not roles.pending:
        raise AnalysisBroken('%s: pending flush ticket (fetch_add in the flush entry) not found' % roles.short)
    notified = _notified_field(roles)
    if not notified:
        raise AnalysisBroken('%s: notified counter not found' % roles.short)
    done = set()
    n_cycles = []
    for t in sorted(roles.thread_entries):
        tf = prog.funcs[t]
        g = Graph(prog, tf, inline=same_class_inline(prog, roles.cls), max_depth=5)
        rd = reaching_defs(g)
        loads = _pending_loads(g, roles)
        exports = g.calls(EXPORTER_EXPORT)
        if batch:
            snaps = [p for p in g.calls(('CircularBuffer::size', 'CircularBuffer::Consume'))
                     if any(g.unit_ctx(e.ctx, exports) is g.unit_ctx(p.ctx, exports) for e in exports)]
        else:
            # periodic reader: the snapshot is the start of the collect task
            snaps = [p for p in g.calls('std::thread::thread') if p.f.cls == roles.cls or p.f.d.get('lambda')]
            snaps = [p for p in snaps if p.f is not tf or True]
            # only thread starts whose entry reaches the exporter
            keep = []
            for p in snaps:
                lam = [p.f.nodes[a] for a in p.n.get('args', []) if a is not None and a >= 0]
                keep.append(p)
            snaps = keep
        if not snaps:
            continue
        n_cycles.append(tf)
        for s in snaps:
            site = 'ticket-before-%s' % strip_targs(s.n.get('c', '')).rsplit('::', 1)[-1].lower()
            if (s.f.key, site, s.n['i']) in done:
                continue
            done.add((s.f.key, site, s.n['i']))
            us = g.unit_ctx(s.ctx, exports) if batch else s.ctx
            ctx_entry = g.ctx_bounds[id(us)][0]
            same_ctx_loads = [l for l in loads if (g.unit_ctx(l.ctx, exports) if batch else l.ctx) is us]
            srcs = [ctx_entry] + [e for e in exports if (g.unit_ctx(e.ctx, exports) if batch else e.ctx) is us]
            bad = None
            for src in srcs:
                if src in same_ctx_loads:
                    continue
                starts = [src] if src is ctx_entry else [q for (q, _l) in src.succ]
                r = g.reachable_from(starts, avoid=same_ctx_loads)
                if s.id in r:
                    bad = src
                    break
            if bad is None and same_ctx_loads:
                ck.holds('C02.R1', s.f, site, s.n, 'pending ticket loaded before the snapshot in every iteration')
            else:
                starts = [bad] if bad is ctx_entry else ([q for (q, _l) in bad.succ] if bad else [ctx_entry])
                pth = None
                for st in starts:
                    pth = g.path(st, s, avoid=same_ctx_loads)
                    if pth:
                        break
                ck.violation('C02.R1', s.f, site, s.n,
                             'the queue snapshot can be taken before the pending flush ticket is read: a flush could be acknowledged for records it never saw',
                             path=g.describe_path(pth or []))
        # ---- R2: publications of the notified counter
        pubs = []
        for p in g.points:
            if p.n is None:
                continue
            op = atomic_op(p.n)
            if op and op[0] in ('rmw', 'store') and path_str(access_path(p.f, p.n['obj'], p.ctx)) == notified:
                pubs.append((p, op))
        if not pubs:
            raise AnalysisBroken('%s: no publication of the notified counter in the worker' % roles.short)
        consumes = g.calls('CircularBuffer::Consume') if batch else snaps
        flushes = g.calls(EXPORTER_FLUSH)
        for (p, op) in pubs:
            key = (p.f.key, p.n['i'])
            site = 'publish-notified'
            if key in done:
                continue
            done.add(key)
            args = p.n.get('args', [])
            desired = args[1] if op[1].startswith('compare_exchange') and len(args) > 1 else (args[0] if args else None)
            srcs = origins(g, rd, p.f, desired, p.ctx) if desired is not None else []
            from_ticket = False
            for (sf, sn, sctx) in srcs:
                o = atomic_op(sn)
                if o and o[0] == 'load' and path_str(access_path(sf, sn['obj'], sctx)) == roles.pending:
                    from_ticket = True
            if not from_ticket:
                ck.violation('C02.R2', p.f, site + ':value', p.n,
                             'the value published to the notified counter does not come from the pending ticket read at the start of the cycle (origins: %s)' %
                             ','.join(sorted({sn['k'] + ':' + strip_targs(sn.get('c', sn.get('name', '')) or '') for (_f, sn, _c) in srcs})))
            else:
                ck.holds('C02.R2', p.f, site + ':value', p.n, 'published value originates from the pending-ticket load')
            # export precedes publish on every path from a Consume
            bad_path = None
            for c in consumes:
                starts = [q for (q, _l) in c.succ]
                through = exports if batch else g.calls('std::thread::join')
                r = g.reachable_from(starts, avoid=through, avoid_edges=_joinable_false)
                if p.id in r:
                    for st in starts:
                        bad_path = g.path(st, p, avoid=through, avoid_edges=_joinable_false)
                        if bad_path:
                            break
                    break
            what = 'Export' if batch else 'the join of the collect task'
            if bad_path:
                ck.violation('C02.R2', p.f, site + ':after-export', p.n,
                             'the flush ticket can be published on a path from the queue snapshot that has not passed %s' % what,
                             path=g.describe_path(bad_path))
            else:
                ck.holds('C02.R2', p.f, site + ':after-export', p.n, 'every path from the snapshot to the publication passes %s' % what)
            if batch:
                # exporter ForceFlush precedes the publication (null-exporter edge exempt)
                def null_exporter_edge(a, b, lab):
                    if not lab or not isinstance(lab[0], int) or lab[2] is not False:
                        return False
                    core, pol = norm_cond(lab[1], lab[0])
                    pth = access_path(lab[1], core, a.ctx)
                    return pol and pth == ('this', roles.exporter_field)
                ctx_entry = g.ctx_bounds[id(p.ctx)][0]
                fl = [x for x in flushes]
                r = g.reachable_from(ctx_entry, avoid=fl, avoid_edges=null_exporter_edge)
                if p.id in r:
                    ck.violation('C02.R2', p.f, site + ':after-exporter-flush', p.n,
                                 'the flush ticket can be published without the exporter\'s ForceFlush having been invoked',
                                 path=g.describe_path(g.path(ctx_entry, p, avoid=fl, avoid_edges=null_exporter_edge) or []))
                else:
                    ck.holds('C02.R2', p.f, site + ':after-exporter-flush', p.n, 'exporter ForceFlush precedes the publication')
        # ---- the ticket that is published is the one read *before* the snapshot (every inlined copy of the publication): a ticket read
        # after the export covers flush requests that arrived while the exporter was busy - for records that are still queued
        snap_pts = list(snaps) + (list(g.calls('CircularBuffer::size')) if batch else [])
        seen_pub = set()
        for (p, op) in pubs:
            args = p.n.get('args', [])
            desired = args[1] if op[1].startswith('compare_exchange') and len(args) > 1 else (args[0] if args else None)
            if desired is None:
                continue
            late = None
            for (sf, sn, sctx) in origins(g, rd, p.f, desired, p.ctx):
                o = atomic_op(sn)
                if not (o and o[0] == 'load' and path_str(access_path(sf, sn['obj'], sctx)) == roles.pending):
                    continue
                lp = g.point_of.get((id(sctx), sn['i']))
                if lp is None:
                    continue
                # a path from the load to this publication that passes no snapshot of the queue: the load came after it
                r = g.reachable_from([q for (q, _l) in lp.succ], avoid=snap_pts)
                if p.id in r:
                    late = lp
                    break
            key = (p.f.key, p.n['i'], late.n['i'] if late is not None else None)
            if key in seen_pub:
                continue
            seen_pub.add(key)
            if late is not None:
                ck.violation('C02.R2', p.f, 'publish-notified:ticket-read-before-snapshot', late.n,
                             'the ticket published here is (also) one read at line %s, after the queue snapshot of the cycle: flush requests that arrived while the exporter was busy are acknowledged although what they cover is still queued' % late.line,
                             path=g.describe_path(g.path(late, p, avoid=snap_pts) or []))
            elif (p.f.key, p.n['i'], 'ok') not in seen_pub:
                seen_pub.add((p.f.key, p.n['i'], 'ok'))
                ck.holds('C02.R2', p.f, 'publish-notified:ticket-read-before-snapshot', p.n, 'every ticket value that can be published was read before a queue snapshot on the way to the publication')
        if batch:
            # ---- R11: a ticket is only published when everything the snapshot saw has been exported. On the paths on which a
            # ticket is pending, either the count handed to Consume is the whole queue size, or the publication is behind an
            # edge that establishes "nothing left" (a zero test of a value derived from the queue size).
            ticket_vars = set()
            for l in loads:
                for p in g.points:
                    if p.n is not None and p.ctx is l.ctx and p.n['k'] == 'declstmt':
                        for d in p.n['decls']:
                            if d.get('init') is not None and d['init'] >= 0 and l.n['i'] in set(p.f.subtree(d['init'])):
                                ticket_vars.add(d['id'])

            def ticket_zero_edge(a, b, lab):
                if not lab or not isinstance(lab[0], int):
                    return False
                core, pol = norm_cond(lab[1], lab[0])
                cn = strip_casts(lab[1], core)
                if cn['k'] == 'ref' and cn.get('id') in ticket_vars:
                    return (lab[2] if pol else not lab[2]) is False
                c = comparison(lab[1], core)
                if c and c[0] in ('==', '!=') and strip_casts(lab[1], c[1]).get('id') in ticket_vars and strip_casts(lab[1], c[2]).get('v') == 0:
                    return (lab[2] if pol else not lab[2]) is (c[0] == '==')
                return False

            def nothing_left_edge(a, b, lab):
                if not lab or not isinstance(lab[0], int):
                    return False
                core, pol = norm_cond(lab[1], lab[0])
                truth = lab[2] if pol else (not lab[2])
                c = comparison(lab[1], core)
                subj = None
                if c and c[0] in ('==', '!=') and strip_casts(lab[1], c[2]).get('v') == 0:
                    subj, want = c[1], (c[0] == '==')
                else:
                    cn = strip_casts(lab[1], core)
                    if cn['k'] == 'call' and strip_targs(cn.get('c', '')).endswith('CircularBuffer::empty'):
                        return truth is True
                    if cn['k'] == 'ref':
                        subj, want = core, False
                if subj is None:
                    return False
                for (sf, sn, sc) in origins(g, rd, lab[1], subj, a.ctx):
                    for j in sf.subtree(sn['i']):
                        m = sf.nodes[j]
                        if m['k'] == 'call' and strip_targs(m.get('c', '')).rsplit('::', 1)[-1] in ('size', 'empty') and 'CircularBuffer' in strip_targs(m.get('c', '')):
                            return truth is want
                return False
            rds = reaching_defs(g, skip_edge=ticket_zero_edge)
            for c in g.calls('CircularBuffer::Consume'):
                uc = g.unit_ctx(c.ctx, exports)
                if not any(g.unit_ctx(e.ctx, exports) is uc for e in exports):
                    continue
                key = ('r11', uc.f.key, c.n['i'])
                if key in done:
                    continue
                done.add(key)
                # what the count is in the scenario "a ticket is pending": resolved through locals (restricted flow), helper
                # parameters and conditional expressions on the ticket
                from .common import scenario_sources

                def ticket_role(ff, cnd, ctx_):
                    dep_ = c03._depends_on_pending(g, roles, ff, cnd, ctx_)
                    if dep_ is not None:
                        return 'pending', dep_
                    core, pol = norm_cond(ff, cnd)
                    cn_ = strip_casts(ff, core)
                    if cn_['k'] == 'ref' and cn_.get('id') in ticket_vars:
                        return 'pending', pol
                    cc = comparison(ff, core)
                    if cc and strip_casts(ff, cc[1]).get('id') in ticket_vars and strip_casts(ff, cc[2]).get('v') == 0:
                        if cc[0] in ('!=', '>'):
                            return 'pending', pol
                        if cc[0] == '==':
                            return 'pending', (not pol)
                    return None, pol

                def classify(ff, n_, ctx_):
                    if n_['k'] == 'call' and strip_targs(n_.get('c', '')).endswith('CircularBuffer::size'):
                        return 'whole'
                    if n_['k'] == 'call' and strip_targs(n_.get('c', '')) in ('std::min',):
                        return 'bounded'
                    if n_['k'] == 'cond' and ticket_role(ff, n_['cnd'], ctx_)[0] is None:
                        return 'bounded'
                    if n_['k'] == 'ref' and n_.get('sk') == 'param' and ctx_ is not None and ctx_.call is not None and not ctx_.lambda_of:
                        return None
                    if n_['k'] == 'member':
                        return 'bounded'
                    return None
                arg_f, arg_i, arg_ctx = c.f, c.n['args'][0], c.ctx
                hops = 0
                while hops < 4:
                    an = strip_casts(arg_f, arg_i)
                    if an['k'] == 'ref' and an.get('sk') == 'param' and arg_ctx is not None and arg_ctx.call is not None and not arg_ctx.lambda_of:
                        pi = [k_ for k_, pr in enumerate(arg_f.params) if pr['id'] == an['id']]
                        if pi and pi[0] < len(arg_ctx.call.get('args', [])):
                            arg_f, arg_i, arg_ctx = arg_ctx.caller, arg_ctx.call['args'][pi[0]], arg_ctx.parent
                            hops += 1
                            continue
                    break
                at_pt = g.point_of.get((id(arg_ctx), strip_casts(arg_f, arg_i)['i'])) or c
                kinds = scenario_sources(g, arg_f, arg_i, arg_ctx, {'pending': True}, ticket_role, classify, at=at_pt)
                partial = None if kinds == {'whole'} else c
                if partial is None:
                    ck.holds('C02.R11', c.f, 'publication-covers-snapshot', c.n, 'with a ticket pending the whole queue-size snapshot is consumed before the publication')
                    continue
                # a bounded chunk: every publication that follows it in the same cycle must be behind a "nothing left" edge
                same_iter = g.reachable_from([q for (q, _l) in c.succ], avoid=[l for l in loads if g.unit_ctx(l.ctx, exports) is uc])
                bad = [p for (p, _o) in pubs if p.id in same_iter and
                       p.id in g.reachable_from([q for (q, _l) in c.succ], avoid=[l for l in loads if g.unit_ctx(l.ctx, exports) is uc], avoid_edges=nothing_left_edge)]
                ck.verdict(not bad, 'C02.R11', c.f, 'publication-covers-snapshot', partial.n,
                           'bounded chunks, and the publication is only reached once nothing is left' if not bad else
                           'with a flush ticket pending only a bounded chunk of the queue is consumed, and the ticket is published right after that chunk: ForceFlush returns true while records that were queued before it began are still in the queue',
                           path=None if not bad else g.describe_path(g.path(c, bad[0]) or []))
            # ---- R9 (termination, necessary condition): once the exporter has been flushed for a pending ticket the
            # publication must follow on every path; the only exempt exits are those taken because the notified
            # counter already covers the ticket (a comparison that reads the notified counter).
            pub_pts = [p for (p, _o) in pubs]

            def covered_edge(a, b, lab):
                if not lab or not isinstance(lab[0], int):
                    return False
                ff = lab[1]
                for (sf, sn, sctx) in origins(g, rd, ff, lab[0], a.ctx):
                    for j in sf.subtree(sn['i']):
                        m = sf.nodes[j]
                        o = atomic_op(m)
                        if o and o[0] == 'load' and path_str(access_path(sf, m['obj'], sctx)) == notified:
                            return True
                        if m['k'] == 'ref' and m.get('sk') == 'local':
                            for (sf2, sn2, sctx2) in origins(g, rd, sf, j, sctx):
                                o2 = atomic_op(sn2)
                                if o2 and path_str(access_path(sf2, sn2['obj'], sctx2)) == notified:
                                    return True
                return False
            for fp in flushes:
                key = ('r9', fp.f.key, fp.n['i'])
                if key in done:
                    continue
                done.add(key)
                ctx_exit = g.ctx_bounds[id(fp.ctx)][1]
                r = g.reachable_from([q for (q, _l) in fp.succ], avoid=pub_pts, avoid_edges=covered_edge)
                if ctx_exit.id in r:
                    pth = None
                    for (q, _l) in fp.succ:
                        pth = g.path(q, ctx_exit, avoid=pub_pts, avoid_edges=covered_edge)
                        if pth:
                            break
                    ck.violation('C02.R9', fp.f, 'publish-after-exporter-flush', fp.n,
                                 'after the exporter\'s ForceFlush a path leaves the completion helper without publishing the ticket: the flush stays pending for ever (ForceFlush with an infinite timeout and the shutdown drain never terminate)',
                                 path=g.describe_path([fp] + (pth or [])))
                else:
                    ck.holds('C02.R9', fp.f, 'publish-after-exporter-flush', fp.n, 'publication follows the exporter flush on every path')
    if not n_cycles:
        raise AnalysisBroken('%s: no snapshot point in any worker cycle' % roles.short)
    return notified


def rule_r3(ck, prog, roles, notified, need_exporter_flush=False):
    """every return of the flush entry is `false` or contains notified >= own ticket"""
    f = roles.flush
    g = Graph(prog, f, inline=None, sync_lambdas=False)
    rd = reaching_defs(g)
    n_ret = 0
    for rp in g.returns():
        n_ret += 1
        e = rp.n.get('e')
        site = 'return@%d' % n_ret
        en = strip_casts(f, e) if e is not None else None
        if en is not None and en['k'] == 'lit' and en.get('v') == 0:
            ck.holds('C02.R3', f, 'return-false', rp.n, 'returns false')
            continue
        NEG = {'>=': '<', '<': '>=', '>': '<=', '<=': '>', '==': '!=', '!=': '=='}

        def has_op(idx, ctx, pred):
            for (sf, sn, sc) in origins(g, rd, f, idx, ctx):
                for k in sf.subtree(sn['i']):
                    oo = atomic_op(sf.nodes[k])
                    if oo and pred(oo, sf, sf.nodes[k], sc):
                        return True
            return False
        is_notified = lambda oo, sf, n, sc: oo[0] == 'load' and path_str(access_path(sf, n['obj'], sc)) == notified
        is_ticket = lambda oo, sf, n, sc: oo[1] in ('fetch_add', 'operator++', 'operator+=') and path_str(access_path(sf, n['obj'], sc)) == roles.pending

        def implies(idx, ctx, positive=True, depth=4):
            """does `value of idx is true` (false when not positive) imply notified >= own ticket? Boolean locals are followed to
            all of their definitions; a true conjunction implies each conjunct, a true disjunction needs both sides to imply."""
            core, pol = norm_cond(f, idx)
            pos = positive if pol else (not positive)
            c = comparison(f, core)
            if c:
                op, l, r = (c[0] if pos else NEG[c[0]]), c[1], c[2]
                if has_op(r, ctx, is_notified) and not has_op(l, ctx, is_notified):
                    op, l, r = FLIP[op], r, l
                return op == '>=' and has_op(l, ctx, is_notified) and has_op(r, ctx, is_ticket)
            cn = strip_casts(f, core)
            if cn['k'] == 'lit':
                return bool(cn.get('v')) is not pos      # the literal that makes the premise unsatisfiable
            if cn['k'] == 'binop' and cn['op'] in ('&&', '||'):
                conj = (cn['op'] == '&&') is pos
                a, b = implies(cn['lhs'], ctx, pos, depth), implies(cn['rhs'], ctx, pos, depth)
                return (a or b) if conj else (a and b)
            if cn['k'] == 'ref' and cn.get('sk') == 'local' and depth > 0:
                srcs = [(sf, sn, sc) for (sf, sn, sc) in origins(g, rd, f, core, ctx) if sf is f and sn['i'] != core]
                return bool(srcs) and all(implies(sn['i'], sc, pos, depth - 1) for (sf, sn, sc) in srcs)
            return False
        ok = implies(e, rp.ctx)
        if ok:
            ck.holds('C02.R3', f, 'return-compares-own-ticket', rp.n, 'return value contains notified >= own ticket')
        else:
            ck.violation('C02.R3', f, 'return-compares-own-ticket', rp.n,
                         'a return of the flush entry is neither false nor the comparison of the notified counter with this call\'s own ticket')
    if n_ret == 0:
        raise AnalysisBroken('%s: no return in flush entry' % roles.short)


def flush_layers(prog):
    out = []
    for f in prog.funcs.values():
        if f.name in FLUSH_NAMES and f.cls and f.cls.startswith('opentelemetry::sdk::') and not f.d.get('lambda'):
            out.append(f)
    return out


def rule_r4(ck, prog, f, rule='C02.R4', child_names=FLUSH_NAMES):
    """AGG: after a child flush returned false the function cannot return true"""
    g = Graph(prog, f, inline=None, sync_lambdas=False)

    def is_child(p):
        n = p.n
        return (n is not None and n['k'] == 'call' and p.ctx is g.root_ctx and
                strip_targs(n.get('c', '') or '').rsplit('::', 1)[-1] in child_names and n.get('t') == 'bool')
    children = [p for p in g.points if is_child(p)]
    cnt = 0
    for cp in children:
        cnt += 1
        callee = strip_targs(cp.n.get('c', '')).split('::')
        site = 'child:%s' % '::'.join(callee[-2:])
        bad = explore_false_child(g, cp, is_child)
        if bad:
            rp, v, path = bad[0]
            ck.violation(rule, f, site, cp.n,
                         'after this child call returned false the function can still return %s' %
                         ('true' if v is True else 'a value that is not definitely false'),
                         path=g.describe_path(path))
        else:
            ck.holds(rule, f, site, cp.n, 'false child result forces a false return on every path')
    return cnt


def rule_r12(ck, prog, roles, rule='C02.R12'):
    """the worker only leaves its loop on shutdown after the queue has been observed empty: every path from the edge on which the
    shutdown latch reads true to the return of the thread entry passes an emptiness observation of the queue (the drain loop)"""
    for t in sorted(roles.thread_entries):
        tf = prog.funcs[t]
        g = Graph(prog, tf, inline=same_class_inline(prog, roles.cls), max_depth=5)
        rd = reaching_defs(g)
        if not g.calls(EXPORTER_EXPORT):
            continue

        def latch_true(a, b, lab):
            if not lab or not isinstance(lab[0], int):
                return False
            core, pol = norm_cond(lab[1], lab[0])
            for (sf, sn, sc) in origins(g, rd, lab[1], core, a.ctx):
                for j in sf.subtree(sn['i']):
                    m = sf.nodes[j]
                    o = atomic_op(m)
                    if o and o[0] == 'load' and path_str(access_path(sf, m['obj'], sc)) == roles.latch:
                        return (lab[2] if pol else not lab[2]) is True
            return False

        def queue_empty(a, b, lab):
            if not lab or not isinstance(lab[0], int):
                return False
            core, pol = norm_cond(lab[1], lab[0])
            truth = lab[2] if pol else (not lab[2])
            cn = strip_casts(lab[1], core)
            if cn['k'] == 'call' and strip_targs(cn.get('c', '')).endswith('CircularBuffer::empty'):
                return truth is True
            c = comparison(lab[1], core)
            if c and c[0] in ('==', '!=') and strip_casts(lab[1], c[2]).get('v') == 0:
                for (sf, sn, sc) in origins(g, rd, lab[1], c[1], a.ctx):
                    for j in sf.subtree(sn['i']):
                        m = sf.nodes[j]
                        if m['k'] == 'call' and strip_targs(m.get('c', '')).endswith('CircularBuffer::size'):
                            return truth is (c[0] == '==')
            return False
        starts = []
        for p in g.points:
            if p.ctx is not g.root_ctx:
                continue
            for (q, lab) in p.succ:
                if latch_true(p, q, lab):
                    starts.append(q)
        if not starts:
            ck.violation(rule, tf, 'worker-exit-drains', None, 'the worker loop never tests the shutdown latch')
            continue
        r = g.reachable_from(starts, avoid_edges=queue_empty)
        # leaving the function without having seen the queue empty; the loop's own back edge is not an exit
        bad = g.exit.id in r
        ck.verdict(not bad, rule, tf, 'worker-exit-drains', starts[0].n,
                   'after shutdown was observed the worker returns only behind an emptiness observation of the queue (drain)' if not bad else
                   'after observing shutdown the worker can return without having seen the queue empty: a record queued after the last export and before the Shutdown request is never exported',
                   path=None if not bad else g.describe_path(g.path(starts[0], g.exit, avoid_edges=queue_empty) or []))


def rule_r13(ck, prog, rule='C02.R13', providers=('sdk::trace::TracerProvider', 'sdk::logs::LoggerProvider', 'sdk::metrics::MeterProvider')):
    """shutdown by destruction: the provider's destructor shuts its context down (drains the processors) on every path on which the
    context exists - before the members, and with them the tracers / loggers whose scopes queued records point to, are destroyed"""
    for cls in providers:
        rec = prog.record(cls)
        ds = [x for x in prog.funcs.values() if x.cls == rec['qn'] and x.kind == 'dtor']
        if not ds or not ds[0].blocks:
            ck.violation(rule, type('R', (), {'qn': rec['qn'], 'loc': lambda self, n=None: rec['file'].replace('/repo/', '') + ':%d' % rec['line']})(), 'destructor-shuts-context-down', None,
                         '%s has no user-written destructor: destroying the provider no longer drains and shuts down its processors' % cls.rsplit('::', 1)[-1])
            continue
        f = ds[0]
        # (the destructor may go through the provider's own non-virtual Shutdown(): members of the same class are inlined)
        g = Graph(prog, f, inline=same_class_inline(prog, rec['qn']), sync_lambdas=False, max_depth=2)
        sh = [p for p in g.points if p.n is not None and p.n['k'] == 'call' and strip_targs(p.n.get('c', '')).rsplit('::', 1)[-1] == 'Shutdown' and
              p.n.get('obj') is not None and 'context' in path_str(access_path(p.f, p.n['obj'], p.ctx)).lower()]

        def null_ctx(a, b, lab):
            if not lab or not isinstance(lab[0], int):
                return False
            core, pol = norm_cond(lab[1], lab[0])
            ap = access_path(lab[1], core, a.ctx)
            return len(ap) == 2 and ap[0] == 'this' and 'context' in ap[1].lower() and (lab[2] if pol else not lab[2]) is False
        ok = bool(sh) and g.exit.id not in g.reachable_from(g.entry, avoid=sh, avoid_edges=null_ctx)
        ck.verdict(ok, rule, f, 'destructor-shuts-context-down', sh[0].n if sh else None,
                   'the destructor calls Shutdown() on the context on every path on which the context exists' if ok else
                   '%s can be destroyed without its context having been shut down: records still queued in a batch processor are exported (if at all) after the tracers / loggers that own their instrumentation scopes are gone' % cls.rsplit('::', 1)[-1])


FANOUT_NAMES = ('ForceFlush', 'Shutdown')


def rule_r10(ck, prog, rule='C02.R10', prefix='opentelemetry::sdk::'):
    """FANOUT: a layer that forwards ForceFlush/Shutdown to a list of children visits every child: each iteration of the loop
    makes the child call (no short-circuit, no condition, no continue in front of it) and the loop is not left early."""
    from .common import loop_visits_every_element
    cnt = 0
    for f in sorted(prog.funcs.values(), key=lambda x: x.qn):
        if f.name not in FANOUT_NAMES or not f.cls or not f.cls.startswith(prefix) or f.d.get('lambda'):
            continue
        loops = [n for n in f.nodes if n['k'] in ('forrange', 'while', 'for')]
        if not loops:
            continue
        g = None
        for lp in loops:
            body = set(f.subtree(lp['body']))
            calls = [n for i in body for n in [f.nodes[i]] if n['k'] == 'call' and strip_targs(n.get('c', '') or '').rsplit('::', 1)[-1] == f.name
                     and n.get('obj') is not None]
            if not calls:
                continue
            if g is None:
                g = Graph(prog, f, inline=None, sync_lambdas=False)
            pts = [p for p in g.points if p.f is f and p.ctx is g.root_ctx and any(p.n is c for c in calls)]
            why = loop_visits_every_element(g, f, lp, pts)
            cnt += 1
            if why is None and f.name in FLUSH_NAMES:
                # a flush layer may only report success after the fan-out: a return that can be true must pass the loop header
                header = [p for p in g.points if p.f is f and p.ctx is g.root_ctx and p.n is not None and
                          p.n['i'] in (set(f.subtree(lp['i'])) - set(f.subtree(lp['body'])))]
                r0 = g.reachable_from(g.entry, avoid=header)
                early = [rp for rp in g.returns() if rp.id in r0 and rp.ctx is g.root_ctx and
                         not (strip_casts(f, rp.n['e'])['k'] == 'lit' and not strip_casts(f, rp.n['e']).get('v'))]
                if early:
                    why = 'the function can return a value other than false without having entered the loop over its children (early return)'
            site = 'fanout:%s::%s' % (strip_targs(f.cls).rsplit('::', 1)[-1], f.name)
            ck.verdict(why is None, rule, f, site, calls[0], 'every child gets %s in every iteration; the loop runs to the end of the list' % f.name if why is None else
                       '%s — a child that comes later in the list is never %s' % (why, 'flushed' if f.name == 'ForceFlush' else 'shut down: its exporter keeps its queue and is never shut down'))
    return cnt


def _rmw_guard_edge(g, rd, first_caller=True):
    """edge predicate: branch condition originates from an atomic exchange(true)/test_and_set() and the
    edge is the one taken by the caller that found the latch clear"""
    def pred(a, b, lab):
        if not lab or not isinstance(lab[0], int):
            return False
        f = lab[1]
        core, pol = norm_cond(f, lab[0])
        truth = lab[2] if pol else (not lab[2])      # truth value of `core` along this edge
        for (sf, sn, sctx) in origins(g, rd, f, core, a.ctx):
            o = atomic_op(sn)
            if o and o[1] in ('exchange', 'test_and_set'):
                return truth is False
        return False
    return pred


def _load_guard_edge(g, rd, latch):
    def pred(a, b, lab):
        if not lab or not isinstance(lab[0], int):
            return False
        f = lab[1]
        core, pol = norm_cond(f, lab[0])
        for (sf, sn, sctx) in origins(g, rd, f, core, a.ctx):
            o = atomic_op(sn)
            if o and o[0] == 'load':
                return True
            if sn['k'] == 'call' and strip_targs(sn.get('c', '')).rsplit('::', 1)[-1] in ('IsShutdown',):
                return True
        return False
    return pred


def rule_r5(ck, prog, cls_suffix, target=EXPORTER_SHUTDOWN, method='Shutdown', target_desc='exporter Shutdown'):
    rec = prog.record(cls_suffix)
    fs = [f for f in prog.funcs.values() if f.cls == rec['qn'] and f.name == method]
    if not fs:
        raise AnalysisBroken('%s::%s vanished' % (cls_suffix, method))
    f = fs[0]
    g = Graph(prog, f, inline=same_class_inline(prog, rec['qn']), max_depth=2, sync_lambdas=False)
    rd = reaching_defs(g)
    tps = g.calls(target)
    if not tps:
        raise AnalysisBroken('%s::%s: no %s call' % (cls_suffix, method, target_desc))
    for tp in tps:
        site = 'once:%s' % strip_targs(tp.n.get('c', '')).rsplit('::', 2)[-2]
        if g.must_pass_edge(tp, _rmw_guard_edge(g, rd)):
            ck.holds('C02.R5', f, site, tp.n, '%s is guarded by the first-caller outcome of an atomic read-modify-write' % target_desc)
        else:
            if g.must_pass_edge(tp, _load_guard_edge(g, rd, None)):
                why = 'is guarded only by a separate load of the latch (check-then-act): two racing callers can both pass'
            else:
                why = 'is not guarded by the latch at all'
            ck.violation('C02.R5', f, site, tp.n, '%s %s' % (target_desc, why),
                         path=g.describe_path(g.path(g.entry, tp, avoid_edges=_rmw_guard_edge(g, rd)) or []))


from .common import no_thread_edge as _joinable_false   # the "there is no thread" outcome of a test of the thread handle


def rule_r6_join(ck, prog, roles, batch=True):
    f = roles.shutdown
    g = Graph(prog, f, inline=same_class_inline(prog, roles.cls), max_depth=2, sync_lambdas=False)
    joins = g.calls('std::thread::join')
    if batch:
        tps = g.calls(EXPORTER_SHUTDOWN)
        if not tps:
            raise AnalysisBroken('%s::Shutdown: exporter Shutdown call vanished' % roles.short)
        for tp in tps:
            r = g.reachable_from(g.entry, avoid=joins, avoid_edges=_joinable_false)
            if tp.id in r:
                ck.violation('C02.R6', f, 'join-before-exporter-shutdown', tp.n,
                             'the exporter can be shut down while the worker thread has not been joined (an Export may still be running or follow)',
                             path=g.describe_path(g.path(g.entry, tp, avoid=joins, avoid_edges=_joinable_false) or []))
            else:
                ck.holds('C02.R6', f, 'join-before-exporter-shutdown', tp.n, 'worker join dominates exporter Shutdown')
        # every caller (also a second, concurrent one) must have the worker joined before Shutdown returns, and the
        # join / joinable test must be serialised by a mutex of the object
        r = g.reachable_from(g.entry, avoid=joins, avoid_edges=_joinable_false)
        if g.exit.id in r:
            ck.violation('C02.R6', f, 'join-before-every-return', None,
                         'a path through Shutdown returns without the worker having been joined (e.g. a fast path for later callers): Shutdown can return while an Export is still running or yet to come',
                         path=g.describe_path(g.path(g.entry, g.exit, avoid=joins, avoid_edges=_joinable_false) or []))
        else:
            ck.holds('C02.R6', f, 'join-before-every-return', joins[0].n if joins else None, 'every return of Shutdown is behind the join')
        held = held_locks(g)
        for j in joins:
            locks = [l for l in held.get(j.id, ()) if l.startswith('this.')]
            if locks:
                ck.holds('C02.R6', f, 'join-serialised', j.n, 'join executed holding %s' % locks[0])
            else:
                ck.violation('C02.R6', f, 'join-serialised', j.n,
                             'the worker join is not serialised by a mutex of the processor: two concurrent Shutdown callers race on joinable()/join()')
    else:
        r = g.reachable_from(g.entry, avoid=joins, avoid_edges=_joinable_false)
        rets = [p for p in g.returns()]
        bad = [p for p in rets if p.id in r]
        if bad or not joins:
            ck.violation('C02.R6', f, 'join-before-return', (bad[0].n if bad else None),
                         'OnShutDown can return without joining the worker thread: an Export may follow Shutdown')
        else:
            ck.holds('C02.R6', f, 'join-before-return', joins[0].n, 'worker joined on every path before OnShutDown returns')


def rule_r7(ck, prog, roles, methods):
    if not roles.latch:
        raise AnalysisBroken('%s: shutdown latch not found' % roles.short)
    for mname in methods:
        fs = [f for f in roles.funcs if f.cls == roles.cls and f.name == mname]
        if not fs:
            raise AnalysisBroken('%s::%s vanished' % (roles.short, mname))
        f = fs[0]
        g = Graph(prog, f, inline=same_class_inline(prog, roles.cls), max_depth=2, sync_lambdas=False)
        rd = reaching_defs(g)

        def not_shutdown_edge(a, b, lab):
            if not lab or not isinstance(lab[0], int):
                return False
            ff = lab[1]
            core, pol = norm_cond(ff, lab[0])
            truth = lab[2] if pol else (not lab[2])
            for (sf, sn, sctx) in origins(g, rd, ff, core, a.ctx):
                o = atomic_op(sn)
                if o and o[0] == 'load' and path_str(access_path(sf, sn['obj'], sctx)) == roles.latch:
                    return truth is False
            return False
        targets = []
        for p in g.points:
            if p.n is None or p.n['k'] not in ('call', 'construct') or p.ctx is not g.root_ctx:
                continue
            c = strip_targs(p.n.get('c', '') or '')
            o = atomic_op(p.n)
            if qmatch(c, 'CircularBuffer::Add') or (o and o[0] in ('rmw', 'store')) or \
               c.startswith('std::condition_variable::') or c.startswith('std::unique_lock::unique_lock') or \
               c.startswith('std::lock_guard::lock_guard'):
                targets.append(p)
        if not targets:
            raise AnalysisBroken('%s::%s: no effectful event found' % (roles.short, mname))
        # decided by pinning: with every load of the shutdown latch pinned to "shut down" no effectful event is reachable (combined
        # guards such as `if (shut_down || !Add(...)) return;`, named results and early returns are folded by the path explorer)
        def latch_load(ff, cn):
            o = atomic_op(cn)
            return bool(o) and o[0] == 'load' and cn.get('obj') is not None and path_str(access_path(ff, cn['obj'])) == roles.latch
        holds, _path, n_gates = gated_by(g, targets, latch_load, value=False)
        bad = [] if holds else [p for p in targets if not gated_by(g, [p], latch_load, value=False)[0]]
        if bad:
            p = bad[0]
            ck.violation('C02.R7', f, 'gate-first', p.n,
                         'after Shutdown %s can still reach %s: the shutdown gate does not dominate it' %
                         (mname, strip_targs(p.n.get('c', ''))),
                         path=g.describe_path(g.path(g.entry, p, avoid_edges=not_shutdown_edge) or []))
        else:
            ck.holds('C02.R7', f, 'gate-first', targets[0].n, '%d effectful events all behind the not-shut-down edge' % len(targets))


def rule_r8(ck, prog, roles):
    for f in roles.funcs:
        for n in f.nodes:
            if n['k'] != 'call':
                continue
            c = strip_targs(n.get('c', '') or '')
            if c in ('std::condition_variable::wait', 'std::condition_variable_any::wait'):
                ck.violation('C02.R8', f, 'untimed-wait', n,
                             'untimed condition_variable::wait: notifiers do not hold the waiter\'s mutex, so a lost notification hangs the caller')
            elif c.startswith('std::condition_variable::wait_') or c.startswith('std::condition_variable_any::wait_'):
                ck.holds('C02.R8', f, 'timed-wait', n, c)
            elif c in ('std::future::wait', 'std::__basic_future::wait', 'std::future::get'):
                ck.violation('C02.R8', f, 'untimed-wait', n, 'untimed future wait')


def rule_r6_no_detach(ck, prog, roles, rule='C02.R6'):
    """no thread of a class that drives an exporter is ever detached: Shutdown joins what it started, and a detached thread can
    still call the exporter after Shutdown has returned"""
    hits = [(f, n) for f in roles.funcs for n in f.nodes if n['k'] == 'call' and strip_targs(n.get('c', '') or '') == 'std::thread::detach']
    ck.verdict(not hits, rule, hits[0][0] if hits else roles.funcs[0], 'no-detached-thread:%s' % roles.short, hits[0][1] if hits else None,
               'no thread is detached' if not hits else
               '%s detaches a thread: it is not joined by Shutdown and can call the exporter after Shutdown (or the cycle that started it) has returned' % roles.short)


def run(ck, prog):
    ck.doc('C02.R1', 'worker cycle: pending flush ticket is loaded before every queue snapshot of the same iteration', 5)
    ck.doc('C02.R2', 'publication of the notified counter: value from the ticket load read before the snapshot; after Export; after exporter ForceFlush', 10)
    ck.doc('C02.R3', 'every return of the public flush entry is false or notified >= own ticket', 5)
    ck.doc('C02.R4', 'every flush layer: a false child result forces a false return on every feasible path', 12)
    ck.doc('C02.R5', 'exporter/child Shutdown guarded by the first-caller outcome of an atomic read-modify-write', 5)
    ck.doc('C02.R6', 'worker joined before exporter Shutdown; exporter calls only from the worker; periodic OnShutDown joins; no thread is detached', 15)
    ck.doc('C02.R7', 'batch OnEnd/OnEmit/ForceFlush: shutdown gate dominates every effectful event', 4)
    ck.doc('C02.R8', 'every condition-variable wait in these classes is timed', 5)
    ck.doc('C02.R9', 'after the exporter flush the ticket publication follows on every path (necessary for termination)', 2)
    ck.doc('C02.R10', 'ForceFlush/Shutdown fan-out: every child is visited in every iteration, the loop is not left early, no success before the loop', 6)
    ck.doc('C02.R11', 'a pending ticket is published only when the whole snapshot was consumed (whole-size count, or a nothing-left edge)', 2)
    ck.doc('C02.R13', 'shutdown by destruction: every provider destructor shuts its context down', 3)
    ck.doc('C02.R12', 'after observing shutdown the worker returns only behind an emptiness observation of the queue', 2)
    cg = CallGraph(prog)

    # ---- canaries
    with ck.canary('C02.R10'):
        rule_r10(ck, prog, prefix='canary::c02::')
    cb = Roles(prog, 'canary::c02::BadBatch', cg=cg)
    with ck.canary('C02.R1'):
        rule_r1_r2(ck, prog, cg, cb)
    with ck.canary('C02.R2'):
        rule_r1_r2(ck, prog, cg, cb)
    with ck.canary('C02.R3'):
        rule_r3(ck, prog, cb, 'this.notified_')
    with ck.canary('C02.R4'):
        rule_r4(ck, prog, prog.function('canary::c02::BadMulti::ForceFlush'))
    with ck.canary('C02.R5'):
        rule_r5(ck, prog, 'canary::c02::BadBatch')
    with ck.canary('C02.R6'):
        rule_r6_join(ck, prog, cb)
    with ck.canary('C02.R7'):
        rule_r7(ck, prog, cb, ['OnEnd'])
    with ck.canary('C02.R8'):
        rule_r8(ck, prog, cb)
    with ck.canary('C02.R9'):
        rule_r1_r2(ck, prog, cg, Roles(prog, 'canary::c02::BadBatch2', cg=cg))

    # ---- the real thing
    for cls, producer in (('sdk::trace::BatchSpanProcessor', 'OnEnd'), ('sdk::logs::BatchLogRecordProcessor', 'OnEmit')):
        roles = Roles(prog, cls, cg=cg)
        notified = rule_r1_r2(ck, prog, cg, roles)
        rule_r3(ck, prog, roles, notified)
        rule_r5(ck, prog, cls)
        rule_r6_join(ck, prog, roles)
        rule_r6_no_detach(ck, prog, roles)
        c03.rule_r2(ck, prog, cg, roles, rule='C02.R6', which=EXPORTER_EXPORT + EXPORTER_FLUSH, what='Export/ForceFlush')
        rule_r7(ck, prog, roles, [producer, 'ForceFlush'])
        rule_r8(ck, prog, roles)
        rule_r12(ck, prog, roles)
    pr = Roles(prog, 'sdk::metrics::PeriodicExportingMetricReader', flush_method='OnForceFlush',
               shutdown_method='OnShutDown', cg=cg)
    notified = rule_r1_r2(ck, prog, cg, pr, batch=False)
    rule_r3(ck, prog, pr, notified)
    rule_r6_join(ck, prog, pr, batch=False)
    rule_r6_no_detach(ck, prog, pr)
    c03.rule_r2(ck, prog, cg, pr, rule='C02.R6', which=EXPORTER_EXPORT, what='Export')
    rule_r8(ck, prog, pr)
    rule_r5(ck, prog, 'sdk::trace::SimpleSpanProcessor')
    rule_r5(ck, prog, 'sdk::logs::SimpleLogRecordProcessor')
    rule_r5(ck, prog, 'sdk::metrics::MeterContext', target=('MetricCollector::Shutdown', 'MetricReader::Shutdown'),
            target_desc='collector Shutdown')
    rule_r10(ck, prog)
    rule_r13(ck, prog)
    layers = flush_layers(prog)
    n = 0
    for f in sorted(layers, key=lambda x: x.qn):
        n += rule_r4(ck, prog, f)
    return {'flush_layers': [strip_targs(f.qn) for f in layers]}
