"""C16 - B3 and Jaeger propagation round-trip identity and the sampling decision (structural part)."""
from ..ir import AnalysisBroken, strip_targs, qmatch
from ..graph import Graph
from ..expr import access_path, path_str, reaching_defs, norm_cond, origins, leaves, defs_in_node
from ..linear import linear, relation, fmt
from ..charclass import byteset, describe
from .common import strip_casts, short, comparison, once_init, FLIP, gated_by, scenario_sources, same_class_inline
from . import c09

UNITS = []
DRIVERS = ['propagators.cc']
CANARIES = ['c16_canary.cc']

EXPLANATION = (
    'C16.R1 (dependence): in each of the three injectors the byte written to the sampling field is IsSampled() ? \'1\' : \'0\' '
    'and nothing in the injector reads the whole flags byte; on the extract side Jaeger masks the flags with exactly 0x01 and '
    'B3 maps the field to sampled exactly for a one-character field in {\'1\',\'d\'} (byte set over all 256 values). C16.R2 '
    '(constant bounds): the writes into the 51-byte (B3 single) and 54-byte (Jaeger) buffers are constant-bounded, partition the '
    'buffer exactly and carry the separators at the documented offsets. C16.R3 (dominance / restricted reaching definitions): '
    'all three Extract functions install only IsValid() contexts and otherwise return the caller\'s context; the B3 multi headers '
    'are read only on the empty-single-header edge, and on the single-header edge the three fields come from the split single '
    'header only (precedence of the single header); every HexToBinary result in the Jaeger extractor is checked and the B3 ids '
    'are behind IsValid(); the shared hex lookup is bounded (C09.R3).')
EXPLANATION += " C16.R1 also requires that no branch on the B3 sampling field cuts off the success return (the debug flag 'd' never invalidates the header). C16.R3 (cooperating sites): a caller that ignores HexToBinary's result is accepted only while every return of HexToBinary is behind a memset of the whole buffer."
ROUND2_EXPLANATION = (' C16.R5: no Inject / Extract / helper of the B3 and Jaeger propagators calls RuntimeContext; every GetSpan in Inject receives the context parameter; Extract uses its context parameter (or a local copy) only in SetSpan / SetValue and return. Shared C09.R9: id block operations cover the whole id.')
ROUND2_EXPLANATION += (' C16.R6: every SpanContext an extractor builds from header data has is_remote = true, and its trace id / span id / flags are decoded (dependence through locals, decode helpers, output buffers and control-dependent flag helpers) from the documented field or header of the wire format (table FIELD_TABLE: Jaeger fields 0 / 1 / 3; B3 single fields 0 / 1 / 2 and the X-B3-* headers, compared by header text); helpers that fill text out-parameters and table-driven decoding end undecided.')
EXPLANATION += ROUND2_EXPLANATION
NOT_DECIDED = 'robustness of HexToBinary\'s variable-index writes on arbitrary bytes; acceptance of every documented variant over all inputs.'

INJECTORS = (('trace::propagation::B3Propagator::Inject', 50), ('trace::propagation::B3PropagatorMultiHeader::Inject', None),
             ('trace::propagation::JaegerPropagator::Inject', 53))


def rule_r1(ck, prog, rule='C16.R1', injectors=INJECTORS):
    for fname, pos in injectors:
        f = prog.function(fname)
        whole = [n for n in f.nodes if n['k'] == 'call' and strip_targs(n.get('c', '')) in
                 ('opentelemetry::trace::TraceFlags::ToLowerBase16', 'opentelemetry::trace::TraceFlags::flags')]
        # the value that reaches the sampling field, per scenario IsSampled() = true / false (conditional expressions, if/else,
        # named locals and private helper functions are resolved by the scenario analysis)
        g = Graph(prog, f, inline=lambda caller, call, callee, depth: callee.qn.startswith(('opentelemetry::trace::propagation::', 'canary::c16::')) and not call.get('virt'),
                  sync_lambdas=False, max_depth=2)
        sink = None
        sinks = []       # every store into the sampling position (several when the value is chosen by if/else)
        if pos is not None:
            alias = {}   # `char *const p = &buf[K]` -> K
            for m in f.nodes:
                if m['k'] == 'declstmt':
                    for d in m['decls']:
                        if d.get('init') is not None and d['init'] >= 0 and d['t'].replace('const', '').replace(' ', '') == 'char*':
                            a_ = strip_casts(f, d['init'])
                            if a_['k'] == 'unop' and a_['op'] == '&' and strip_casts(f, a_['e'])['k'] == 'subscript' and \
                                    f.nodes[strip_casts(f, a_['e'])['index']].get('v') is not None:
                                alias[d['id']] = f.nodes[strip_casts(f, a_['e'])['index']]['v']
            for n in f.nodes:
                if n['k'] == 'binop' and n['op'] == '=' and f.nodes[n['lhs']]['k'] == 'subscript':
                    sb = f.nodes[n['lhs']]
                    iv = f.nodes[sb['index']].get('v')
                    off = alias.get(strip_casts(f, sb['base']).get('id'), 0)
                    if iv is not None and iv + off == pos:
                        sinks.append(n)
            if sinks:
                sink = sinks[0]['rhs']
        else:
            for n in f.nodes:
                if n['k'] == 'call' and n.get('virt') and strip_targs(n.get('c', '')).endswith('TextMapCarrier::Set') and len(n.get('args', [])) == 2 and \
                        any(f.nodes[k]['k'] == 'ref' and 'Sampled' in f.nodes[k].get('name', '') for k in f.subtree(n['args'][0])):
                    refs = [k for k in f.subtree(n['args'][1]) if f.nodes[k]['k'] == 'ref' and f.nodes[k].get('sk') == 'local']
                    sink = refs[0] if refs else n['args'][1]
        if sink is None:
            # canary / unknown layout: any conditional expression that selects the field value
            conds = [n for n in f.nodes if n['k'] == 'cond']
            sink = conds[0]['i'] if conds else None

        def atom_role(ff, cnd, ctx):
            core, pol = norm_cond(ff, cnd)
            cn = strip_casts(ff, core)
            if cn['k'] == 'call' and strip_targs(cn.get('c', '')).rsplit('::', 1)[-1] == 'IsSampled':
                return 'sampled', pol
            return None, pol

        def classify(ff, n, ctx):
            if n['k'] == 'lit' and 'v' in n:
                return 'lit:%d' % n['v']
            return None
        ok = not whole and sink is not None
        why = 'the injector reads the whole flags byte (%s)' % strip_targs(whole[0]['c']).rsplit('::', 1)[-1] if whole else 'the value written to the sampling field was not found'
        if ok and len(sinks) > 1:
            # the stores are alternatives: per scenario, the values of the stores that are feasible with IsSampled() pinned
            from ..symb import feasible_reach
            from .common import call_pins
            is_s = lambda ff, cn: strip_targs(cn.get('c', '')).rsplit('::', 1)[-1] == 'IsSampled'
            got = {}
            for sc_ in (True, False):
                vals = set()
                for n in sinks:
                    pt = g.point_of.get((id(g.root_ctx), n['i']))
                    if pt is not None and feasible_reach(g, [g.entry], [pt], pins=call_pins(g, is_s, sc_)) is not None:
                        vals |= scenario_sources(g, f, n['rhs'], g.root_ctx, {'sampled': sc_}, atom_role, classify)
                got[sc_] = vals
            got_t, got_f = got[True], got[False]
            ok = got_t == {'lit:%d' % ord('1')} and got_f == {'lit:%d' % ord('0')}
            why = 'the sampling field is not IsSampled() ? \'1\' : \'0\' (sampled: %s, not sampled: %s)' % (sorted(got_t), sorted(got_f))
        elif ok:
            got_t = scenario_sources(g, f, sink, g.root_ctx, {'sampled': True}, atom_role, classify)
            got_f = scenario_sources(g, f, sink, g.root_ctx, {'sampled': False}, atom_role, classify)
            ok = got_t == {'lit:%d' % ord('1')} and got_f == {'lit:%d' % ord('0')}
            why = 'the sampling field is not IsSampled() ? \'1\' : \'0\' (sampled: %s, not sampled: %s)' % (sorted(got_t), sorted(got_f))
        ck.verdict(ok, rule, f, 'sampled-field-from-decision', (whole or [f.nodes[sink] if sink is not None else None])[0],
                   'sampling field = IsSampled() ? 1 : 0' if ok else
                   '%s: %s: a context with other flag bits set is injected with a sampling value the extractor does not read back as the same decision' % (short(f), why))
    # extract side
    # the flags of the context the Jaeger extractor builds are (decoded flags & 0x01), wherever that is computed (a private helper
    # such as GetTraceFlags is inlined): follow the third constructor argument of the success return to its source
    f = prog.function('trace::propagation::JaegerPropagator::ExtractImpl')
    g = Graph(prog, f, inline=same_class_inline(prog, f.cls), sync_lambdas=False, max_depth=2)
    rd = reaching_defs(g)
    succ = [p for p in g.points if p.n is not None and p.ctx is g.root_ctx and p.n['k'] == 'construct' and strip_targs(p.n.get('c', '')).endswith('SpanContext::SpanContext') and len(p.n.get('args', [])) >= 4]
    ok = len(succ) == 1
    mask_node = None
    if ok:
        def mask_sources(ff, idx, ctx, depth=0):
            """(func, node) of the bit-level expressions the flags value is computed from, through conversions into TraceFlags"""
            out = []
            for (sf, sn, sc) in origins(g, rd, ff, idx, ctx):
                a1 = [a for a in sn.get('args', []) if a is not None and a >= 0] if sn['k'] in ('construct', 'call') else []
                if sn['k'] == 'construct' and len(a1) == 1 and depth < 5:
                    out += mask_sources(sf, a1[0], sc, depth + 1)
                else:
                    out.append((sf, sn))
            return out
        srcs = mask_sources(f, succ[0].n['args'][2], g.root_ctx)
        ok = len(srcs) == 1
        if ok:
            sf, sn = srcs[0]
            mask_node = sn
            ok = sn['k'] == 'binop' and sn['op'] == '&' and (strip_casts(sf, sn['rhs']).get('v') == 1 or strip_casts(sf, sn['lhs']).get('v') == 1)
    ck.verdict(ok, rule, f, 'jaeger-mask', mask_node or (succ[0].n if succ else None), 'flags & 0x01' if ok else
               'the Jaeger extractor does not derive the sampled flag as (flags & 0x01): other bits (e.g. the debug bit) turn into a sampled decision')
    f = prog.function('trace::propagation::B3PropagatorExtractor::TraceFlagsFromHex')
    g = Graph(prog, f, inline=None, sync_lambdas=False)
    rd = reaching_defs(g)
    rets = g.returns()
    sampled = {r.n['i'] for r in rets if any(f.nodes[i].get('v') == 1 and f.nodes[i]['k'] in ('ref', 'lit', 'member') for i in f.subtree(r.n['e']))}
    subj = lambda i: f.nodes[i]['k'] == 'call' and f.nodes[i].get('op') == '[]' and f.nodes[i].get('args') and f.nodes[f.nodes[i]['args'][0]].get('v') == 0
    # exhaustive table: for every length class (0, 1, 2) and every value of the first byte the comparisons of the function are
    # evaluated concretely (pinned) and the feasible returns are collected: sampled <=> exactly one character, '1' or 'd'
    from ..symb import explore_pinned
    import operator
    OPS = {'==': operator.eq, '!=': operator.ne, '<': operator.lt, '<=': operator.le, '>': operator.gt, '>=': operator.ge}
    cmps = []
    for n in f.nodes:
        c = comparison(f, n['i'])
        if not c:
            continue
        op, l, r = c
        ln, rn = strip_casts(f, l), strip_casts(f, r)
        if 'v' in ln and 'v' not in rn:
            op, l, r, ln, rn = FLIP[op], r, l, rn, ln
        if 'v' not in rn:
            continue
        if subj(ln['i']):
            cmps.append((n['i'], 'byte', op, rn['v']))
        elif ln['k'] == 'call' and strip_targs(ln.get('c', '')).rsplit('::', 1)[-1] in ('length', 'size') and ln.get('obj') is not None and \
                strip_casts(f, ln['obj']).get('id') == f.params[0]['id']:
            cmps.append((n['i'], 'len', op, rn['v']))
        elif ln['k'] == 'call' and strip_targs(ln.get('c', '')).rsplit('::', 1)[-1] == 'empty':
            pass
    accept = set()
    open_cases = []
    for length in (0, 1, 2):
        for b in range(256):
            pins = {ni: OPS[op](b if kind == 'byte' else length, v) for (ni, kind, op, v) in cmps}
            for n in f.nodes:
                if n['k'] == 'call' and strip_targs(n.get('c', '')).rsplit('::', 1)[-1] == 'empty' and n.get('obj') is not None and strip_casts(f, n['obj']).get('id') == f.params[0]['id']:
                    pins[n['i']] = (length == 0)
            rets_, _ = explore_pinned(g, pins)
            outs = {ri in sampled for (ri, _v, _e) in rets_ if ri is not None}
            if outs == {True}:
                accept.add((length, b))
            elif outs != {False}:
                open_cases.append((length, b))
    want_acc = {(1, ord('1')), (1, ord('d'))}
    ok = bool(cmps) and accept == want_acc and not open_cases
    got = sorted(accept)[:6]
    ck.verdict(ok, rule, f, 'b3-sampled-values', rets[0].n if rets else None, "sampled <=> exactly one character, '1' or 'd' (768-row table over length class x first byte)" if ok else
               'B3 maps the sampling field to sampled for (length, first byte) in %s%s: documented is exactly one character, \'1\' or \'d\'' %
               ([(l_, chr(b_) if 32 <= b_ < 127 else b_) for (l_, b_) in got], ' (undecided for %d cases)' % len(open_cases) if open_cases else ''))


def rule_r3(ck, prog, rule='C16.R3'):
    for cls in ('trace::propagation::B3PropagatorExtractor', 'trace::propagation::JaegerPropagator'):
        f = prog.function(cls + '::Extract')
        g = Graph(prog, f, inline=None, sync_lambdas=False)

        def valid_edge(a, b, lab):
            if not lab or not isinstance(lab[0], int):
                return False
            core, pol = norm_cond(lab[1], lab[0])
            cn = lab[1].nodes[core]
            if cn['k'] == 'call' and strip_targs(cn.get('c', '')).endswith('SpanContext::IsValid'):
                return (lab[2] if pol else not lab[2]) is True
            return False
        sets = g.calls('trace::SetSpan')
        ok = bool(sets) and gated_by(g, sets, lambda ff, cn: strip_targs(cn.get('c', '')).endswith('SpanContext::IsValid'))[0]
        ck.verdict(ok, rule, f, 'install-only-valid', sets[0].n if sets else None, 'SetSpan only behind IsValid()' if ok else 'an invalid extracted context can be installed')
        other = [r for r in g.returns() if not any(f.nodes[i]['k'] == 'call' and strip_targs(f.nodes[i].get('c', '')).endswith('trace::SetSpan') for i in f.subtree(r.n['e']))]
        ok = bool(other) and all(strip_casts(f, r.n['e']).get('id') == f.params[1]['id'] for r in other)
        ck.verdict(ok, rule, f, 'otherwise-callers-context', other[0].n if other else None, 'otherwise the caller\'s context' if ok else 'on failure Extract does not return the caller\'s context')
    # B3 precedence
    f = prog.function('trace::propagation::B3PropagatorExtractor::ExtractImpl')
    g = Graph(prog, f, inline=None, sync_lambdas=False)
    rd = reaching_defs(g)
    gets = [p for p in g.points if p.n is not None and p.n['k'] == 'call' and p.n.get('virt') and strip_targs(p.n.get('c', '')).endswith('TextMapCarrier::Get')]
    single = [p for p in gets if any(f.nodes[i]['k'] == 'ref' and f.nodes[i]['name'] == 'kB3CombinedHeader' for i in f.subtree(p.n['i']))]
    multi = [p for p in gets if p not in single]

    def single_empty(want):
        def pred(a, b, lab):
            if not lab or not isinstance(lab[0], int):
                return False
            core, pol = norm_cond(lab[1], lab[0])
            cn = lab[1].nodes[core]
            if cn['k'] == 'call' and strip_targs(cn.get('c', '')).endswith('string_view::empty') and cn.get('obj') is not None:
                for (sf, sn, sc) in origins(g, rd, f, cn['obj'], a.ctx):
                    if any(sn is s.n for s in single):
                        return (lab[2] if pol else not lab[2]) is want
            return False
        return pred
    ok = len(single) == 1 and len(multi) == 3 and all(g.must_pass_edge(p, single_empty(True)) for p in multi)
    ck.verdict(ok, rule, f, 'multi-headers-only-without-single', (multi or [None])[0].n if multi else None,
               'the three multi headers are read only on the empty-single-header edge' if ok else
               'a B3 multi header is read although a single b3 header is present (or not all three are read): the single header does not take precedence')
    # on the single-header edge every field handed on comes from the split header
    sinks = [p for p in g.points if p.n is not None and p.n['k'] == 'call' and strip_targs(p.n.get('c', '')).rsplit('::', 1)[-1] in ('TraceIdFromHex', 'SpanIdFromHex', 'TraceFlagsFromHex')]
    rds = reaching_defs(g, skip_edge=single_empty(True))
    bad = None
    for s in sinks:
        a = strip_casts(f, s.n['args'][0])
        if a['k'] != 'ref':
            continue
        for (v, d) in rds.get(s.id, ()):
            if v != a['id']:
                continue
            dp = g.points[d]
            val = [vx for (vv, st, vx) in defs_in_node(f, dp.n) if vv == a['id']][0]
            if val is None:
                continue
            from_fields = any(f.nodes[i]['k'] == 'call' and f.nodes[i].get('op') == '[]' and 'array' in strip_targs(f.nodes[i].get('c', '')) for i in f.subtree(val))
            if not from_fields and dp.n['k'] == 'call' and val == dp.n['i'] and dp.n.get('ck') in prog.funcs:
                # written through an out-parameter of a private helper that splits the single header: the helper assigns the
                # parameter from the split fields
                callee = prog.funcs[dp.n['ck']]
                for pi, arg in enumerate(dp.n.get('args', [])):
                    if arg is not None and arg >= 0 and strip_casts(f, arg).get('id') == a['id'] and pi < len(callee.params):
                        cpid = callee.params[pi]['id']
                        asg = [m for m in callee.nodes if (m['k'] == 'binop' and m['op'] == '=' and strip_casts(callee, m['lhs']).get('id') == cpid) or
                               (m['k'] == 'call' and m.get('op') == '=' and m.get('obj') is not None and strip_casts(callee, m['obj']).get('id') == cpid)]
                        rhs = [(m['rhs'] if m['k'] == 'binop' else (m['args'][0] if m.get('args') else None)) for m in asg]
                        if asg and all(r is not None and any(callee.nodes[i]['k'] == 'call' and callee.nodes[i].get('op') == '[]' and 'array' in strip_targs(callee.nodes[i].get('c', ''))
                                                            for i in list(callee.subtree(r)) + [r]) for r in rhs):
                            from_fields = True
            if not from_fields and dp.n['k'] == 'declstmt':
                vn = strip_casts(f, val)
                if vn['k'] == 'construct' and not [x for x in vn.get('args', []) if x is not None and x >= 0 and f.nodes[x]['k'] != 'defarg']:
                    # the default-constructed (empty) view of the declaration, still visible because a helper writes the field
                    # through an out-parameter: an empty field is "missing", not "from somewhere else"
                    continue
            if not from_fields:
                bad = (s, dp)
    ck.verdict(bad is None and len(sinks) == 3, rule, f, 'single-header-fields-only', (bad[0].n if bad else (sinks[0].n if sinks else None)),
               'with a single header present all three fields come from it' if bad is None and len(sinks) == 3 else
               'with a single b3 header present a field can still come from somewhere else (e.g. a multi header read earlier): a missing sampling field is filled from X-B3-Sampled instead of meaning "not sampled"')
    # ids behind IsValid
    succ = [r for r in g.returns() if strip_casts(f, r.n['e'])['k'] == 'construct' and len(strip_casts(f, r.n['e']).get('args', [])) >= 4]
    for nm in ('TraceId', 'SpanId'):
        def ve(a, b, lab, _nm=nm):
            if not lab or not isinstance(lab[0], int):
                return False
            core, pol = norm_cond(lab[1], lab[0])
            cn = lab[1].nodes[core]
            if cn['k'] == 'call' and strip_targs(cn.get('c', '')).endswith(_nm + '::IsValid'):
                return (lab[2] if pol else not lab[2]) is True
            return False
        ok = bool(succ) and gated_by(g, succ, lambda ff, cn, _nm=nm: strip_targs(cn.get('c', '')).endswith(_nm + '::IsValid'))[0]
        ck.verdict(ok, rule, f, 'b3-%s-valid' % nm.lower(), succ[0].n if succ else None, '%s non-zero' % nm if ok else 'B3 accepts an all-zero %s' % nm)
    # Jaeger: every HexToBinary checked
    f = prog.function('trace::propagation::JaegerPropagator::ExtractImpl')
    g = Graph(prog, f, inline=None, sync_lambdas=False)
    hb = [p for p in g.points if p.n is not None and p.n['k'] == 'call' and strip_targs(p.n.get('c', '')).endswith('HexToBinary')]
    succ = [r for r in g.returns() if strip_casts(f, r.n['e'])['k'] == 'construct' and len(strip_casts(f, r.n['e']).get('args', [])) >= 4]
    ok = len(hb) >= 1 and bool(succ)      # (three sequential calls, or one call in a loop over a table of fields)
    if ok:
        for h in hb:
            def hok(a, b, lab, _h=h):
                if not lab or not isinstance(lab[0], int):
                    return False
                core, pol = norm_cond(lab[1], lab[0])
                return core == _h.n['i'] and (lab[2] if pol else not lab[2]) is True
            if not gated_by(g, succ, lambda ff, cn, _h=h: cn is _h.n)[0]:
                # the call sits in a loop over a table of fields (the walker cannot know that the table is not empty): what counts
                # is that a failed decode never reaches the success return
                from .common import after_result
                fails = [r for r in g.returns() if r not in succ]
                if not (fails and after_result(g, lambda ff, cn, _h=h: cn is _h.n, False, fails)[0]):
                    ok = False
    ck.verdict(ok, rule, f, 'jaeger-decodes-checked', hb[0].n if hb else None, 'every HexToBinary result is checked' if ok else 'a Jaeger field is decoded without checking that it fits (over-long ids are silently zeroed or truncated)')
    fc = [n for n in f.nodes if n['k'] == 'call' and strip_targs(n.get('c', '')).endswith('SplitString')]
    ok = bool(fc) and any(comparison(f, n['i']) and comparison(f, n['i'])[0] == '!=' and
                          (strip_casts(f, comparison(f, n['i'])[1]) is fc[0] or strip_casts(f, comparison(f, n['i'])[2]) is fc[0]) for n in f.nodes)
    ck.verdict(ok, rule, f, 'jaeger-four-fields', fc[0] if fc else None, 'exactly four fields' if ok else 'the Jaeger header is not required to have exactly four fields')


def rule_r3_decode_contract(ck, prog, rule='C16.R3'):
    """cooperating sites: a caller that ignores HexToBinary's result relies on the buffer being zero-filled on the failure path
    (all-zero id => invalid => rejected). Either every caller checks the result, or every return of HexToBinary is behind a
    memset of the whole buffer."""
    hb = prog.function('trace::propagation::detail::HexToBinary')
    g = Graph(prog, hb, inline=None, sync_lambdas=False)
    buf, size = hb.params[1], hb.params[2]
    fills = [p for p in g.points if p.n is not None and p.n['k'] == 'call' and strip_targs(p.n.get('c', '')).rsplit('::', 1)[-1] == 'memset' and
             len(p.n.get('args', [])) == 3 and strip_casts(hb, p.n['args'][0]).get('id') == buf['id'] and
             strip_casts(hb, p.n['args'][1]).get('v') == 0 and strip_casts(hb, p.n['args'][2]).get('id') == size['id']]
    zero_filled = bool(fills) and all(g.must_pass(r, fills) for r in g.returns())
    cnt = 0
    for f in sorted(prog.funcs.values(), key=lambda x: x.key):
        if not f.qn.startswith('opentelemetry::trace::propagation::'):
            continue
        pm = None
        for n in f.nodes:
            if n['k'] == 'call' and strip_targs(n.get('c', '')).endswith('detail::HexToBinary'):
                pm = pm or f.parent_map()
                par = f.nodes[pm[n['i']]] if n['i'] in pm else None
                discarded = par is not None and par['k'] in ('CompoundStmt', 'ExprWithCleanups') or (par is not None and par['k'] == 'cast' and 'void' == (par.get('t') or ''))
                if not discarded:
                    continue
                cnt += 1
                ck.verdict(zero_filled, rule, f, 'ignored-decode-relies-on-zero-fill@%s' % f.name, n,
                           'the result is ignored, and HexToBinary zero-fills the whole buffer before every return: an over-long field decodes to the all-zero (invalid) id' if zero_filled else
                           '%s ignores the result of HexToBinary, and HexToBinary no longer zero-fills the whole buffer on every path: an over-long id is built from uninitialised bytes and installed' % f.name)
    return cnt


def rule_r1_sampling_not_validity(ck, prog, rule='C16.R1'):
    """B3: the sampling field only decides the sampled flag ('d' and unknown values included) - it never makes the header invalid"""
    f = prog.function('trace::propagation::B3PropagatorExtractor::ExtractImpl')
    g = Graph(prog, f, inline=None, sync_lambdas=False)
    tf = [n for n in f.nodes if n['k'] == 'call' and strip_targs(n.get('c', '')).endswith('TraceFlagsFromHex')]
    succ = [r for r in g.returns() if strip_casts(f, r.n['e'])['k'] == 'construct' and len(strip_casts(f, r.n['e']).get('args', [])) >= 4]
    if not tf or not succ:
        raise AnalysisBroken('B3 ExtractImpl: TraceFlagsFromHex / success return not found')
    a = strip_casts(f, tf[0]['args'][0])
    if a['k'] != 'ref':
        ck.inconclusive(rule, f, 'sampling-field-never-invalidates', tf[0], 'the sampling field is not a local')
        return
    bad = None
    for p in g.points:
        labelled = [(q, lab) for (q, lab) in p.succ if lab and isinstance(lab[0], int) and lab[1] is f]
        if len(labelled) < 2:
            continue
        csub = list(f.subtree(labelled[0][1][0])) + [labelled[0][1][0]]
        if not any(f.nodes[j]['k'] == 'ref' and f.nodes[j].get('id') == a['id'] for j in csub):
            continue
        # the field handed to a helper as an out-parameter inside the condition (`if (!Split(header, a, b, flags))`) is written
        # there, not tested
        written_only = True
        for j in csub:
            if f.nodes[j]['k'] == 'ref' and f.nodes[j].get('id') == a['id']:
                as_out = any(f.nodes[c_]['k'] == 'call' and any(v == a['id'] and not st for (v, st, _x) in defs_in_node(f, f.nodes[c_])) and
                             j in [strip_casts(f, x)['i'] for x in f.nodes[c_].get('args', []) if x is not None and x >= 0] for c_ in csub)
                if not as_out:
                    written_only = False
        if written_only:
            continue
        can = [any(r.id in g.reachable_from([q]) for r in succ) for (q, _l) in labelled]
        if any(can) and not all(can):
            bad = p
    ck.verdict(bad is None, rule, f, 'sampling-field-never-invalidates', bad.n if bad is not None else tf[0],
               'no branch on the sampling field cuts off the success return' if bad is None else
               'a test of the sampling field decides whether the header is accepted at all: values such as the debug flag "d" make B3 drop the ids and the sampling decision')



def rule_r4_view_subscripts(ck, prog, rule='C16.R4', prefix='opentelemetry::trace::propagation::detail::'):
    """reads of header bytes stay inside the view: every non-constant subscript s[e] of a string_view in the propagation helpers is
    dominated by an edge whose relation implies e <= s.size() - 1 (a loop guard `i <= s.size()` reads one byte past the end)"""
    from ..linear import linear, relation, fmt
    cnt = 0
    for f in sorted([x for x in prog.funcs.values() if x.qn.startswith(prefix) and x.blocks and not x.d.get('lambda')], key=lambda x: x.key):
        subs = [n for n in f.nodes if n['k'] == 'call' and n.get('op') == '[]' and n.get('obj') is not None and
                'string_view' in (f.nodes[n['obj']].get('t') or '') and n.get('args')]
        if not subs:
            continue
        g = Graph(prog, f, inline=None, sync_lambdas=False)
        rd = reaching_defs(g)
        for n in subs:
            cnt += 1
            p = g.point_of.get((id(g.root_ctx), n['i']))
            ix = n['args'][0]
            ixn = strip_casts(f, ix)
            if ixn['k'] == 'unop' and ixn['op'] in ('++', '--') and ixn.get('postfix', True):
                ix = ixn['e']      # the value of i++ is the old i
            ap = access_path(f, n['obj'])
            size_sym = path_str(ap) + '.size()'
            lin = linear(g, rd, f, ix, g.root_ctx)
            import re as _re
            pretty = lambda t: _re.sub(r'(local|param):(\d+:)?', '', t)
            site = 'view-subscript-in-bounds:%s[%s]' % (pretty(path_str(ap)), pretty(fmt(lin)) if lin is not None else '?')
            if p is None or lin is None:
                ck.inconclusive(rule, f, site, n, 'index expression not linear')
                continue
            want = {size_sym: 1, '1': -1}
            for k_, v_ in lin.items():
                want[k_] = want.get(k_, 0) - v_

            def implies(a, b, lab):
                if not lab or not isinstance(lab[0], int):
                    return False
                rel = relation(g, rd, lab[1], lab[0], a.ctx, lab[2])
                if rel and rel[0] == '>=0':
                    e = dict(rel[1])
                    diff = dict(want)
                    for k_, v_ in e.items():
                        diff[k_] = diff.get(k_, 0) - v_
                    if all(v_ == 0 for k_, v_ in diff.items() if k_ != '1') and diff.get('1', 0) >= 0:
                        return True
                # `size % 2 == 1` (possibly through a named boolean) implies size >= 1: enough for a constant index 0
                if set(lin) <= {'1'} and lin.get('1', 0) == 0:
                    core, pol = norm_cond(lab[1], lab[0])
                    cn = once_init(lab[1], core)
                    c = comparison(lab[1], cn['i']) if 'i' in cn else None
                    odd_when = None      # truth value of the comparison that means "size is odd"
                    m = None
                    if c and c[0] in ('==', '!=') and strip_casts(lab[1], c[2]).get('v') in (0, 1):
                        m = strip_casts(lab[1], c[1])
                        odd_when = (c[0] == '==') == (strip_casts(lab[1], c[2]).get('v') == 1)
                    elif cn['k'] == 'binop' and cn['op'] in ('%', '&'):
                        m, odd_when = cn, True       # `if (size % 2)`
                    if m is not None and m['k'] == 'ref':
                        m2 = once_init(lab[1], m['i'])      # `const size_t first_pair = size % 2; if (first_pair != 0)`
                        m = strip_casts(lab[1], m2['i']) if 'i' in m2 else m
                    if m is not None and m['k'] == 'binop' and ((m['op'] == '%' and strip_casts(lab[1], m['rhs']).get('v') == 2) or
                                                               (m['op'] == '&' and strip_casts(lab[1], m['rhs']).get('v') == 1)):
                        ml = linear(g, rd, lab[1], m['lhs'], a.ctx)
                        if ml == {size_sym: 1}:
                            return (lab[2] if pol else not lab[2]) is odd_when
                return False
            ok = g.must_pass_edge(p, implies)
            ck.verdict(ok, rule, f, site, n, 'index %s is behind a guard that implies it is below %s' % (pretty(fmt(lin)), pretty(size_sym)) if ok else
                       'the view is read at index %s without a dominating guard that keeps it below %s: a byte past the end of the header value is read (a carrier may hand out views that are not NUL-terminated)' % (pretty(fmt(lin)), pretty(size_sym)))
    return cnt


PROPAGATOR_CLASSES = ('trace::propagation::B3PropagatorExtractor', 'trace::propagation::B3Propagator', 'trace::propagation::B3PropagatorMultiHeader',
                      'trace::propagation::JaegerPropagator')


def rule_r5_purity(ck, prog, rule='C16.R5', classes=PROPAGATOR_CLASSES):
    """A propagator is a function of (carrier, the context it was given) and of nothing else:
    * Inject takes the span from its context parameter (every GetSpan call receives that parameter) and neither Inject nor Extract
      nor the class's helpers touch the thread's RuntimeContext;
    * Extract uses its context parameter only to install the extracted span into it and to return it: what the headers decode to
      does not depend on what the caller's context already held (a missing field is a missing field)."""
    from .common import member_funcs
    cnt = 0
    for cls in classes:
        try:
            rec = prog.record(cls)
        except AnalysisBroken:
            continue
        funcs = [x for x in member_funcs(prog, rec['qn']) if x.blocks]
        # no thread state
        for f in sorted(funcs, key=lambda x: x.key):
            if f.name not in ('Inject', 'Extract') and not (f.d.get('access') == 'private' or f.d.get('lambda') or f.d.get('static')):
                continue
            tls = [n for n in f.nodes if n['k'] == 'call' and 'RuntimeContext::' in strip_targs(n.get('c', '') or '')]
            host = f
            while host.d.get('lambda') and host.d.get('parent') in prog.funcs:
                host = prog.funcs[host.d['parent']]
            if host.name in ('Inject', 'Extract') or tls:
                cnt += 1
                ck.verdict(not tls, rule, f, 'no-thread-state:%s::%s' % (cls.rsplit('::', 1)[-1], host.name), tls[0] if tls else None,
                           'does not read the thread\'s runtime context' if not tls else
                           '%s::%s reads the thread\'s RuntimeContext (%s): what is injected / extracted depends on the span active on the calling thread, not on the context the caller passed' %
                           (cls.rsplit('::', 1)[-1], host.name, strip_targs(tls[0]['c']).rsplit('::', 1)[-1]))
        for f in sorted(funcs, key=lambda x: x.key):
            if f.d.get('lambda') or len(f.params) != 2:
                continue
            cp = f.params[1]
            refs = [n for n in f.nodes if n['k'] == 'ref' and n.get('id') == cp['id']]
            lam_refs = []
            for lf in funcs:
                if lf.d.get('lambda') and lf.d.get('parent') == f.key:
                    lam_refs += [n for n in lf.nodes if n['k'] == 'ref' and n.get('name') == cp['name'] and n.get('sk') in ('param', 'capture', 'local')]
            pm = f.parent_map()
            if f.name == 'Inject':
                gs = [n for n in f.nodes if n['k'] == 'call' and strip_targs(n.get('c', '')).endswith('trace::GetSpan')]
                bad = [n for n in gs if not (n.get('args') and strip_casts(f, n['args'][0]).get('id') == cp['id'])]
                cnt += 1
                ck.verdict(bool(gs) and not bad, rule, f, 'inject-reads-the-given-context:%s' % cls.rsplit('::', 1)[-1], (bad[0] if bad else (gs[0] if gs else None)),
                           'the injected span is GetSpan(context parameter)' if gs and not bad else
                           'Inject does not take the span from the context it was given on every path: another context\'s span is written to the carrier')
            elif f.name == 'Extract':
                bad = None
                # a local copy of the context parameter (`Context ctx = context;`) is the parameter under another name
                tracked = {cp['id']}
                for dn in f.nodes:
                    if dn['k'] == 'declstmt':
                        for d in dn['decls']:
                            if d.get('init') is not None and 'Context' in (d.get('t') or '') and strip_casts(f, d['init'])['k'] in ('ref', 'construct'):
                                src = strip_casts(f, d['init'])
                                while src['k'] == 'construct' and len(src.get('args', [])) == 1:
                                    src = strip_casts(f, src['args'][0])
                                if src['k'] == 'ref' and src.get('id') in tracked:
                                    tracked.add(d['id'])
                refs = [n for n in f.nodes if n['k'] == 'ref' and n.get('id') in tracked]
                for n in refs:
                    x = n['i']
                    while x in pm and f.nodes[pm[x]]['k'] in ('cast', 'paren'):
                        x = pm[x]
                    par = f.nodes[pm[x]] if x in pm else None
                    if par is None:
                        continue
                    if par['k'] == 'return':
                        continue
                    if par['k'] == 'construct' and par.get('copymove') and pm.get(par['i']) is not None and f.nodes[pm[par['i']]]['k'] in ('return', 'declstmt'):
                        continue
                    if par['k'] == 'declstmt':
                        continue
                    if par['k'] == 'call' and strip_targs(par.get('c', '')).endswith('trace::SetSpan') and par.get('args') and par['args'][0] == x:
                        continue
                    if par['k'] == 'call' and par.get('obj') == x and strip_targs(par.get('c', '')).rsplit('::', 1)[-1] in ('SetValue', 'SetValues'):
                        continue
                    bad = n
                    break
                if bad is None and lam_refs:
                    bad = lam_refs[0]
                cnt += 1
                ck.verdict(bad is None, rule, f, 'extract-result-independent-of-caller-context:%s' % cls.rsplit('::', 1)[-1], bad,
                           'the context parameter is only installed into and returned (%d uses)' % len(refs) if bad is None else
                           'Extract reads the caller\'s context while decoding: what a header (or a missing field of it) decodes to depends on the span the caller\'s context already carried')
    if cnt == 0:
        raise AnalysisBroken('%s: no propagator class found' % rule)
    return cnt


FIELD_TABLE = {
    # documented wire formats: Jaeger `{trace-id}:{span-id}:{parent-span-id}:{flags}`; B3 single `{TraceId}-{SpanId}-{SamplingState}[-{ParentSpanId}]`,
    # B3 multi: X-B3-TraceId / X-B3-SpanId / X-B3-Sampled
    'trace::propagation::JaegerPropagator::ExtractImpl': ({('field', 0)}, {('field', 1)}, {('field', 3)}),
    'trace::propagation::B3PropagatorExtractor::ExtractImpl': ({('field', 0), ('header', 'x-b3-traceid')}, {('field', 1), ('header', 'x-b3-spanid')},
                                                               {('field', 2), ('header', 'x-b3-sampled')}),
}


def rule_r6_extracted_context(ck, prog, rule='C16.R6', table=None, remote_only=()):
    """what an extractor builds: (a) every SpanContext it constructs from header data is marked remote; (b) the trace id, span id
    and flags of that context are decoded from the documented field / header of the wire format (dependence through locals, the
    decode helpers and their output buffers)"""
    table = FIELD_TABLE if table is None else table
    for fname in list(table) + list(remote_only):
        f = prog.function(fname)
        g = Graph(prog, f, inline=same_class_inline(prog, f.cls or ''), sync_lambdas=False, max_depth=2)
        rd = reaching_defs(g)
        cons = [p for p in g.points if p.n is not None and p.n['k'] == 'construct' and strip_targs(p.n.get('c', '')).endswith('trace::SpanContext::SpanContext') and len(p.n.get('args', [])) >= 4]
        short_name = fname.split('::')[-2]
        if not cons:
            ck.inconclusive(rule, f, 'extracted-context-is-remote@' + short_name, None, 'no four-argument SpanContext construction found')
            continue
        for cp in cons:
            r = strip_casts(cp.f, cp.n['args'][3])
            if 'v' in r:
                ck.verdict(r['v'] == 1, rule, cp.f, 'extracted-context-is-remote@' + short_name, cp.n, 'is_remote = true' if r['v'] == 1 else
                           '%s marks the context it extracted from the carrier as local (is_remote = false): samplers and processors treat a remote parent as a local one' % short_name)
            else:
                ck.inconclusive(rule, cp.f, 'extracted-context-is-remote@' + short_name, cp.n, 'the remote flag is not a constant')
        if fname not in table:
            continue

        def sources(sf, idx, sc, depth=0, seen=None):
            seen = set() if seen is None else seen
            out = set()
            if depth > 10 or idx is None or idx < 0:
                return out
            for (of, on, oc) in origins(g, rd, sf, idx, sc):
                key = (id(oc), of.key, on['i'])
                if key in seen:
                    continue
                seen.add(key)
                k = on['k']
                if k == 'call' and strip_targs(on.get('c', '')).endswith('TextMapCarrier::Get') and on.get('args'):
                    # the header name by its text (the value of the namespace-scope constant, or a literal), never by the constant's name
                    vals = []
                    for j in list(of.subtree(on['args'][0])) + [on['args'][0]]:
                        m = of.nodes[j]
                        if m['k'] == 'str':
                            vals.append(m.get('s'))
                        elif m['k'] == 'ref' and m.get('qn') in prog.globals and prog.globals[m['qn']].get('str') is not None:
                            vals.append(prog.globals[m['qn']]['str'])
                        elif m['k'] == 'ref' and m.get('sk') in ('global', 'static', 'var'):
                            for gq, gv in prog.globals.items():
                                if gv.get('id') == m.get('id') and gv.get('str') is not None:
                                    vals.append(gv['str'])
                    out.add(('header', vals[0].lower() if vals else '?'))
                elif k == 'subscript' or (k == 'call' and on.get('op') == '[]'):
                    ix = on['index'] if k == 'subscript' else (on['args'][0] if on.get('args') else None)
                    base_t = (of.nodes[on['base']].get('t') if k == 'subscript' else (of.nodes[on['obj']].get('t') if on.get('obj') is not None else '')) or ''
                    v = strip_casts(of, ix).get('v') if ix is not None else None
                    if 'string_view' in base_t and v is not None and ('[' in base_t or 'array' in base_t):
                        out.add(('field', v))
                    else:
                        nxt = on['base'] if k == 'subscript' else on.get('obj')
                        out |= sources(of, nxt, oc, depth + 1, seen)
                elif k == 'call' and any(m_ == 1 for m_ in on.get('pm', [])) and \
                        any('string_view' in (of.nodes[a].get('t') or '') for (a, m_) in zip(on.get('args', []), on.get('pm', [])) if m_ == 1 and a is not None and a >= 0):
                    # a helper that fills text out-parameters: which field goes into which parameter is decided inside it
                    out.add(('header', '?'))
                elif k in ('call', 'construct'):
                    args = [a for a in on.get('args', []) if a is not None and a >= 0]
                    if on.get('obj') is not None and k == 'call' and not args:
                        args = [on['obj']]
                    for a in args[:1]:
                        out |= sources(of, a, oc, depth + 1, seen)
                elif k == 'ref' and on.get('sk') == 'local':
                    # an output buffer / out-parameter: what the decode helper that received it was given as text
                    for p in g.points:
                        n = p.n
                        if n is None or n['k'] != 'call' or len(n.get('args', [])) < 2:
                            continue
                        nm = strip_targs(n.get('c', '')).rsplit('::', 1)[-1]
                        if nm not in ('HexToBinary',):
                            continue
                        if any(p.f.nodes[j]['k'] == 'ref' and p.f.nodes[j].get('id') == on.get('id') for a in n['args'][1:2] for j in list(p.f.subtree(a)) + [a]):
                            out |= sources(p.f, n['args'][0], p.ctx, depth + 1, seen)
                elif k in ('unop', 'binop', 'cond', 'cast'):
                    for j in ([on.get('e')] if k in ('unop', 'cast') else [on.get('lhs'), on.get('rhs'), on.get('a'), on.get('b')]):
                        if j is not None and j >= 0:
                            out |= sources(of, j, oc, depth + 1, seen)
            return out
        want = table[fname]
        for cp in cons:
            for (k, label) in enumerate(('trace id', 'span id', 'flags')):
                got = sources(cp.f, cp.n['args'][k], cp.ctx)
                if not got:
                    # a decode helper whose result depends on its text argument by control only (constant returns chosen by tests
                    # of the text): the text it is handed is the source
                    a_ = strip_casts(cp.f, cp.n['args'][k])
                    while a_['k'] == 'construct' and a_.get('copymove') and a_.get('args'):
                        a_ = strip_casts(cp.f, a_['args'][0])
                    if a_['k'] in ('call', 'construct') and a_.get('args'):
                        got = sources(cp.f, a_['args'][0], cp.ctx)
                site = 'field-table:%s@%s' % (label.replace(' ', '-'), short_name)
                if not got or any(x[1] == '?' for x in got):
                    ck.inconclusive(rule, cp.f, site, cp.n, 'the header field the %s is decoded from was not resolved (%s)' % (label, sorted(got)))
                    continue
                ok = got == want[k]
                ck.verdict(ok, rule, cp.f, site, cp.n, 'the %s is decoded from %s' % (label, sorted(got)) if ok else
                           '%s decodes the %s from %s; the wire format puts it in %s: extraction does not give back what injection wrote' % (short_name, label, sorted(got), sorted(want[k])))


def run(ck, prog):
    ck.doc('C16.R1', 'sampling field written from IsSampled() only; extractors read exactly the sampled decision; the B3 sampling field never invalidates', 6)
    ck.doc('C16.R2', 'constant-bounded, exactly partitioned header buffers with separators at the documented offsets', 6)
    ck.doc('C16.R3', 'install only valid contexts; B3 single-header precedence; decodes checked or zero-filled', 11)
    ck.doc('C16.R4', 'every non-constant string_view subscript of the propagation helpers is dominated by a guard implying index < size', 1)
    ck.doc('C16.R5', 'propagators are functions of (carrier, given context): Inject reads GetSpan(context parameter), no thread state, Extract only installs into / returns its context parameter', 10)
    ck.doc('C16.R6', 'an extracted context is marked remote; trace id / span id / flags are decoded from the documented field or header of the wire format', 8)
    ck.doc('C09.R3', '(shared rule) bounded subscripts into constant tables (hex lookup)', 10)
    ck.doc('C09.R7', '(shared rule, see C09) no function-local static of the propagators is modified after, or initialised from the data of, a call', 1)
    with ck.canary('C16.R1'):
        rule_r1(ck, prog, injectors=(('canary::c16::BadInject', None),))
    rule_r1(ck, prog)
    c09.rule_r1(ck, prog, rule='C16.R2', fname='trace::propagation::B3Propagator::Inject', want_size=51, want={32: ord('-'), 49: ord('-')}, allow_nonliteral=(50,))
    c09.rule_r1(ck, prog, rule='C16.R2', fname='trace::propagation::JaegerPropagator::Inject', want_size=54,
                want={32: ord(':'), 49: ord(':'), 50: ord('0'), 51: ord(':'), 52: ord('0')}, allow_nonliteral=(53,))
    rule_r3(ck, prog)
    if not rule_r3_decode_contract(ck, prog):
        ck.holds('C16.R3', prog.function('trace::propagation::detail::HexToBinary'), 'every-decode-result-checked', None, 'no caller ignores the result of HexToBinary')
    rule_r1_sampling_not_validity(ck, prog)
    c09.rule_r3(ck, prog, rule='C09.R3')
    rule_r4_view_subscripts(ck, prog)
    rule_r5_purity(ck, prog)
    rule_r6_extracted_context(ck, prog)
    ck.doc('C09.R9', '(shared rule, see C09) block operations on the id representation cover the whole array ("non-zero ids" is decided over all bytes)', 2)
    c09.rule_r9_id_blocks(ck, prog)
    if not c09.rule_r7(ck, prog, prefixes=('opentelemetry::trace::propagation::',)):
        ck.holds('C09.R7', prog.function('trace::propagation::B3PropagatorExtractor::Extract'), 'no-static-locals', None, 'no function-local statics in the B3 / Jaeger propagators')
    return {}
