"""Helpers shared by rule modules: role discovery for the batch processors / periodic reader,
comparison normalisation, small idiom recognisers."""
from ..ir import AnalysisBroken, strip_targs, qmatch
from ..expr import access_path, path_str, leaves, norm_cond, is_transparent_call, defs_in_node
from ..callgraph import CallGraph

EXPORTER_EXPORT = ('SpanExporter::Export', 'LogRecordExporter::Export', 'PushMetricExporter::Export')
EXPORTER_FLUSH = ('SpanExporter::ForceFlush', 'LogRecordExporter::ForceFlush', 'PushMetricExporter::ForceFlush')
EXPORTER_SHUTDOWN = ('SpanExporter::Shutdown', 'LogRecordExporter::Shutdown', 'PushMetricExporter::Shutdown')
ATOMIC_PREFIX = ('std::atomic', 'std::__atomic_base', 'std::atomic_flag', 'std::__atomic_flag_base', 'std::atomic_bool')
ATOMIC_RMW = ('exchange', 'test_and_set', 'fetch_add', 'fetch_sub', 'fetch_or', 'fetch_and',
              'compare_exchange_strong', 'compare_exchange_weak', 'operator++', 'operator--', 'operator+=',
              'operator-=', 'operator|=', 'operator&=')
ATOMIC_LOAD = ('load', 'operator bool', 'operator unsigned long', 'operator long', 'operator int',
               'operator unsigned int', 'operator __int_type', 'operator __integral_type', 'test')
ATOMIC_STORE = ('store', 'operator=', 'clear')


def atomic_op(n):
    """('load'|'store'|'rmw', method name) if node n is an operation on a std::atomic, else None"""
    if n['k'] != 'call' or n.get('obj') is None:
        return None
    c = strip_targs(n.get('c', '') or '')
    if not any(c.startswith(p + '::') for p in ATOMIC_PREFIX):
        return None
    last = c.rsplit('::', 1)[-1]
    if last in ATOMIC_RMW:
        return ('rmw', last)
    if last in ATOMIC_STORE:
        return ('store', last)
    if last in ATOMIC_LOAD or last.startswith('operator '):
        return ('load', last)
    return ('other', last)


def class_of(prog, suffix):
    return prog.record(suffix)


def member_funcs(prog, cls_qn):
    """methods of the class and lambdas (transitively) defined inside them"""
    keys = {f.key for f in prog.funcs.values() if f.cls == cls_qn}
    changed = True
    while changed:
        changed = False
        for f in prog.funcs.values():
            if f.key not in keys and f.d.get('lambda') and f.d.get('parent') in keys:
                keys.add(f.key)
                changed = True
    return [prog.funcs[k] for k in keys]


def same_class_inline(prog, cls_qn, extra=()):
    """inline predicate: helpers of the same class (virtual ones only when called on `this` and nothing in
    the analysed program overrides them), file-local helpers and the given extra stripped callee suffixes"""
    def pred(caller, call, callee, depth):
        if call.get('virt') and not call.get('qual'):
            if callee.cls != cls_qn or prog.overriders(callee.key):
                return False
            obj = call.get('obj')
            if obj is None or caller.nodes[obj]['k'] != 'this':
                return False
            return True
        if callee.cls == cls_qn:
            return True
        if callee.d.get('local'):
            return True
        c = strip_targs(callee.qn)
        return any(c == e or c.endswith('::' + e) for e in extra)
    return pred


class Roles:
    """Roles of a worker-driven exporting class (batch span/log processor, periodic reader),
    discovered by what the code does, never by the names of private things."""

    def __init__(self, prog, cls_suffix, flush_method='ForceFlush', shutdown_method='Shutdown', cg=None):
        self.prog = prog
        self.rec = prog.record(cls_suffix)
        self.cls = self.rec['qn']
        self.short = cls_suffix
        self.cg = cg or CallGraph(prog)
        self.funcs = member_funcs(prog, self.cls)
        self.exporter_field = None
        self.queue_field = None
        for fd in self.rec['fields']:
            t = fd['t']
            if 'Exporter' in t and ('unique_ptr' in t or 'shared_ptr' in t):
                self.exporter_field = fd['name']
            if 'CircularBuffer<' in t:
                self.queue_field = fd['name']
        if not self.exporter_field:
            raise AnalysisBroken('%s: no exporter member found' % cls_suffix)
        # thread entry: started from a constructor / any member
        self.thread_entries = set()
        self.thread_starts = []
        for f in self.funcs:
            for t in self.cg.threads.get(f.key, ()):
                if t in prog.funcs:
                    self.thread_entries.add(t)
                    self.thread_starts.append((f, t))
        self.flush = self._method(flush_method)
        self.shutdown = self._method(shutdown_method)
        self.pending = self._find_pending()
        self.latch = self._find_latch()
        self.bound_field = self._find_bound()

    def _method(self, name):
        fs = [f for f in self.funcs if f.cls == self.cls and f.name == name]
        if not fs:
            raise AnalysisBroken('%s::%s vanished' % (self.short, name))
        return fs[0]

    def _find_pending(self):
        """atomic member on which the public flush method performs fetch_add"""
        f = self.flush
        for n in f.nodes:
            op = atomic_op(n)
            if op and op[1] in ('fetch_add', 'operator++', 'operator+='):
                p = access_path(f, n['obj'])
                if p[0] == 'this':
                    return path_str(p)
        return None

    def _find_latch(self):
        f = self.shutdown
        for n in f.nodes:
            op = atomic_op(n)
            if op and op[1] in ('exchange', 'test_and_set', 'store', 'operator='):
                p = access_path(f, n['obj'])
                if p[0] == 'this':
                    return path_str(p)
        return None

    def _find_bound(self):
        """member initialised from <options>.max_export_batch_size or a parameter of that name"""
        return self.member_initialised_from('max_export_batch_size', exclude_types=('CircularBuffer',))

    def member_initialised_from(self, option_name, exclude_types=(), only_types=()):
        """name of the member that every constructor initialises from <options>.<option_name> (or a parameter of that name); members
        whose type contains one of exclude_types are not candidates. Deterministic: the alphabetically first when several qualify."""
        rec = self.prog.record(self.cls) if hasattr(self, 'prog') else None
        ftypes = {fd['name']: fd['t'] for fd in rec['fields']} if rec else {}
        cands = set()
        for f in self.funcs:
            if f.kind != 'ctor' or f.cls != self.cls:
                continue
            for b in f.blocks:
                for e in b['el']:
                    if isinstance(e, dict) and 'init' in e and 'e' in e:
                        lv = leaves(f, e['e'])
                        for l in lv:
                            if (l[0] == 'memberof' and l[1] == option_name) or (l[0] == 'param' and l[1] == option_name):
                                t = ftypes.get(e['init'], '')
                                if any(x in t for x in exclude_types):
                                    continue
                                if only_types and not any(x in t for x in only_types):
                                    continue
                                cands.add(e['init'])
        return sorted(cands)[0] if cands else None

    def is_exporter_call(self, f, n, which):
        if n['k'] != 'call' or n.get('obj') is None:
            return False
        if not any(qmatch(n.get('c', ''), w) for w in which):
            return False
        return True


# ---------------------------------------------------------------------------------------- comparisons
FLIP = {'<': '>', '>': '<', '<=': '>=', '>=': '<=', '==': '==', '!=': '!='}
NEG = {'<': '>=', '>': '<=', '<=': '>', '>=': '<', '==': '!=', '!=': '=='}


def comparison(f, idx):
    """(op, lhs idx, rhs idx) for a built-in or overloaded comparison node, else None"""
    n = f.nodes[idx]
    if n['k'] == 'binop' and n['op'] in FLIP:
        return n['op'], n['lhs'], n['rhs']
    if n['k'] == 'call' and n.get('op') in FLIP:
        ops = ([n['obj']] if n.get('obj') is not None else []) + list(n.get('args', []))
        if len(ops) == 2:
            return n['op'], ops[0], ops[1]
    return None


def strip_casts(f, idx):
    n = f.nodes[idx]
    hops = 0
    while hops < 6:
        if n['k'] == 'cast':
            n = f.nodes[n['e']]
        elif n['k'] == 'construct' and n.get('copymove') and len(n.get('args', [])) == 1:
            n = f.nodes[n['args'][0]]
        elif n['k'] == 'call' and is_transparent_call(n) and n.get('args'):
            n = f.nodes[n['args'][0]]
        else:
            break
        hops += 1
    return n


def is_ref_to(f, idx, var_id):
    n = strip_casts(f, idx)
    return n['k'] == 'ref' and n.get('id') == var_id


def nonzero_polarity(f, cond_idx, var_id):
    """polarity of the branch condition cond_idx under which local var_id is known non-zero, else None"""
    core, pol = norm_cond(f, cond_idx)
    n = f.nodes[core]
    if is_ref_to(f, core, var_id):
        return pol
    cmp_ = comparison(f, core)
    if not cmp_:
        return None
    op, l, r = cmp_
    lv, rv = f.nodes[l], f.nodes[r]
    if is_ref_to(f, r, var_id) and 'v' in strip_casts(f, l):
        op, l, r = FLIP[op], r, l
    if not is_ref_to(f, l, var_id):
        return None
    c = strip_casts(f, r).get('v')
    if c is None:
        return None
    # var op c
    table = {('==', 0): False, ('!=', 0): True, ('>', 0): True, ('<=', 0): False, ('>=', 1): True, ('<', 1): False}
    res = table.get((op, c))
    if res is None:
        return None
    return res if pol else (not res)


def expr_equal(f, a, b, depth=0):
    """structural equality of two expressions of the same function"""
    if depth > 12:
        return False
    x, y = strip_casts(f, a), strip_casts(f, b)
    if x['i'] == y['i']:
        return True
    if x['k'] != y['k']:
        return False
    k = x['k']
    if k == 'ref':
        return x.get('id') == y.get('id') and x.get('qn') == y.get('qn') and x['name'] == y['name']
    if k == 'member':
        return x['name'] == y['name'] and expr_equal(f, x['base'], y['base'], depth + 1)
    if k == 'this':
        return True
    if k == 'lit':
        return x.get('v') == y.get('v') and x.get('fv') == y.get('fv') and x.get('null') == y.get('null')
    if k == 'call':
        if x.get('ck') != y.get('ck'):
            return False
        xo, yo = x.get('obj'), y.get('obj')
        if (xo is None) != (yo is None):
            return False
        if xo is not None and not expr_equal(f, xo, yo, depth + 1):
            return False
        xa, ya = x.get('args', []), y.get('args', [])
        return len(xa) == len(ya) and all(expr_equal(f, p, q, depth + 1) for p, q in zip(xa, ya))
    if k in ('binop',):
        return x['op'] == y['op'] and expr_equal(f, x['lhs'], y['lhs'], depth + 1) and expr_equal(f, x['rhs'], y['rhs'], depth + 1)
    if k == 'unop':
        return x['op'] == y['op'] and expr_equal(f, x['e'], y['e'], depth + 1)
    return False


def short(f):
    q = strip_targs(f.qn)
    parts = q.split('::')
    return '::'.join(parts[-2:]) if len(parts) >= 2 else q


def cond_text(f, idx):
    """compact rendering of a condition for reports"""
    n = f.nodes[idx]
    k = n['k']
    if k == 'binop':
        return '(%s %s %s)' % (cond_text(f, n['lhs']), n['op'], cond_text(f, n['rhs']))
    if k == 'unop':
        return '%s%s' % (n['op'], cond_text(f, n['e']))
    if k == 'ref':
        return n['name']
    if k == 'member':
        return path_str(access_path(f, idx))
    if k == 'lit':
        return str(n.get('v', n.get('fv', 'null')))
    if k == 'call':
        c = strip_targs(n.get('c', '?') or '?').rsplit('::', 1)[-1]
        base = ''
        if n.get('obj') is not None:
            base = cond_text(f, n['obj']) + '.'
        if n.get('op') and len(n.get('args', [])) + (1 if n.get('obj') is not None else 0) == 2:
            ops = ([n['obj']] if n.get('obj') is not None else []) + list(n.get('args', []))
            return '(%s %s %s)' % (cond_text(f, ops[0]), n['op'], cond_text(f, ops[1]))
        return '%s%s(%s)' % (base, c, ','.join(cond_text(f, a) for a in n.get('args', []) if f.nodes[a]['k'] != 'defarg'))
    if k == 'cast':
        return cond_text(f, n['e'])
    return k


def iteration_starts(g, f, loop):
    """points at which an iteration of `loop` begins: the declaration of the loop variable for a range-for, the targets of the true
    edge of the condition for while / for"""
    if loop['k'] == 'forrange':
        return [p for p in g.points if p.n is not None and p.f is f and p.n['k'] == 'declstmt' and
                any(d['id'] == loop.get('var') for d in p.n['decls'])]
    starts = []
    if loop.get('cnd') is None:
        return starts
    cset = set(f.subtree(loop['cnd'])) | {loop['cnd']}
    for p in g.points:
        for (q, lab) in p.succ:
            if lab and isinstance(lab[0], int) and lab[1] is f and lab[2] is True and q not in starts and lab[0] in cset:
                starts.append(q)
    return starts


def loop_visits_every_element(g, f, loop, visit_pts, allowed_exit=None):
    """Range-for `loop` of f (graph g): every iteration passes one of `visit_pts`, and the loop is only left when the range is
    exhausted (or over an edge `allowed_exit(a, b, lab)` accepts). Returns None when it holds, else a reason.
    The iteration starts at the declaration of the loop variable (clang's CFG element for `auto &x = *__begin`)."""
    if loop['k'] == 'forrange':
        starts = [p for p in g.points if p.n is not None and p.f is f and p.n['k'] == 'declstmt' and
                  any(d['id'] == loop.get('var') for d in p.n['decls'])]
    else:
        # while/for: the iteration starts on the true edge of the loop condition
        starts = []
        for p in g.points:
            for (q, lab) in p.succ:
                if lab and isinstance(lab[0], int) and lab[1] is f and lab[2] is True and q not in starts and \
                        lab[0] in set(f.subtree(loop['cnd'])) | {loop['cnd']}:
                    starts.append(q)
    if len(starts) != 1:
        return 'iteration start of the loop not found in the flow graph'
    start = starts[0]
    visit_ids = {p.id for p in visit_pts}
    if not visit_ids:
        return 'the loop body never makes the call'
    r = g.reachable_from([q for (q, _l) in start.succ], avoid=list(visit_pts), avoid_edges=allowed_exit)
    if start.id in r:
        return 'an iteration can complete without the call (short-circuit, condition or continue skips it)'
    if g.exit.id in r:
        return 'the function can be left from inside an iteration before the call is made'
    # leaving the loop early after the call: a break/return/goto inside the body
    body = set(f.subtree(loop['body']))
    for i in body:
        n = f.nodes[i]
        if n['k'] in ('break', 'return', 'GotoStmt'):
            # tolerated when every path to it goes over an allowed exit edge
            pts = [p for p in g.points if p.f is f and p.n is n]
            if allowed_exit is not None and pts and all(g.must_pass_edge(p, allowed_exit) for p in pts):
                continue
            return 'the loop can be left before the range is exhausted (%s at line %s): the remaining elements are never visited' % (n['k'], pts[0].line if pts else '?')
    return None


def callbacks_never_stop(ck, prog, rule, hosts, callee_suffixes=('ForEachKeyValue',), exempt=()):
    """Every lambda that a host function hands to an iteration API (ForEachKeyValue, ...) to *copy* caller data returns true on
    every exit: returning false stops the iteration and silently drops the remaining entries. `hosts` are Func objects;
    `exempt` names host functions whose callback legitimately stops early (searches / comparisons)."""
    cnt = 0
    for f in hosts:
        if f.name in exempt:
            continue
        for n in f.nodes:
            if n['k'] != 'call' or not any(strip_targs(n.get('c', '')).endswith(sfx) for sfx in callee_suffixes):
                continue
            lam = None
            for a in n.get('args', []):
                if a is None or a < 0:
                    continue
                for j in f.subtree(a):
                    if f.nodes[j]['k'] == 'lambda' and f.nodes[j].get('fn') in prog.funcs:
                        lam = prog.funcs[f.nodes[j]['fn']]
            if lam is None:
                continue
            # a comparison / search whose result is used is not a copy
            cnt += 1
            rets = [strip_casts(lam, r['e']) if r.get('e') is not None and r['e'] >= 0 else None for r in lam.nodes if r['k'] == 'return']
            bad = [r for r in rets if r is None or not (r['k'] == 'lit' and r.get('v') == 1)]
            host = f
            while host.d.get('lambda') and host.d.get('parent') in prog.funcs:
                host = prog.funcs[host.d['parent']]
            site = 'copy-callback-never-stops@%s#%d' % (host.name, sum(1 for m in f.nodes[:n['i']] if m['k'] == 'call' and any(strip_targs(m.get('c', '')).endswith(s) for s in callee_suffixes)))
            ck.verdict(not bad, rule, lam, site, bad[0] if bad and bad[0] is not None else n,
                       'the callback returns true on all %d exits' % len(rets) if not bad else
                       'a callback that copies the caller\'s entries can return something other than true: the iteration stops there and every later attribute / link is silently dropped')
    return cnt


def loops_over(f, container_pred):
    """Loop nodes of f that iterate over a container whose access path satisfies container_pred (a tuple such as ('this', 'x_')).
    Recognised shapes: a range-for over the container (or over *ptr / ptr->member); an index or iterator loop (for / while) whose
    condition compares against container.size() / end() / cend() / empty()."""
    out = []
    for n in f.nodes:
        if n['k'] == 'forrange':
            if container_pred(access_path(f, n['range'])):
                out.append(n)
        elif n['k'] in ('for', 'while') and n.get('cnd') is not None and n['cnd'] >= 0:
            for j in f.subtree(n['cnd']):
                m = f.nodes[j]
                if m['k'] == 'call' and m.get('obj') is not None and strip_targs(m.get('c', '')).rsplit('::', 1)[-1] in ('size', 'end', 'cend', 'length') and \
                        container_pred(access_path(f, m['obj'])):
                    out.append(n)
                    break
    return out


def scenario_sources(g, f, idx, ctx, scen, atom_role, classify, at=None, depth_limit=8):
    """Kinds of source the value of expression `idx` (in function f, context ctx) has in a *scenario*: the branch conditions that
    atom_role(func, cond idx, ctx) -> (role or None, polarity) classifies take the truth values scen[role]. The flow is restricted
    to the scenario (edges contradicting it are removed before the reaching definitions are computed), conditional expressions are
    resolved by the same classification, locals are followed through the restricted definitions, copies are looked through.
    classify(func, node, ctx) -> kind (str) for an expression that is a source, or None to keep descending."""
    from ..expr import reaching_defs as _rd, defs_in_node as _din

    def skip(a, b, lab):
        if not lab or not isinstance(lab[0], int):
            return False
        role, pol = atom_role(lab[1], lab[0], a.ctx)
        if role not in scen:
            return False
        truth = lab[2] if pol else (not lab[2])
        return truth is not scen[role]
    rds = _rd(g, skip_edge=skip)

    def resolve(ff, i, c, depth):
        ff, i, c = deparam(ff, i, c)
        n = strip_casts(ff, i)
        if depth > depth_limit:
            return {'other:depth'}
        k = classify(ff, n, c)
        if k is not None:
            return {k}
        if n['k'] == 'call':
            # a private helper inlined into the graph: what it returns on the paths of the scenario
            for c_ in g.ctxs:
                if c_.call is n and c_.parent is c and not c_.lambda_of:
                    pt_ = g.point_of.get((id(c), n['i']))
                    reach = {d for (v, d) in rds.get(pt_.id, ())} if pt_ is not None else None
                    out = set()
                    for p_ in g.points:
                        if p_.ctx is c_ and p_.n is not None and p_.n['k'] == 'return' and p_.n.get('e') is not None and p_.n['e'] >= 0:
                            if reach is not None and any(v == ('ret', id(c_)) for (v, d) in rds.get(pt_.id, ())) and p_.id not in reach:
                                continue
                            out |= resolve(c_.f, p_.n['e'], c_, depth + 1)
                    if out:
                        return out
        if n['k'] == 'construct' and n.get('copymove') and len(n.get('args', [])) == 1:
            return resolve(ff, n['args'][0], c, depth + 1)
        if n['k'] == 'cond':
            role, pol = atom_role(ff, n['cnd'], c)
            if role in scen:
                truth = scen[role] if pol else (not scen[role])
                return resolve(ff, n['a'] if truth else n['b'], c, depth + 1)
            return resolve(ff, n['a'], c, depth + 1) | resolve(ff, n['b'], c, depth + 1)
        if n['k'] == 'ref' and n.get('sk') == 'local':
            pt = g.point_of.get((id(c), n['i']))
            out = set()
            src = rds.get(pt.id, ()) if pt is not None else (rds.get(at.id, ()) if at is not None else ())
            for (v, d) in src:
                if v != n['id']:
                    continue
                dp = g.points[d]
                for (vv, st, vx) in _din(dp.f, dp.n):
                    if vv == n['id'] and vx is not None and vx != dp.n['i']:
                        out |= resolve(dp.f, vx, dp.ctx, depth + 1)
            return out or {'other:undefined'}
        return {'other:' + n['k']}
    return resolve(f, idx, ctx, 0)


def deparam(f, idx, ctx):
    """(func, node idx, ctx) of the expression a by-value/by-reference parameter of an inlined helper stands for: while the node
    (casts stripped) is such a parameter, continue with the argument in the caller"""
    for _ in range(6):
        n = strip_casts(f, idx)
        if n['k'] == 'ref' and n.get('sk') == 'param' and ctx is not None and ctx.call is not None and not ctx.lambda_of:
            pi = [k for k, pr in enumerate(f.params) if pr['id'] == n['id']]
            args = ctx.call.get('args', [])
            if pi and pi[0] < len(args) and args[pi[0]] is not None and args[pi[0]] >= 0:
                f, idx, ctx = ctx.caller, args[pi[0]], ctx.parent
                continue
        break
    return f, idx, ctx


def no_thread_edge(p, q, lab):
    # after the thread was started, the "there is no thread" outcome of a test of the handle is not a real path: the
    # not-joinable edge of joinable(), and the null edge of any null test of the (smart) pointer to the thread
    # (`if (t)`, `t != nullptr`, `!t`, `t.get() == nullptr` ...); combined and named forms are decided recursively:
    # `t && t->joinable()` being false means one of the two "no thread" outcomes, whichever it is
    if not lab or not isinstance(lab[0], int):
        return False
    return _no_thread(lab[1], lab[0], lab[2], 0)


def _no_thread(ff, idx, truth, depth):
    if depth > 8:
        return False
    n = ff.nodes[idx]
    hops = 0
    while n['k'] == 'cast' and hops < 6:
        n = ff.nodes[n['e']]
        hops += 1
    if n['k'] == 'unop' and n['op'] == '!':
        return _no_thread(ff, n['e'], not truth, depth + 1)
    if n['k'] == 'binop' and n['op'] in ('&&', '||'):
        a, b = _no_thread(ff, n['lhs'], truth, depth + 1), _no_thread(ff, n['rhs'], truth, depth + 1)
        every = (n['op'] == '&&' and not truth) or (n['op'] == '||' and truth)     # the outcome is a disjunction of the operands' outcomes
        return (a and b) if every else (a or b)
    if n['k'] == 'ref' and n.get('sk') == 'local' and (n.get('t') or '').replace('const ', '') == 'bool':
        init = once_init(ff, n['i'])
        if init is not n and 'i' in init and init['i'] != n['i']:
            return _no_thread(ff, init['i'], truth, depth + 1)
        return False
    core, pol = norm_cond(ff, n['i'])
    truth = truth if pol else (not truth)
    cn = ff.nodes[core]
    if cn['k'] == 'call' and qmatch(cn.get('c', ''), 'std::thread::joinable'):
        return truth is False
    subj, null_when = None, None
    if cn['k'] == 'call' and cn.get('op') in ('==', '!='):
        ops = ([cn['obj']] if cn.get('obj') is not None else []) + [a for a in cn.get('args', []) if a is not None and a >= 0]
        if len(ops) == 2:
            t0, t1 = (ff.nodes[ops[0]].get('t') or ''), (ff.nodes[ops[1]].get('t') or '')
            if 'nullptr' in t1 or strip_casts(ff, ops[1]).get('v') == 0:
                subj, null_when = ops[0], (cn['op'] == '==')
            elif 'nullptr' in t0:
                subj, null_when = ops[1], (cn['op'] == '==')
    elif cn['k'] == 'call' and qmatch(cn.get('c', ''), 'operator bool') and cn.get('obj') is not None:
        subj, null_when = cn['obj'], False
    elif 'std::thread' in (cn.get('t') or ''):
        subj, null_when = core, False
    if subj is not None and 'std::thread' in (ff.nodes[subj].get('t') or '') + (strip_casts(ff, subj).get('t') or ''):
        return truth is null_when
    return False


def subtree_through_locals(f, idx, depth=0):
    """node indexes of an expression, following once-initialised locals to their initialisers"""
    out = []
    for j in f.subtree(idx):
        out.append(j)
        n = f.nodes[j]
        if n['k'] == 'ref' and n.get('sk') == 'local' and depth < 3:
            for m in f.nodes:
                if m['k'] == 'declstmt':
                    for d in m['decls']:
                        if d['id'] == n['id'] and d.get('init') is not None and d['init'] >= 0:
                            out += subtree_through_locals(f, d['init'], depth + 1)
    return out


def pointer_pins(f, path_pred, nonnull, ctx=None):
    """pins (node idx -> bool) that fix "this pointer is non-null" for every expression of f whose access path satisfies
    path_pred: three-valued evaluation then decides `p`, `!p`, `p == nullptr`, `p != nullptr`, `p.operator bool()` alike"""
    pins = {}
    for n in f.nodes:
        if n['k'] in ('member', 'ref') and path_pred(access_path(f, n['i'], ctx)):
            pins[n['i']] = nonnull
    return pins


def sign_pins(f, var_id, negative):
    """pins for the comparisons of a variable with zero in the scenario "the value is negative" / "the value is not negative"
    (in the latter, tests that separate 0 from positive values stay unknown)"""
    pins = {}
    for n in f.nodes:
        c = comparison(f, n['i'])
        if not c:
            continue
        op, l, r = c
        ln, rn = strip_casts(f, l), strip_casts(f, r)
        if rn.get('id') == var_id and ln['k'] == 'lit':
            op, ln, rn = FLIP[op], rn, ln
        if ln.get('id') != var_id or rn['k'] != 'lit' or not (rn.get('v') == 0 or rn.get('fv') == 0.0):
            continue
        if negative:
            val = {'<': True, '<=': True, '>': False, '>=': False, '==': False, '!=': True}.get(op)
        else:
            val = {'<': False, '>=': True}.get(op)
        if val is not None:
            pins[n['i']] = val
    return pins


def call_pins(g, call_pred, value):
    """pins that fix the result of every call (in the analysed function, its callbacks and inlined helpers) for which
    call_pred(func, node) holds"""
    pins = {}
    for c in g.ctxs:
        for n in c.f.nodes:
            if n['k'] == 'call' and call_pred(c.f, n):
                pins[(id(c.f), n['i'])] = value
    return pins


def gated_by(g, points, call_pred, value=True):
    """every path from the entry to one of `points` depends on a call selected by call_pred having returned `value`: with all those
    calls pinned to the opposite result (named booleans, conjunctions, negations and conditional expressions are folded by the
    explorer) none of the points is reachable.  Returns (holds, offending path or None, number of gate calls)."""
    from ..symb import feasible_reach
    pins = call_pins(g, call_pred, not value)
    if not pins:
        return False, None, 0
    path = feasible_reach(g, [g.entry], points, pins=pins)
    return path is None, path, len(pins)


def after_result(g, call_pred, value, must_hit, target=None):
    """after any call selected by call_pred has returned `value`, every path to `target` (default: the exit) passes one of
    `must_hit`.  Returns (holds, offending path or None, number of calls checked)."""
    from ..symb import feasible_reach
    pins = call_pins(g, call_pred, value)
    n = 0
    for p in g.points:
        if p.n is not None and p.n['k'] == 'call' and (id(p.f), p.n['i']) in pins:
            n += 1
            path = feasible_reach(g, [q for (q, _l) in p.succ], [target or g.exit], avoid=must_hit, pins=pins)
            if path is not None:
                return False, [p] + path, n
    return n > 0, None, n


def once_init(f, idx):
    """the initialiser of a local that is initialised once and never written again (casts stripped), else the node itself"""
    for _ in range(4):
        n = strip_casts(f, idx)
        if n['k'] == 'ref' and n.get('sk') == 'local':
            decls = [d for m in f.nodes if m['k'] == 'declstmt' for d in m['decls'] if d['id'] == n['id']]
            inits = [d['init'] for d in decls if d.get('init') is not None and d['init'] >= 0]
            is_reference = any(d['t'].rstrip().endswith('&') for d in decls)   # a reference is never re-bound: "writes" go to the referent
            writes = [] if is_reference else [m for m in f.nodes for (v, s_, vx) in defs_in_node(f, m) if v == n['id'] and m['k'] != 'declstmt' and
                                              not (m['k'] == 'call' and is_transparent_call(m)) and     # std::move(x) / std::forward(x) do not write x
                                              not (not s_ and idx in set(f.subtree(m['i'])))]            # the call the value is being handed to
            if len(inits) == 1 and not writes:
                idx = inits[0]
                continue
        return n
    return strip_casts(f, idx)


def body_entry(g, f, loop):
    """the single point at which an iteration of `loop` enters its body (for `while (a && b)` the true edge of `a` stays inside
    the condition: the body is entered where the last operand came out true); None when it cannot be determined"""
    starts = iteration_starts(g, f, loop)
    if len(starts) > 1 and loop.get('cnd') is not None:
        body = set(f.subtree(loop['body']))
        cset = set(f.subtree(loop['cnd'])) | {loop['cnd']}
        inner = [q for q in starts if q.n is not None and q.f is f and q.n['i'] in body]
        starts = inner or [q for q in starts if q.n is None or q.n['i'] not in cset]
        if len(starts) > 1:
            starts = [q for q in starts if all(o is q or o.id in g.reachable_from([q]) for o in starts)][:1] or starts
    return starts[0] if len(starts) == 1 else None


def stale_across_iterations(g, f, loop, var_id, strict=False):
    """Mentions of local `var_id` inside the body of `loop` that can be reached from the start of an iteration without passing a
    (re)initialisation of it inside the body: a declaration that is not static / thread_local, or a plain assignment.  Such a
    mention sees what the previous iteration left behind.  Returns (list of points, None) or (None, reason)."""
    from ..expr import defs_in_node
    start = body_entry(g, f, loop)
    if start is None:
        return None, 'iteration start not found'
    body = set(f.subtree(loop['body']))
    mentions = [p for p in g.points if p.f is f and p.n is not None and p.n['i'] in body and p.n['k'] == 'ref' and p.n.get('id') == var_id]
    strong = [p for p in g.points if p.f is f and p.n is not None and p.n['i'] in body and
              any(v == var_id and st and not (p.n['k'] == 'binop' and p.n['op'] != '=') for (v, st, _x) in defs_in_node(f, p.n)) and
              not (p.n['k'] == 'declstmt' and any(dd['id'] == var_id and (dd.get('static') or dd.get('tls')) for dd in p.n['decls']))]
    lhs_of_def = set()
    for p in strong:
        if p.n['k'] == 'binop':
            lhs_of_def |= set(f.subtree(p.n['lhs'])) | {p.n['lhs']}
    # something an iteration leaves behind: a definition inside the body that is not such a (re)initialisation (an out-parameter
    # call, a compound assignment, an increment) and from which the start of the next iteration is reachable without passing one
    # (a flag that is reset at the *end* of every iteration is as fresh as one declared at the top)
    strong_ids = {p.id for p in strong}
    dirty = [p for p in g.points if p.f is f and p.n is not None and p.n['i'] in body and p.id not in strong_ids and
             any(v == var_id for (v, _st, _x) in defs_in_node(f, p.n))]
    carried = [d for d in dirty if start.id in g.reachable_from([q for (q, _l) in d.succ], avoid=strong)]
    if not carried and not strict:
        # (strict: the variable names an object that is mutated through aliases - handles, callbacks - so only a fresh object per
        # iteration will do, whatever the definitions of the variable itself look like)
        return [], None
    return [m for m in mentions if m.n['i'] not in lhs_of_def and not g.must_pass(m, strong, src=start)], None
